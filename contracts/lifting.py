"""Sidecar contracts for the lifting layer of scenic.core.distributions / lazy_eval / geometry (C05).

Oracles (all from the property statement, none from the code):
  * interval soundness: a reported bound (not None) is a bound of EVERY value `op(x, y)` the expression can take when
    the operands range over their own reported intervals; computing the interval never raises;
  * simplification shortcuts are identities of Python arithmetic on the value type;
  * sampling is a homomorphism: the Python operation applied to the sampled operands, in order, keyword names kept;
  * evaluateInner rebuilds the same operation over the context values of the *corresponding* operands.
Floats are reals (A1)."""
import ast

import z3

from pyvc import contracts as C
from pyvc import extract
from pyvc.interp import BuiltinFn, FuncVal, SymRaise
from pyvc.values import Infinity, PDict, PExc, PList, PObj, SV, compare, sv_and, sv_ite, sv_not, sv_or, tobool, toz3

from .common import repo_class
from .distributions import identity_map

D = "scenic.core.distributions"
L = "scenic.core.lazy_eval"
G = "scenic.core.geometry"

OPT_REAL = C.Opt(C.Real())


# ------------------------------------------------------------------------------------------------
# helpers


def _implies(h, c):
    return z3.Implies(tobool(h), tobool(c))


def _absv(x):
    return sv_ite(compare(">=", x, 0), x, 0 - x)


def _floor(q):
    return SV(z3.ToReal(z3.ToInt(toz3(q, want_real=True))), True)


def python_op(op, x, y=None):
    """(defined?, value) of the Python operation `x.<op>(y)` on real numbers (A1)."""
    if op in ("__add__", "__radd__"):
        return True, x + y
    if op == "__sub__":
        return True, x - y
    if op == "__rsub__":
        return True, y - x
    if op in ("__mul__", "__rmul__"):
        return True, x * y
    if op == "__truediv__":
        return compare("!=", y, 0), x / y
    if op == "__rtruediv__":
        return compare("!=", x, 0), y / x
    if op == "__floordiv__":
        return compare("!=", y, 0), _floor(x / y)
    if op == "__rfloordiv__":
        return compare("!=", x, 0), _floor(y / x)
    if op == "__mod__":
        return compare("!=", y, 0), x - y * _floor(x / y)
    if op == "__rmod__":
        return compare("!=", x, 0), y - x * _floor(y / x)
    if op == "__neg__":
        return True, 0 - x
    if op == "__pos__":
        return True, x
    if op == "__abs__":
        return True, _absv(x)
    return None, None  # no arithmetic meaning modelled (pow, getitem, call, round, len, divmod)


def make_interval(eng, name):
    """An operand's reported interval: each bound is None (unknown) or a real; forks over the 4 shapes."""
    form = eng.choose(4, f"{name} interval shape")
    lo = eng.fresh_real(f"{name}.lo") if form in (0, 1) else None
    hi = eng.fresh_real(f"{name}.hi") if form in (0, 2) else None
    if lo is not None and hi is not None:
        eng.assume(compare("<=", lo, hi))  # requires: an operand's interval is well formed (lo <= hi)
    eng.input_syms.append((f"{name}.lo", OPT_REAL, lo))
    eng.input_syms.append((f"{name}.hi", OPT_REAL, hi))
    return lo, hi


def point_in(eng, name, lo, hi):
    """A fresh value of an operand together with the hypothesis that it lies in the operand's interval."""
    x = eng.fresh_real(name)
    hyp = []
    if lo is not None:
        hyp.append(compare("<=", lo, x))
    if hi is not None:
        hyp.append(compare("<=", x, hi))
    eng.input_syms.append((name, C.Real(), x))
    return x, (sv_and(*hyp) if hyp else True)


def operand_stub(tag, lo, hi):
    """A random operand known only through supportInterval()."""
    o = PObj("RandomOperand", tag=tag)
    o.fields["supportInterval"] = BuiltinFn("supportInterval", lambda: (lo, hi))
    o.fields.update(_isLazy=True, _needsSampling=True, _needsLazyEval=False, _dependencies=(), _requiredProperties=())
    return o


def check_sound(eng, name, result, defined, value, hyp):
    """result = (l, r): every defined value under the hypothesis lies inside the non-None bounds."""
    ok = isinstance(result, tuple) and len(result) == 2
    eng.check(f"{name}#ensures.returns_a_pair", ok)
    if not ok:
        return
    lo, hi = result
    h = sv_and(hyp, defined)
    if lo is not None:
        eng.check(f"{name}#ensures.lower_bound_sound", _implies(h, compare("<=", lo, value)))
    if hi is not None:
        eng.check(f"{name}#ensures.upper_bound_sound", _implies(h, compare("<=", value, hi)))
    if lo is None and hi is None:
        eng.check(f"{name}#ensures.no_bound_claimed_is_sound", True)


def exc_name(exc):
    return getattr(exc.cls, "__name__", getattr(exc.cls, "name", str(exc.cls)))


BINARY_WITH_RULE = ["__add__", "__radd__", "__sub__", "__rsub__", "__mul__", "__rmul__", "__truediv__", "__rtruediv__"]
UNARY_WITH_RULE = ["__neg__", "__abs__"]
OTHER_OPS = ["__floordiv__", "__rfloordiv__", "__mod__", "__rmod__", "__pos__", "__pow__", "__rpow__", "__getitem__", "__call__", "__round__", "__len__", "__divmod__"]


def preload_real_package():
    """Replay drivers run in processes forked from the checker; importing the real package once in the parent saves
    the (slow) import in every replay.  Best effort: a tree that does not import is handled by the drivers."""
    import os

    if os.environ.get("PYVC_NO_PRELOAD"):
        return
    try:
        import scenic.core.distributions  # noqa: F401
        import scenic.core.geometry  # noqa: F401
        import scenic.core.scenarios  # noqa: F401
    except BaseException:
        pass


def register(reg):
    import numbers as _numbers

    preload_real_package()

    from pyvc.builtins_model import NativeModule

    # `numbers.Number` as the real ABC, so that issubclass(float, numbers.Number) has its Python meaning
    xm = getattr(reg, "extra_modules", None) or {}
    xm["numbers"] = NativeModule("numbers", {"Number": _numbers.Number, "Real": _numbers.Real})
    reg.extra_modules = xm

    def none_binop(I, sym, a, b):
        # Python: arithmetic on None is a TypeError
        if a is None or b is None:
            I.raise_("TypeError", f"unsupported operand type(s) for {sym}: NoneType")
        from pyvc.values import PyvcError

        raise PyvcError(f"binary operator {sym} on {a!r}, {b!r} not modelled (line {I.lineno})")

    reg.binop_fallback = none_binop
    register_support_interval(reg)
    register_handlers(reg)
    register_operator_node(reg)
    register_operator_init(reg)
    register_monotonic(reg)
    register_interval_helpers(reg)
    register_other_nodes(reg)
    register_lazy_layer(reg)
    register_vector_layer(reg)
    register_dispatch(reg)


# ------------------------------------------------------------------------------------------------
# (1) OperatorDistribution.supportInterval


def register_support_interval(reg):
    OD = f"{D}:OperatorDistribution"

    def make(op):
        unary = op in UNARY_WITH_RULE or op in ("__pos__", "__round__", "__len__")
        name = f"distributions.OperatorDistribution.supportInterval[{op}]"

        def setup(I, env):
            eng = I.eng
            l1, r1 = make_interval(eng, "object")
            obj = operand_stub("object", l1, r1)
            self = env.vars["self"]
            env.vars["_iv1"] = (l1, r1)
            if unary:
                operands = ()
                env.vars["_iv2"] = None
            else:
                l2, r2 = make_interval(eng, "operand")
                operands = (operand_stub("operand", l2, r2),)
                env.vars["_iv2"] = (l2, r2)
            self.fields.update(operator=op, object=obj, operands=operands, kwoperands=PDict())
            eng.input_syms.append(("operator", C.Const(None), op))

        def post(I, env, outcome):
            eng = I.eng
            if outcome[0] != "return":
                return  # reported by the generic no-unexpected-exception obligation (totality)
            l1, r1 = env.vars["_iv1"]
            x, hx = point_in(eng, "x", l1, r1)
            if env.vars["_iv2"] is not None:
                l2, r2 = env.vars["_iv2"]
                y, hy = point_in(eng, "y", l2, r2)
            else:
                y, hy = None, True
            defined, value = python_op(op, x, y)
            if defined is None:
                res = outcome[1]
                eng.check(f"{name}#ensures.no_bound_claimed_for_an_operator_without_interval_semantics", isinstance(res, tuple) and len(res) == 2 and res[0] is None and res[1] is None)
                return
            check_sound(eng, name, outcome[1], defined, value, sv_and(hx, hy))

        reg.add(
            C.Contract(
                f"{OD}.supportInterval",
                params=dict(self=C.Obj(OD)),
                setup=setup,
                post=post,
                inline=["supportInterval"],
                replay=replay_operator_support,
                properties=("C05",),
            ),
            key=f"{OD}.supportInterval[{op}]",
        )

    for op in BINARY_WITH_RULE + UNARY_WITH_RULE + OTHER_OPS:
        make(op)


def _stub_dist(lo, hi):
    from scenic.core.distributions import Distribution

    class Operand(Distribution):
        def __init__(self):
            super().__init__(valueType=float)

        def supportInterval(self):
            return lo, hi

    return Operand()


def _same(a, b):
    """Equality that never calls == on a lazy/random value (their == builds a node or raises)."""
    if a is b:
        return True
    if getattr(a, "_isLazy", False) or getattr(b, "_isLazy", False):
        return False
    if isinstance(a, (tuple, list)) and isinstance(b, (tuple, list)):
        return type(a) is type(b) and len(a) == len(b) and all(_same(x, y) for x, y in zip(a, b))
    if isinstance(a, dict) and isinstance(b, dict):
        return list(a) == list(b) and all(_same(a[k], b[k]) for k in a)
    try:
        return bool(a == b)
    except Exception:
        return False


def _inside(x, lo, hi):
    return (lo is None or lo <= x) and (hi is None or x <= hi)


def _real_op(op, x, y):
    import operator as O

    table = {
        "__add__": lambda: x + y, "__radd__": lambda: y + x, "__sub__": lambda: x - y, "__rsub__": lambda: y - x,
        "__mul__": lambda: x * y, "__rmul__": lambda: y * x, "__truediv__": lambda: x / y, "__rtruediv__": lambda: y / x,
        "__floordiv__": lambda: x // y, "__rfloordiv__": lambda: y // x, "__mod__": lambda: x % y, "__rmod__": lambda: y % x,
        "__neg__": lambda: -x, "__pos__": lambda: +x, "__abs__": lambda: abs(x),
    }
    return table[op]() if op in table else None


def replay_operator_support(inputs, clause):
    """Real OperatorDistribution over operands whose supportInterval() is the model's; the value at the model's point."""
    from scenic.core.distributions import OperatorDistribution

    op = inputs["operator"]
    obj = _stub_dist(inputs.get("object.lo"), inputs.get("object.hi"))
    operands = ()
    if "operand.lo" in inputs:
        operands = (_stub_dist(inputs.get("operand.lo"), inputs.get("operand.hi")),)
    node = OperatorDistribution(op, obj, operands, {}, valueType=float)
    lo, hi = node.supportInterval()  # an exception here is reported by the runner (totality)
    x, y = inputs.get("x"), inputs.get("y")
    if x is None or not _inside(x, inputs.get("object.lo"), inputs.get("object.hi")):
        return None
    if y is not None and not _inside(y, inputs.get("operand.lo"), inputs.get("operand.hi")):
        return None
    try:
        v = _real_op(op, float(x), None if y is None else float(y))
    except ZeroDivisionError:
        return None
    if v is None:
        if lo is not None or hi is not None:
            return f"supportInterval of {op} claims ({lo}, {hi}) although no interval rule is specified for it"
        return None
    eps = 1e-9 * (1 + abs(v))
    if (lo is not None and v < lo - eps) or (hi is not None and v > hi + eps):
        return f"supportInterval() = ({lo}, {hi}) for {op} with operand intervals object=({inputs.get('object.lo')}, {inputs.get('object.hi')}) operand=({inputs.get('operand.lo')}, {inputs.get('operand.hi')}), but x={x}, y={y} gives the value {v}"
    return None


# ------------------------------------------------------------------------------------------------
# (2) makeOperatorHandler: every shortcut is an identity of Python arithmetic; otherwise the node is `self op arg`

_powfn = z3.Function("python_pow", z3.RealSort(), z3.RealSort(), z3.RealSort())


def python_op_ext(op, x, y):
    """python_op extended with the two facts about ** that the shortcuts may rely on (x**1 == x, x**0 == 1)."""
    if op in ("__pow__", "__rpow__"):
        base, ex = (x, y) if op == "__pow__" else (y, x)
        zb, ze = toz3(base, want_real=True), toz3(ex, want_real=True)
        return True, SV(z3.If(ze == 1, zb, z3.If(ze == 0, z3.RealVal(1), _powfn(zb, ze))), True)
    return python_op(op, x, y)


ALL_HANDLER_OPS = ["__neg__", "__pos__", "__abs__", "__round__", "__getitem__", "__len__"] + [
    "__add__", "__radd__", "__sub__", "__rsub__", "__mul__", "__rmul__", "__truediv__", "__rtruediv__", "__floordiv__",
    "__rfloordiv__", "__mod__", "__rmod__", "__divmod__", "__rdivmod__", "__pow__", "__rpow__",
]


def node_ctor(I, cls, args, kwargs):
    """OperatorDistribution(operator, obj, operands, kwoperands, valueType=None) as a record of its arguments."""
    names = ["operator", "object", "operands", "kwoperands", "valueType"]
    b = dict(zip(names, args))
    b.update(kwargs)
    o = PObj(cls)
    kw = b.get("kwoperands")
    kwd = PDict(list(zip(kw.keys, kw.vals))) if isinstance(kw, PDict) else PDict(list((kw or {}).items()))
    ops = tuple(I.iterate(b.get("operands", ())))
    o.fields.update(operator=b.get("operator"), object=b.get("object"), operands=ops, kwoperands=kwd, _valueType=b.get("valueType"))
    o.fields.update(_isLazy=True, _needsSampling=True, _needsLazyEval=False, _requiredProperties=(), _dependencies=(b.get("object"),) + ops + tuple(kwd.vals))
    o.fields["_conditioned"] = o
    return o


def register_handlers(reg):
    reg.constructors[f"{D}:OperatorDistribution"] = node_ctor
    reg.trust("OperatorDistribution.__init__ (at construction sites inside other carriers)", "modelled as a record of (operator, object, operands, kwoperands, valueType); the real initialiser has its own contract OperatorDistribution.__init__")
    ori_cls = repo_class("scenic.core.vectors:Orientation")
    identity = PObj(ori_cls, tag="globalOrientation")
    reg.global_overrides["scenic.core.vectors:globalOrientation"] = identity
    reg.trust("vectors.globalOrientation", "an opaque token for the identity orientation (q * identity == q is a rotation-group axiom, C07)")
    name = "distributions.makeOperatorHandler"

    def setup(I, env):
        eng = I.eng
        op = ALL_HANDLER_OPS[eng.choose(len(ALL_HANDLER_OPS), "operator")]
        env.vars["op"] = op
        env.vars["ty"] = None
        eng.input_syms.append(("operator", C.Const(None), op))

    def post(I, env, outcome):
        eng = I.eng
        if outcome[0] != "return":
            return
        handler, op = outcome[1], env.vars["op"]
        eng.check(f"{name}#ensures.returns_a_handler", isinstance(handler, FuncVal))
        if not isinstance(handler, FuncVal):
            return
        vt_k = eng.choose(3, "value type")
        vt = (float, int, ori_cls)[vt_k]
        eng.input_syms.append(("valueType", C.Const(None), ("float", "int", "Orientation")[vt_k]))
        self = PObj(repo_class(f"{D}:Distribution"), tag="X")
        self.fields.update(_valueType=vt, _isLazy=True, _needsSampling=True, _needsLazyEval=False, _dependencies=(), _requiredProperties=())
        self.fields["_conditioned"] = self
        unary = op in ("__neg__", "__pos__", "__abs__", "__len__")
        if unary:
            args = []
        elif vt is ori_cls:
            args = [identity if eng.choose(2, "arg is the identity orientation?") == 0 else eng.fresh_real("c")]
        else:
            kind = eng.choose(2, "constant kind")
            c = eng.fresh_real("c") if kind == 0 else eng.fresh_int("c")
            eng.input_syms.append(("c", C.Real() if kind == 0 else C.Int(), c))
            args = [c]
        try:
            res = I.call_value(handler, [self] + args)
        except SymRaise as sr:
            eng.check(f"{name}#ensures.handler_does_not_raise", False, detail=repr(sr.exc))
            return
        if res is self:
            # a shortcut was taken: it must be an identity of Python arithmetic on the value type
            if vt is ori_cls:
                eng.check(f"{name}#ensures.orientation_shortcut_only_for_multiplication_by_the_identity", op in ("__mul__", "__rmul__") and args[0] is identity)
                return
            x = eng.fresh_real("x") if vt is float else eng.fresh_int("x")
            eng.input_syms.append(("x", C.Real() if vt is float else C.Int(), x))
            if unary:
                defined, value = python_op_ext(op, x, None)
            else:
                defined, value = python_op_ext(op, x, args[0])
            if defined is None:
                eng.check(f"{name}#ensures.no_shortcut_for_an_operator_without_arithmetic_meaning", False)
                return
            eng.check(f"{name}#ensures.shortcut_is_an_identity_of_python_arithmetic", _implies(defined, compare("==", value, x)))
            eng.check(f"{name}#ensures.shortcut_operation_is_defined", defined)
            return
        ok = isinstance(res, PObj) and getattr(res.cls, "name", None) == "OperatorDistribution"
        eng.check(f"{name}#ensures.otherwise_builds_an_operator_node", ok)
        if not ok:
            return
        f = res.fields
        eng.check(f"{name}#ensures.node_has_the_operator", f["operator"] == op)
        eng.check(f"{name}#ensures.node_object_is_self", f["object"] is self)
        same = len(f["operands"]) == len(args) and all((a is b) for a, b in zip(f["operands"], args))
        eng.check(f"{name}#ensures.node_operands_are_the_arguments_in_order", same)
        eng.check(f"{name}#ensures.node_has_no_keyword_operands", len(f["kwoperands"].keys) == 0)

    reg.add(
        C.Contract(
            f"{D}:makeOperatorHandler",
            params=dict(op=C.Const(None), ty=C.Const(None)),
            setup=setup,
            post=post,
            replay=replay_handler,
            properties=("C05",),
        )
    )


def replay_handler(inputs, clause):
    from scenic.core.distributions import Distribution

    op, vt = inputs.get("operator"), inputs.get("valueType")
    if vt not in ("float", "int") or "c" not in inputs:
        return None
    ty = float if vt == "float" else int

    class Leaf(Distribution):
        def __init__(self):
            super().__init__(valueType=ty)

    d = Leaf()
    c = inputs["c"]
    res = getattr(d, op)(c)
    if res is not d:
        ok = getattr(res, "operator", None) == op and getattr(res, "object", None) is d and _same(tuple(getattr(res, "operands", ())), (c,)) and not getattr(res, "kwoperands", None)
        return None if ok else f"X.{op}({c!r}) built the node operator={getattr(res, 'operator', None)!r} object-is-X={getattr(res, 'object', None) is d} operands={getattr(res, 'operands', None)!r}; expected operator {op!r} over (X; {c!r})"
    if "x" not in inputs:
        return None
    x = ty(inputs["x"]) if vt == "int" else float(inputs["x"])
    try:
        v = _real_op(op, x, c) if op not in ("__pow__", "__rpow__") else (x**c if op == "__pow__" else c**x)
    except ZeroDivisionError:
        return f"X.{op}({c!r}) is simplified to X although the operation is undefined for X = {x!r}"
    if v != x:
        sym = {"__floordiv__": "//", "__truediv__": "/", "__pow__": "**", "__add__": "+", "__radd__": "+", "__sub__": "-", "__mul__": "*", "__rmul__": "*"}.get(op, op)
        return f"X {sym} {c!r} is simplified to X (the very same node), but for the sample X = {x!r} Python gives {v!r}"
    return None


# ------------------------------------------------------------------------------------------------
# (3) OperatorDistribution.sampleGiven / evaluateInner / __init__: homomorphism

REVERSE_OF = {"__add__": "__radd__", "__rsub__": "__sub__", "__mul__": "__rmul__", "__rtruediv__": "__truediv__", "__pow__": "__rpow__"}
SYMBOL_OF = {"__add__": "+", "__rsub__": "-", "__mul__": "*", "__rtruediv__": "/", "__pow__": "**"}


def install_value_in_context(reg):
    """valueInContext at call sites inside other carriers: an abstract, logged evaluation (its own contract is below)."""

    def vic(I, value, context):
        memo = I.__dict__.setdefault("vic_memo", {})
        I.__dict__.setdefault("vic_log", []).append((value, context))
        if id(value) not in memo:
            memo[id(value)] = (value, PObj("ValueInContext", tag=f"ctx({getattr(value, 'tag', value)})"))
        return memo[id(value)][1]

    reg.models[f"{L}:valueInContext"] = vic
    reg.trust("lazy_eval.valueInContext (at call sites inside evaluateInner carriers)", "abstract logged function of (value, context); the real function has its own contract")


def reset_vic(I):
    I.vic_memo, I.vic_log = {}, []


def vic_of(I, value):
    m = I.vic_memo.get(id(value))
    return None if m is None else m[1]


def register_operator_node(reg):
    install_value_in_context(reg)
    OD = f"{D}:OperatorDistribution"

    # ---------------------------------------------------------------- sampleGiven
    SHAPES = ["__add__", "__rsub__", "__mul__", "__getitem__", "__call__", "method_with_keywords"]

    def setup_sg(I, env):
        eng = I.eng
        shape = SHAPES[eng.choose(len(SHAPES), "operator shape")]
        op = "__call__" if shape == "method_with_keywords" else shape
        npos = 2 if shape == "method_with_keywords" else (0 if shape == "__call__" and False else 1)
        kwnames = ["beta", "alpha"] if shape == "method_with_keywords" else []
        reversible = op in REVERSE_OF
        calls = []
        R, R2 = PObj("Result", tag="forward result"), PObj("Result", tag="reverse result")
        fwd_ni = reversible and eng.choose(2, "forward returns NotImplemented?") == 1
        rev_ni = fwd_ni and eng.choose(2, "reverse returns NotImplemented?") == 1
        first = PObj("SampledObject", tag="v(object)")

        def forward(*a, **k):
            calls.append(("forward", a, k))
            return NotImplemented if fwd_ni else R

        first.fields[op] = BuiltinFn(op, forward)
        keys = [PObj("RandomOperand", tag=f"operand{i}") for i in range(npos)]
        vals = [PObj("SampledOperand", tag=f"v(operand{i})") for i in range(npos)]
        if reversible:

            def reverse(*a, **k):
                calls.append(("reverse", a, k))
                return NotImplemented if rev_ni else R2

            vals[0].fields[REVERSE_OF[op]] = BuiltinFn(REVERSE_OF[op], reverse)
        kwkeys = [PObj("RandomOperand", tag=f"kw:{n}") for n in kwnames]
        kwvals = [PObj("SampledOperand", tag=f"v(kw:{n})") for n in kwnames]
        objk = PObj("RandomOperand", tag="object")
        self = env.vars["self"]
        self.fields.update(operator=op, object=objk, operands=tuple(keys), kwoperands=PDict(list(zip(kwnames, kwkeys))), symbol=SYMBOL_OF.get(op), reverse=REVERSE_OF.get(op))
        env.vars["value"] = identity_map(I, [(objk, first)] + list(zip(keys, vals)) + list(zip(kwkeys, kwvals)))
        env.vars.update(_calls=calls, _R=R, _R2=R2, _fwd_ni=fwd_ni, _rev_ni=rev_ni, _first=first, _vals=vals, _kw=list(zip(kwnames, kwvals)), _reversible=reversible)
        eng.input_syms.append(("shape", C.Const(None), shape))
        eng.input_syms.append(("forward_not_implemented", C.Const(None), fwd_ni))
        eng.input_syms.append(("reverse_not_implemented", C.Const(None), rev_ni))

    def post_sg(I, env, outcome):
        eng = I.eng
        name = "distributions.OperatorDistribution.sampleGiven"
        v = env.vars
        calls, vals, kw = v["_calls"], v["_vals"], v["_kw"]
        fw = [c for c in calls if c[0] == "forward"]
        rv = [c for c in calls if c[0] == "reverse"]
        eng.check(f"{name}#ensures.operation_applied_exactly_once_to_the_sampled_object", len(fw) == 1 and calls[0][0] == "forward")
        if len(fw) == 1:
            a, k = fw[0][1], fw[0][2]
            eng.check(f"{name}#ensures.positional_operands_are_the_sampled_operands_in_order", len(a) == len(vals) and all(x is y for x, y in zip(a, vals)))
            eng.check(f"{name}#ensures.keyword_operands_keep_their_names", sorted(k) == sorted(n for n, _ in kw) and all(k.get(n) is val for n, val in kw))
        if not v["_fwd_ni"]:
            eng.check(f"{name}#ensures.result_is_what_the_operation_returned", outcome[0] == "return" and outcome[1] is v["_R"])
            eng.check(f"{name}#ensures.no_reverse_call_unless_NotImplemented", len(rv) == 0)
            return
        ok = len(rv) == 1 and len(rv[0][1]) == 1 and rv[0][1][0] is v["_first"] and not rv[0][2]
        eng.check(f"{name}#ensures.reflected_operation_called_on_the_operand_with_the_object", ok)
        if v["_rev_ni"]:
            eng.check(f"{name}#raises.TypeError_when_both_operations_return_NotImplemented", outcome[0] == "raise" and exc_name(outcome[1]) == "TypeError")
        else:
            eng.check(f"{name}#ensures.result_is_what_the_reflected_operation_returned", outcome[0] == "return" and outcome[1] is v["_R2"])

    reg.add(
        C.Contract(
            f"{OD}.sampleGiven",
            params=dict(self=C.Obj(OD), value=C.Const(None)),
            setup=setup_sg,
            post=post_sg,
            raises=[C.Raises("TypeError", mode="may")],
            inline=["DefaultIdentityDict.__getitem__"],
            replay=replay_operator_sample,
            properties=("C05",),
        )
    )

    # ---------------------------------------------------------------- evaluateInner
    def setup_ei(I, env):
        eng = I.eng
        reset_vic(I)
        npos = eng.choose(3, "number of positional operands")
        nkw = eng.choose(3, "number of keyword operands")
        kwnames = ["beta", "alpha"][:nkw]
        self = env.vars["self"]
        objk = PObj("LazyOperand", tag="object")
        keys = [PObj("LazyOperand", tag=f"operand{i}") for i in range(npos)]
        kwkeys = [PObj("LazyOperand", tag=f"kw:{n}") for n in kwnames]
        self.fields.update(operator="__call__", object=objk, operands=tuple(keys), kwoperands=PDict(list(zip(kwnames, kwkeys))), symbol=None, reverse=None)
        ctx = PObj("Context", tag="context")
        env.vars["context"] = ctx
        env.vars.update(_obj=objk, _keys=keys, _kw=list(zip(kwnames, kwkeys)), _ctx=ctx)
        eng.input_syms.append(("positional", C.Const(None), npos))
        eng.input_syms.append(("n_keywords", C.Const(None), nkw))

    def post_ei(I, env, outcome):
        eng = I.eng
        name = "distributions.OperatorDistribution.evaluateInner"
        if outcome[0] != "return":
            return
        v = env.vars
        res = outcome[1]
        ok = isinstance(res, PObj) and getattr(res.cls, "name", None) == "OperatorDistribution"
        eng.check(f"{name}#ensures.builds_an_operator_node", ok)
        if not ok:
            return
        f = res.fields
        eng.check(f"{name}#ensures.same_operator", f["operator"] == "__call__")
        eng.check(f"{name}#ensures.object_is_the_context_value_of_the_object", f["object"] is vic_of(I, v["_obj"]) and f["object"] is not None)
        eng.check(f"{name}#ensures.operands_are_the_context_values_of_the_corresponding_operands", len(f["operands"]) == len(v["_keys"]) and all(a is vic_of(I, k) for a, k in zip(f["operands"], v["_keys"])))
        kws = f["kwoperands"]
        eng.check(f"{name}#ensures.keyword_names_preserved_in_order", list(kws.keys) == [n for n, _ in v["_kw"]])
        eng.check(f"{name}#ensures.keyword_operands_are_the_context_values_of_the_corresponding_operands", len(kws.vals) == len(v["_kw"]) and all(a is vic_of(I, k) for a, (_, k) in zip(kws.vals, v["_kw"])))
        eng.check(f"{name}#ensures.everything_evaluated_in_the_given_context", all(c is v["_ctx"] for _, c in I.vic_log))

    reg.add(
        C.Contract(
            f"{OD}.evaluateInner",
            params=dict(self=C.Obj(OD), context=C.Const(None)),
            setup=setup_ei,
            post=post_ei,
            replay=replay_operator_evaluate,
            properties=("C05",),
        )
    )


def replay_operator_sample(inputs, clause):
    """Real OperatorDistribution.sampleGiven on recording operands."""
    from scenic.core.distributions import OperatorDistribution
    from scenic.core.utils import DefaultIdentityDict

    shape = inputs.get("shape")
    op = "__call__" if shape == "method_with_keywords" else shape
    fwd_ni, rev_ni = bool(inputs.get("forward_not_implemented")), bool(inputs.get("reverse_not_implemented"))
    calls = []

    class Rec:
        def __init__(self, tag):
            self.tag = tag

        def __repr__(self):
            return self.tag

    first = Rec("v(object)")
    npos = 2 if shape == "method_with_keywords" else 1
    kwn = ["beta", "alpha"] if shape == "method_with_keywords" else []
    vals = [Rec(f"v(operand{i})") for i in range(npos)]
    kwv = {n: Rec(f"v(kw:{n})") for n in kwn}

    def fwd(*a, **k):
        calls.append(("forward", a, k))
        return NotImplemented if fwd_ni else "R"

    def rev(*a, **k):
        calls.append(("reverse", a, k))
        return NotImplemented if rev_ni else "R2"

    setattr(first, op, fwd)
    if op in REVERSE_OF:
        setattr(vals[0], REVERSE_OF[op], rev)

    class Leaf:
        pass

    from scenic.core.distributions import Distribution

    class Key(Distribution):
        def __init__(self):
            super().__init__()

    objk, keys, kwk = Key(), [Key() for _ in vals], {n: Key() for n in kwn}
    node = OperatorDistribution(op, objk, tuple(keys), dict(kwk), valueType=object)
    m = DefaultIdentityDict()
    m[objk] = first
    for k, v in zip(keys, vals):
        m[k] = v
    for n in kwn:
        m[kwk[n]] = kwv[n]
    try:
        res = node.sampleGiven(m)
    except TypeError as e:
        if fwd_ni and rev_ni:
            return None
        return f"sampleGiven raised TypeError: {e}"
    fw = [c for c in calls if c[0] == "forward"]
    if len(fw) != 1 or not _same(list(fw[0][1]), vals) or not _same(fw[0][2], kwv):
        return f"{op} was applied as {calls!r}; expected one call with positional {vals!r} and keywords {kwv!r}"
    rv = [c for c in calls if c[0] == "reverse"]
    if fwd_ni and (len(rv) != 1 or not _same(tuple(rv[0][1]), (first,)) or rv[0][2]):
        return f"after NotImplemented the reflected operation was called as {rv!r}; expected one call {REVERSE_OF.get(op)}(v(object)) on v(operand0)"
    if not fwd_ni and rv:
        return f"reflected operation called although the operation returned a result: {rv!r}"
    want = "R" if not fwd_ni else ("R2" if not rev_ni else None)
    if not _same(res, want):
        return f"sampleGiven returned {res!r}, expected {want!r} (calls {calls!r})"
    return None


def replay_operator_evaluate(inputs, clause):
    """Real evaluateInner of a node with lazily evaluated positional and keyword operands."""
    from scenic.core.distributions import Distribution, OperatorDistribution
    from scenic.core.lazy_eval import DelayedArgument, LazilyEvaluable

    npos, kwnames = int(inputs.get("positional", 0)), ["beta", "alpha"][: int(inputs.get("n_keywords", 0))]

    class Leaf(Distribution):
        def __init__(self):
            super().__init__()

    def lazy(tag):
        return DelayedArgument(("p",), lambda ctx: ("ctx", tag), _internal=True)

    obj = Leaf()
    ops = tuple(lazy(f"operand{i}") for i in range(npos))
    kws = {n: lazy(f"kw:{n}") for n in kwnames}
    node = OperatorDistribution("__call__", obj, ops, kws, valueType=object)
    ctx = LazilyEvaluable.makeContext(p=1)
    res = node.evaluateInner(ctx)  # an exception inside the repository is reported by the runner
    want_ops = tuple(("ctx", f"operand{i}") for i in range(npos))
    want_kw = {n: ("ctx", f"kw:{n}") for n in kwnames}
    if not _same(tuple(res.operands), want_ops) or not _same(dict(res.kwoperands), want_kw) or list(res.kwoperands) != kwnames:
        return f"evaluateInner built operands {res.operands!r} / keywords {res.kwoperands!r}; expected {want_ops!r} / {want_kw!r}"
    return None


# ------------------------------------------------------------------------------------------------
# (3b) OperatorDistribution.__init__: the node records the operation faithfully

REFLECTED = {}
for _o in ["add", "sub", "mul", "truediv", "floordiv", "mod", "divmod", "pow"]:
    REFLECTED[f"__{_o}__"] = f"__r{_o}__"
    REFLECTED[f"__r{_o}__"] = f"__{_o}__"


def register_operator_init(reg):
    from .common import install_distribution_stubs
    from pyvc.values import Opaque

    install_distribution_stubs(reg)
    reg.models["scenic.core.type_support:underlyingType"] = lambda I, thing: Opaque("underlyingType")
    reg.models[f"{D}:OperatorDistribution.inferType"] = lambda I, *a, **k: Opaque("inferredType")
    reg.models[f"{D}:AttributeDistribution.inferType"] = lambda I, *a, **k: Opaque("inferredType")
    reg.trust("type_support.underlyingType / *.inferType", "stubs returning an unknown type: type inference is not a carrier of C05")
    OD = f"{D}:OperatorDistribution"
    OPS = ["__add__", "__radd__", "__rsub__", "__floordiv__", "__rpow__", "__neg__", "__getitem__", "__call__"]

    def setup(I, env):
        eng = I.eng
        op = OPS[eng.choose(len(OPS), "operator")]
        npos = 0 if op == "__neg__" else (2 if op == "__call__" else 1)
        kwn = ["beta", "alpha"] if op == "__call__" else []
        obj = operand_stub("object", None, None)
        ops = [operand_stub(f"operand{i}", None, None) for i in range(npos)]
        kws = [operand_stub(f"kw:{n}", None, None) for n in kwn]
        as_list = eng.choose(2, "operands given as a list?") == 1
        env.vars.update(operator=op, obj=obj, operands=PList(ops) if as_list else tuple(ops), kwoperands=PDict(list(zip(kwn, kws))), valueType=None)
        env.vars.update(_ops=ops, _kw=list(zip(kwn, kws)))
        eng.input_syms.append(("op", C.Const(None), op))

    def post(I, env, outcome):
        eng = I.eng
        name = "distributions.OperatorDistribution.__init__"
        if outcome[0] != "return":
            return
        v, f = env.vars, env.vars["self"].fields
        op = v["operator"]
        eng.check(f"{name}#ensures.operator_recorded", f.get("operator") == op)
        eng.check(f"{name}#ensures.object_recorded", f.get("object") is v["obj"])
        got = f.get("operands")
        eng.check(f"{name}#ensures.operands_recorded_in_order", isinstance(got, tuple) and len(got) == len(v["_ops"]) and all(a is b for a, b in zip(got, v["_ops"])))
        kw = f.get("kwoperands")
        eng.check(f"{name}#ensures.keyword_operands_recorded_with_their_names", isinstance(kw, PDict) and list(kw.keys) == [n for n, _ in v["_kw"]] and all(a is b for a, (_, b) in zip(kw.vals, v["_kw"])))
        eng.check(f"{name}#ensures.reflected_operator_is_the_python_reflection", f.get("reverse") == REFLECTED.get(op))
        eng.check(f"{name}#ensures.symbol_only_for_reversible_operators", (f.get("symbol") is not None) == (op in REFLECTED))
        deps = f.get("_dependencies")
        want = [v["obj"]] + v["_ops"] + [b for _, b in v["_kw"]]
        eng.check(f"{name}#ensures.dependencies_are_object_then_operands_then_keyword_operands", isinstance(deps, tuple) and len(deps) == len(want) and all(a is b for a, b in zip(deps, want)))

    reg.add(
        C.Contract(
            f"{OD}.__init__",
            params=dict(self=C.Obj(OD), operator=C.Const(None), obj=C.Const(None), operands=C.Const(None), kwoperands=C.Const(None), valueType=C.Const(None)),
            setup=setup,
            post=post,
            inline=["toDistribution"],
            replay=replay_operator_init,
            properties=("C05",),
        )
    )


# ------------------------------------------------------------------------------------------------
# (4) monotonicDistributionFunction.support (keyword arm included) and the monotonicity precondition at every
#     decoration site found in the tree; custom support functions of distributionFunction(support=...)

_mono = z3.Function("monotone_method", z3.RealSort(), z3.RealSort(), z3.RealSort(), z3.RealSort())


def register_monotonic(reg):
    name = "distributions.monotonicDistributionFunction.support"

    def closure_env(I):
        def method(*args, **kwargs):
            vals = list(args) + [kwargs[k] for k in sorted(kwargs)]
            if any(v is None for v in vals):
                I.raise_("TypeError", "the wrapped function does not accept None")
            if len(vals) != 3:
                I.raise_("TypeError", "wrong number of arguments")
            return SV(_mono(*[toz3(v, want_real=True) for v in vals]), True)

        return dict(method=BuiltinFn("method", method))

    def setup(I, env):
        eng = I.eng
        a1, a2, b1, b2, c1, c2 = z3.Reals("a1!m a2!m b1!m b2!m c1!m c2!m")
        # requires: `method` is non-decreasing in every argument
        eng.assume(z3.ForAll([a1, a2, b1, b2, c1, c2], z3.Implies(z3.And(a1 <= a2, b1 <= b2, c1 <= c2), _mono(a1, b1, c1) <= _mono(a2, b2, c2)), patterns=[z3.MultiPattern(_mono(a1, b1, c1), _mono(a2, b2, c2))]))
        ivs = [make_interval(eng, n) for n in ("arg0", "arg1", "kw")]
        env.vars["subsupports"] = (ivs[0], ivs[1])
        env.vars["k"] = ivs[2]
        env.vars["_ivs"] = ivs

    def post(I, env, outcome):
        eng = I.eng
        if outcome[0] != "return":
            return
        pts, hyps = [], []
        for n, (lo, hi) in zip(("x0", "x1", "xk"), env.vars["_ivs"]):
            x, h = point_in(eng, n, lo, hi)
            pts.append(x)
            hyps.append(h)
        value = SV(_mono(*[toz3(p, want_real=True) for p in pts]), True)
        check_sound(eng, name, outcome[1], True, value, sv_and(*hyps))
        res = outcome[1]
        if isinstance(res, tuple) and len(res) == 2:
            ivs = env.vars["_ivs"]
            eng.check(f"{name}#ensures.lower_bound_known_when_all_lower_bounds_known", (res[0] is not None) or any(lo is None for lo, _ in ivs))
            eng.check(f"{name}#ensures.upper_bound_known_when_all_upper_bounds_known", (res[1] is not None) or any(hi is None for _, hi in ivs))

    reg.add(
        C.Contract(
            f"{D}:monotonicDistributionFunction.support",
            params=dict(subsupports=C.Const(None), k=C.Const(None)),
            kwargs={"k": None},
            closure_env=closure_env,
            setup=setup,
            post=post,
            replay=replay_monotonic_support,
            note="two positional arguments and one keyword argument (symbolic intervals, each bound possibly unknown); "
            "precondition: method is non-decreasing in every argument (discharged at the decoration sites)",
            bounded=True,
            properties=("C05",),
        )
    )

    # ---- decoration sites
    for mod, fn in find_decorated("monotonicDistributionFunction"):
        register_monotone_site(reg, mod, fn)
    for mod, fn, sup in find_custom_supports():
        register_custom_support_site(reg, mod, fn, sup)


_mention_cache = {}


def _scenic_modules_mentioning(word):
    import os

    key = (extract.SRC, word)
    if key in _mention_cache:
        return _mention_cache[key]
    out = _mention_cache[key] = []
    root = os.path.join(extract.SRC, "scenic")
    for dp, dn, fns in os.walk(root):
        for fn in fns:
            if fn.endswith(".py"):
                p = os.path.join(dp, fn)
                try:
                    with open(p, encoding="utf-8") as fh:
                        if word not in fh.read():
                            continue
                except OSError:
                    continue
                rel = os.path.relpath(p, extract.SRC)[:-3].replace(os.sep, ".")
                if rel.endswith(".__init__"):
                    rel = rel[: -len(".__init__")]
                out.append(rel)
    out.sort()
    return out


def find_decorated(deco):
    """Module-level functions decorated with @<deco> (bare name or call) anywhere under src/scenic."""
    out = []
    for mod in _scenic_modules_mentioning("@" + deco):
        m = extract.get_module(mod)
        for node in m.tree.body:
            if isinstance(node, ast.FunctionDef):
                for d in node.decorator_list:
                    f = d.func if isinstance(d, ast.Call) else d
                    if isinstance(f, ast.Name) and f.id == deco:
                        out.append((mod, node.name))
    return out


def find_custom_supports():
    """Module-level functions decorated with @distributionFunction(support=<module-level name>)."""
    out = []
    for mod in _scenic_modules_mentioning("@distributionFunction(support="):
        m = extract.get_module(mod)
        for node in m.tree.body:
            if isinstance(node, ast.FunctionDef):
                for d in node.decorator_list:
                    if isinstance(d, ast.Call) and isinstance(d.func, ast.Name) and d.func.id == "distributionFunction":
                        for kw in d.keywords:
                            if kw.arg == "support" and isinstance(kw.value, ast.Name) and isinstance(m.top.get(kw.value.id), ast.FunctionDef):
                                out.append((mod, node.name, kw.value.id))
    return out


def _python_builtins(I):
    return PDict([("max", I.builtins["max"]), ("min", I.builtins["min"]), ("abs", I.builtins["abs"])])


def register_monotone_site(reg, mod, fn):
    target = f"{mod}:{fn}"
    short = f"{mod.split('.')[-1]}.{fn}"
    N = 2
    holder = {}

    def setup(I, env):
        eng = I.eng
        holder["c"].env["__builtins__"] = _python_builtins(I)
        xs = [eng.fresh_real(f"x{i}") for i in range(N)]
        ys = [eng.fresh_real(f"y{i}") for i in range(N)]
        for i in range(N):
            eng.assume(compare("<=", xs[i], ys[i]))
            eng.input_syms.append((f"x{i}", C.Real(), xs[i]))
            eng.input_syms.append((f"y{i}", C.Real(), ys[i]))
        env.vars["args"] = tuple(xs)
        env.vars["_ys"] = ys

    def post(I, env, outcome):
        eng = I.eng
        if outcome[0] != "return":
            return
        ex = extract.extract(target)
        f = FuncVal(ex.node, ex.module, None, target, None)
        try:
            r2 = I.run_function(f, list(env.vars["_ys"]), {}, holder["c"])
        except SymRaise as sr:
            eng.check(f"{short}#requires_of_monotonicDistributionFunction.total_on_reals", False, detail=repr(sr.exc))
            return
        eng.check(f"{short}#requires_of_monotonicDistributionFunction.non_decreasing_in_every_argument", compare("<=", outcome[1], r2))

    c = C.Contract(
        target,
        params=dict(args=C.Const(None)),
        setup=setup,
        post=post,
        replay=make_replay_monotone_site(mod, fn),
        note="decoration site of @monotonicDistributionFunction: called with 2 real arguments x <= y componentwise",
        bounded=True,
        properties=("C05",),
    )
    holder["c"] = c
    reg.add(c, key=f"{target}[monotone]")


def make_replay_monotone_site(mod, fn):
    def replay(inputs, clause):
        import importlib

        from scenic.core.distributions import FunctionDistribution, Range, supportInterval, underlyingFunction

        f = getattr(importlib.import_module(mod), fn)
        raw = underlyingFunction(f)
        xs = [float(inputs[f"x{i}"]) for i in range(2)]
        ys = [float(inputs[f"y{i}"]) for i in range(2)]
        if not all(x <= y for x, y in zip(xs, ys)):
            return None
        a, b = raw(*xs), raw(*ys)
        if a > b + 1e-12:
            lo_hi = None
            try:
                # the consequence for supports: an interval whose ends are (x_i, y_i)
                d = f(*[Range(x, y) if x < y else x for x, y in zip(xs, ys)])
                lo_hi = supportInterval(d)
            except Exception:
                pass
            return f"{mod}.{fn} is declared monotonic, but {fn}{tuple(xs)} = {a} > {fn}{tuple(ys)} = {b} although {xs} <= {ys} componentwise; supportInterval({fn}(Range(x_i, y_i)...)) = {lo_hi}"
        return None

    return replay


def register_custom_support_site(reg, mod, fn, sup):
    target = f"{mod}:{sup}"
    short = f"{mod.split('.')[-1]}.{sup}"
    N = 2
    holder = {}

    def setup(I, env):
        eng = I.eng
        holder["c"].env["__builtins__"] = _python_builtins(I)
        ivs = [make_interval(eng, f"arg{i}") for i in range(N)]
        env.vars["subsupports"] = tuple(ivs)
        env.vars["_ivs"] = ivs

    def post(I, env, outcome):
        eng = I.eng
        if outcome[0] != "return":
            return
        pts, hyps = [], []
        for i, (lo, hi) in enumerate(env.vars["_ivs"]):
            x, h = point_in(eng, f"x{i}", lo, hi)
            pts.append(x)
            hyps.append(h)
        ex = extract.extract(f"{mod}:{fn}")
        f = FuncVal(ex.node, ex.module, None, f"{mod}:{fn}", None)
        try:
            value = I.run_function(f, pts, {}, holder["c"])
        except SymRaise:
            return
        check_sound(eng, f"{short}[support of {fn}]", outcome[1], True, value, sv_and(*hyps))

    ex = extract.extract(target)
    params = dict(subsupports=C.Const(None)) if ex.node.args.vararg is not None and ex.node.args.vararg.arg == "subsupports" else None
    if params is None:
        return  # unknown calling convention: listed as not reached
    c = C.Contract(target, params=params, setup=setup, post=post, replay=make_replay_custom_support(mod, fn, sup), note=f"custom support function of {fn}: 2 arguments", bounded=True, properties=("C05",))
    holder["c"] = c
    reg.add(c, key=f"{target}[support of {fn}]")


def replay_monotonic_support(inputs, clause):
    """Real monotonicDistributionFunction around a monotone function of two positional and one keyword argument."""
    from scenic.core.distributions import monotonicDistributionFunction

    def f(a, b, k=0.0):
        return a + b + k

    h = monotonicDistributionFunction(f)
    ivs = [(inputs.get(f"{n}.lo"), inputs.get(f"{n}.hi")) for n in ("arg0", "arg1", "kw")]
    d = h(_stub_dist(*ivs[0]), _stub_dist(*ivs[1]), k=_stub_dist(*ivs[2]))
    lo, hi = d.supportInterval()
    pts = [inputs.get(n) for n in ("x0", "x1", "xk")]
    if any(p is None for p in pts):
        # no point in the model (a totality obligation): take the interval ends
        pts = [iv[0] if iv[0] is not None else (iv[1] if iv[1] is not None else 0.0) for iv in ivs]
    v = f(float(pts[0]), float(pts[1]), k=float(pts[2]))
    if not all(_inside(p, *iv) for p, iv in zip(pts, ivs)):
        v = None
    if v is not None and ((lo is not None and v < lo - 1e-9) or (hi is not None and v > hi + 1e-9)):
        return f"support of a monotone f(a, b, k=) over intervals {ivs} is reported as ({lo}, {hi}) but f{tuple(pts)} = {v}"
    if lo is None and all(iv[0] is not None for iv in ivs):
        return f"lower bound unknown although every lower bound is known: {ivs}"
    if hi is None and all(iv[1] is not None for iv in ivs):
        return f"upper bound unknown although every upper bound is known: {ivs}"
    return None


# ------------------------------------------------------------------------------------------------
# (5) interval helpers, primitive supports, findMinMax


def opt_real(eng, name):
    v = eng.fresh_real(name) if eng.choose(2, f"{name} known?") == 0 else None
    eng.input_syms.append((name, OPT_REAL, v))
    return v


def register_interval_helpers(reg):
    # ---------------------------------------------------------------- supmin / supmax
    for fn, cmpop in (("supmin", "<="), ("supmax", ">=")):

        def make(fn=fn, cmpop=cmpop):
            name = f"distributions.{fn}"

            def setup(I, env):
                eng = I.eng
                n = 1 + eng.choose(3, "number of values")
                env.vars["vals"] = tuple(opt_real(eng, f"v{i}") for i in range(n))

            def post(I, env, outcome):
                eng = I.eng
                if outcome[0] != "return":
                    return
                vals, res = env.vars["vals"], outcome[1]
                if res is not None:
                    eng.check(f"{name}#ensures.bounds_every_value", all(v is not None for v in vals) and sv_and(*[compare(cmpop, res, v) for v in vals if v is not None]))
                    eng.check(f"{name}#ensures.is_one_of_the_values", sv_or(*[compare("==", res, v) for v in vals if v is not None]))
                eng.check(f"{name}#ensures.unknown_exactly_when_some_value_is_unknown", (res is None) == any(v is None for v in vals))

            reg.add(C.Contract(f"{D}:{fn}", params=dict(vals=C.Const(None)), setup=setup, post=post, replay=make_replay_sup(fn), properties=("C05",), note="1 to 3 values", bounded=True), key=f"{D}:{fn}[verify]")

        make()

    # ---------------------------------------------------------------- unionOfSupports
    def setup_u(I, env):
        eng = I.eng
        n = 1 + eng.choose(3, "number of supports")
        ivs = [make_interval(eng, f"s{i}") for i in range(n)]
        as_gen = eng.choose(2, "given as a one-shot iterator?") == 1
        from pyvc.builtins_model import OneShot

        env.vars["supports"] = OneShot(ivs) if as_gen else tuple(ivs)
        env.vars["_ivs"] = ivs

    def post_u(I, env, outcome):
        eng = I.eng
        name = "distributions.unionOfSupports"
        if outcome[0] != "return":
            return
        ivs = env.vars["_ivs"]
        k = eng.choose(len(ivs), "which support does the value come from")
        x, h = point_in(eng, "x", *ivs[k])
        check_sound(eng, name, outcome[1], True, x, h)

    reg.add(C.Contract(f"{D}:unionOfSupports", params=dict(supports=C.Const(None)), setup=setup_u, post=post_u, inline=["supmin", "supmax"], replay=replay_union, properties=("C05",), note="1 to 3 supports", bounded=True), key=f"{D}:unionOfSupports[verify]")

    # ---------------------------------------------------------------- addSupports
    def setup_a(I, env):
        eng = I.eng
        env.vars["sup1"], env.vars["sup2"] = make_interval(eng, "sup1"), make_interval(eng, "sup2")

    def post_a(I, env, outcome):
        eng = I.eng
        if outcome[0] != "return":
            return
        x, hx = point_in(eng, "x", *env.vars["sup1"])
        y, hy = point_in(eng, "y", *env.vars["sup2"])
        check_sound(eng, "distributions.addSupports", outcome[1], True, x + y, sv_and(hx, hy))
        res = outcome[1]
        if isinstance(res, tuple) and len(res) == 2:
            eng.check("distributions.addSupports#ensures.lower_known_when_both_lowers_known", (res[0] is not None) == (env.vars["sup1"][0] is not None and env.vars["sup2"][0] is not None))
            eng.check("distributions.addSupports#ensures.upper_known_when_both_uppers_known", (res[1] is not None) == (env.vars["sup1"][1] is not None and env.vars["sup2"][1] is not None))

    reg.add(C.Contract(f"{D}:addSupports", params=dict(sup1=C.Const(None), sup2=C.Const(None)), setup=setup_a, post=post_a, replay=replay_add_supports, properties=("C05",)))

    # ---------------------------------------------------------------- module-level supportInterval(thing)
    def setup_si(I, env):
        eng = I.eng
        kind = eng.choose(4, "kind of thing")
        env.vars["_kind"] = kind
        if kind == 0:
            iv = make_interval(eng, "thing")
            env.vars["thing"], env.vars["_iv"] = operand_stub("thing", *iv), iv
        elif kind == 1:
            env.vars["thing"] = eng.fresh_real("c")
        elif kind == 2:
            env.vars["thing"] = eng.fresh_int("c")
        else:
            env.vars["thing"] = PObj("SomethingElse", tag="thing")

    def post_si(I, env, outcome):
        eng = I.eng
        name = "distributions.supportInterval"
        if outcome[0] != "return":
            return
        kind, res = env.vars["_kind"], outcome[1]
        if kind == 0:
            eng.check(f"{name}#ensures.defers_to_the_value's_own_supportInterval", isinstance(res, tuple) and len(res) == 2 and res[0] is env.vars["_iv"][0] and res[1] is env.vars["_iv"][1])
        elif kind in (1, 2):
            check_sound(eng, name + "[constant]", res, True, env.vars["thing"], True)
        else:
            check_sound(eng, name + "[unknown]", res, False, 0, True)

    reg.add(C.Contract(f"{D}:supportInterval", params=dict(thing=C.Const(None)), setup=setup_si, post=post_si, properties=("C05",)), key=f"{D}:supportInterval[verify]")

    # ---------------------------------------------------------------- Range / DiscreteRange / Multiplexer .supportInterval
    def endpoint(eng, name):
        """A range endpoint: a constant, or a random value with an interval; returns (object, interval, sampled value, hypothesis)."""
        if eng.choose(2, f"{name} random?") == 0:
            c = eng.fresh_real(name)
            eng.input_syms.append((name, C.Real(), c))
            return c, (c, c), c, True
        iv = make_interval(eng, name)
        v, h = point_in(eng, f"v({name})", *iv)
        return operand_stub(name, *iv), iv, v, h

    def setup_range(I, env):
        eng = I.eng
        lo = endpoint(eng, "low")
        hi = endpoint(eng, "high")
        env.vars["self"].fields.update(low=lo[0], high=hi[0], weights=None)
        env.vars["_lo"], env.vars["_hi"] = lo, hi

    def post_range(I, env, outcome):
        eng = I.eng
        if outcome[0] != "return":
            return
        lo, hi = env.vars["_lo"], env.vars["_hi"]
        a, b = lo[2], hi[2]
        v = eng.fresh_real("sample")
        eng.input_syms.append(("sample", C.Real(), v))
        # A3: random.uniform(a, b) lies between its arguments (in either order)
        mn, mx = sv_ite(compare("<=", a, b), a, b), sv_ite(compare("<=", a, b), b, a)
        between = sv_and(compare("<=", mn, v), compare("<=", v, mx))
        check_sound(eng, "distributions.Range.supportInterval", outcome[1], True, v, sv_and(lo[3], hi[3], between))

    reg.add(C.Contract(f"{D}:Range.supportInterval", params=dict(self=C.Obj(f"{D}:Range")), setup=setup_range, post=post_range, inline=["supportInterval", "unionOfSupports", "supmin", "supmax"], replay=replay_range_support, properties=("C05",)))

    def post_drange(I, env, outcome):
        eng = I.eng
        if outcome[0] != "return":
            return
        lo, hi = env.vars["_lo"], env.vars["_hi"]
        a, b = lo[2], hi[2]
        v = eng.fresh_int("sample")
        eng.input_syms.append(("sample", C.Int(), v))
        # DiscreteRange.sampleGiven contract: an integer between ceil(low) and floor(high), i.e. low <= v <= high
        between = sv_and(compare("<=", a, v), compare("<=", v, b))
        check_sound(eng, "distributions.DiscreteRange.supportInterval", outcome[1], True, v, sv_and(lo[3], hi[3], between))

    reg.add(C.Contract(f"{D}:DiscreteRange.supportInterval", params=dict(self=C.Obj(f"{D}:DiscreteRange")), setup=setup_range, post=post_drange, inline=["supportInterval"], replay=replay_drange_support, properties=("C05",)))

    def setup_mux(I, env):
        eng = I.eng
        n = 1 + eng.choose(3, "number of options")
        opts = [endpoint(eng, f"opt{i}") for i in range(n)]
        env.vars["self"].fields.update(options=tuple(o[0] for o in opts), index=PObj("Selector", tag="index"))
        env.vars["_opts"] = opts

    def post_mux(I, env, outcome):
        eng = I.eng
        if outcome[0] != "return":
            return
        opts = env.vars["_opts"]
        k = eng.choose(len(opts), "selected option")
        # MultiplexerDistribution.sampleGiven contract: the value of the selected option
        check_sound(eng, "distributions.MultiplexerDistribution.supportInterval", outcome[1], True, opts[k][2], opts[k][3])

    reg.add(C.Contract(f"{D}:MultiplexerDistribution.supportInterval", params=dict(self=C.Obj(f"{D}:MultiplexerDistribution")), setup=setup_mux, post=post_mux, inline=["supportInterval", "unionOfSupports", "supmin", "supmax"], properties=("C05",), note="1 to 3 options", bounded=True))

    # ---------------------------------------------------------------- geometry.findMinMax
    def setup_fmm(I, env):
        eng = I.eng
        n = eng.choose(4, "number of values")
        vals = [eng.fresh_real(f"v{i}") for i in range(n)]
        for i, x in enumerate(vals):
            eng.input_syms.append((f"v{i}", C.Real(), x))
        env.vars["iterable"] = tuple(vals)

    def post_fmm(I, env, outcome):
        eng = I.eng
        name = "geometry.findMinMax"
        if outcome[0] != "return":
            return
        vals, res = env.vars["iterable"], outcome[1]
        ok = isinstance(res, tuple) and len(res) == 2
        eng.check(f"{name}#ensures.returns_a_pair", ok)
        if not ok:
            return
        mn, mx = res
        if not vals:
            eng.check(f"{name}#ensures.empty_gives_the_empty_interval", isinstance(mn, Infinity) and mn.sign > 0 and isinstance(mx, Infinity) and mx.sign < 0)
            return
        fin = not isinstance(mn, Infinity) and not isinstance(mx, Infinity)
        eng.check(f"{name}#ensures.finite_for_a_nonempty_input", fin)
        if fin:
            eng.check(f"{name}#ensures.min_bounds_every_value_and_is_attained", sv_and(sv_and(*[compare("<=", mn, x) for x in vals]), sv_or(*[compare("==", mn, x) for x in vals])))
            eng.check(f"{name}#ensures.max_bounds_every_value_and_is_attained", sv_and(sv_and(*[compare(">=", mx, x) for x in vals]), sv_or(*[compare("==", mx, x) for x in vals])))

    reg.add(C.Contract(f"{G}:findMinMax", params=dict(iterable=C.Const(None)), setup=setup_fmm, post=post_fmm, replay=replay_find_min_max, properties=("C05",), note="0 to 3 values", bounded=True))


def make_replay_sup(fn):
    def replay(inputs, clause):
        import scenic.core.distributions as d

        vals = [inputs[k] for k in sorted(k for k in inputs if k.startswith("v") and k[1:].isdigit())]
        res = getattr(d, fn)(*vals)
        if any(v is None for v in vals):
            return None if res is None else f"{fn}{tuple(vals)} = {res} although a value is unknown"
        want = min(vals) if fn == "supmin" else max(vals)
        return None if res == want else f"{fn}{tuple(vals)} = {res}, expected {want}"

    return replay


def _ivs_from(inputs, prefix):
    out, i = [], 0
    while f"{prefix}{i}.lo" in inputs or f"{prefix}{i}.hi" in inputs:
        out.append((inputs.get(f"{prefix}{i}.lo"), inputs.get(f"{prefix}{i}.hi")))
        i += 1
    return out


def replay_union(inputs, clause):
    from scenic.core.distributions import unionOfSupports

    ivs = _ivs_from(inputs, "s")
    lo, hi = unionOfSupports(iter(ivs))
    x = inputs.get("x")
    pts = [x] if x is not None else [b for iv in ivs for b in iv if b is not None]
    for p in pts:
        if any((a is None or a <= p) and (b is None or p <= b) for a, b in ivs):
            if (lo is not None and p < lo) or (hi is not None and p > hi):
                return f"unionOfSupports({ivs}) = ({lo}, {hi}) does not contain {p}, which lies in one of the supports"
    return None


def replay_add_supports(inputs, clause):
    from scenic.core.distributions import addSupports

    s1, s2 = (inputs.get("sup1.lo"), inputs.get("sup1.hi")), (inputs.get("sup2.lo"), inputs.get("sup2.hi"))
    lo, hi = addSupports(s1, s2)
    x, y = inputs.get("x"), inputs.get("y")
    if x is not None and y is not None and _inside(x, *s1) and _inside(y, *s2):
        v = x + y
        if (lo is not None and v < lo - 1e-9) or (hi is not None and v > hi + 1e-9):
            return f"addSupports({s1}, {s2}) = ({lo}, {hi}) does not contain {x} + {y}"
    if (lo is None) != (s1[0] is None or s2[0] is None) or (hi is None) != (s1[1] is None or s2[1] is None):
        return f"addSupports({s1}, {s2}) = ({lo}, {hi}): a bound is unknown/known against its inputs"
    return None


def _endpoint_value_ok(inputs, name):
    """(sampled value of the endpoint, whether it lies in the endpoint's interval)"""
    if f"{name}.lo" in inputs or f"{name}.hi" in inputs:
        v = inputs.get(f"v({name})")
        return v, v is not None and _inside(v, inputs.get(f"{name}.lo"), inputs.get(f"{name}.hi"))
    return inputs.get(name), inputs.get(name) is not None


def _sample_admissible(inputs):
    (a, oka), (b, okb), v = _endpoint_value_ok(inputs, "low"), _endpoint_value_ok(inputs, "high"), inputs.get("sample")
    return v is not None and oka and okb and min(a, b) <= v <= max(a, b)


def _endpoint_real(inputs, name):
    if f"{name}.lo" in inputs or f"{name}.hi" in inputs:
        return _stub_dist(inputs.get(f"{name}.lo"), inputs.get(f"{name}.hi"))
    return float(inputs.get(name, 0.0))


def replay_range_support(inputs, clause):
    from scenic.core.distributions import Range

    r = Range.__new__(Range)
    r.low, r.high = _endpoint_real(inputs, "low"), _endpoint_real(inputs, "high")
    lo, hi = r.supportInterval()
    v = inputs.get("sample")
    if _sample_admissible(inputs) and ((lo is not None and v < lo - 1e-9) or (hi is not None and v > hi + 1e-9)):
        return f"Range.supportInterval() = ({lo}, {hi}) for endpoints {inputs}; the sample {v} lies outside"
    return None


def replay_drange_support(inputs, clause):
    from scenic.core.distributions import DiscreteRange

    r = DiscreteRange.__new__(DiscreteRange)
    r.low, r.high, r.weights = _endpoint_real(inputs, "low"), _endpoint_real(inputs, "high"), None
    lo, hi = r.supportInterval()
    v = inputs.get("sample")
    ok = _sample_admissible(inputs) and _endpoint_value_ok(inputs, "low")[0] <= v <= _endpoint_value_ok(inputs, "high")[0]
    if ok and ((lo is not None and v < lo - 1e-9) or (hi is not None and v > hi + 1e-9)):
        return f"DiscreteRange.supportInterval() = ({lo}, {hi}) for endpoints {inputs}; the sample {v} lies outside"
    return None


def replay_find_min_max(inputs, clause):
    from scenic.core.geometry import findMinMax

    vals = [float(inputs[k]) for k in sorted(k for k in inputs if k.startswith("v") and k[1:].isdigit())]
    mn, mx = findMinMax(iter(vals))
    if vals and (mn != min(vals) or mx != max(vals)):
        return f"findMinMax({vals}) = ({mn}, {mx}), expected ({min(vals)}, {max(vals)})"
    return None


# ------------------------------------------------------------------------------------------------
# (6) other lifted nodes: sampling homomorphism, evaluateInner; the DelayedArgument layer


def record_ctor(I, cls, args, kwargs):
    """A node constructor at a construction site inside evaluateInner: a record of the arguments bound by the real signature."""
    init = I.find_method(cls, "__init__")
    o = PObj(cls)
    env = I.bind_args(init, [o] + list(args), dict(kwargs))
    o.fields["_ctor"] = {k: v for k, v in env.vars.items() if v is not o}
    o.fields.update(_isLazy=True, _needsSampling=True, _needsLazyEval=False, _requiredProperties=(), _dependencies=())
    o.fields["_conditioned"] = o
    return o


def recorder(calls, tag, result):
    def fn(*a, **k):
        calls.append((tag, a, k))
        return result

    return BuiltinFn(tag, fn)


def register_other_nodes(reg):
    for cn in ("FunctionDistribution", "MethodDistribution", "AttributeDistribution", "TupleDistribution", "SliceDistribution", "StarredDistribution", "Range", "Normal"):
        reg.constructors[f"{D}:{cn}"] = record_ctor
    reg.trust("node constructors at construction sites inside evaluateInner", "Function/Method/Attribute/Tuple/Slice/Starred distributions, Range and Normal are modelled as records of the arguments bound by their real __init__ signature")
    starred_cls = repo_class(f"{D}:StarredDistribution")

    def keys_and_values(n, tag):
        return [PObj("RandomOperand", tag=f"{tag}{i}") for i in range(n)], [PObj("SampledOperand", tag=f"v({tag}{i})") for i in range(n)]

    # ---------------------------------------------------------------- Function/MethodDistribution.sampleGiven
    def make_call_contract(cn, is_method):
        name = f"distributions.{cn}.sampleGiven"

        def setup(I, env):
            eng = I.eng
            with_star = eng.choose(2, "a starred argument in the middle?") == 1
            with_kw = eng.choose(2, "keyword arguments?") == 1
            calls, R = [], PObj("Result", tag="result")
            ks, vs = keys_and_values(2, "arg")
            pairs = list(zip(ks, vs))
            arguments, expected = [ks[0]], [vs[0]]
            if with_star:
                inner = PObj("RandomOperand", tag="starred value")
                star = PObj(starred_cls, tag="*starred")
                star.fields.update(value=inner, lineno=7)
                elems = (PObj("SampledOperand", tag="s0"), PObj("SampledOperand", tag="s1"))
                pairs += [(inner, elems), (star, elems)]
                arguments.append(star)
                expected += list(elems)
            arguments.append(ks[1])
            expected.append(vs[1])
            kwn = ["beta", "alpha"] if with_kw else []
            kk, kv = keys_and_values(len(kwn), "kw")
            pairs += list(zip(kk, kv))
            self = env.vars["self"]
            fn = recorder(calls, "call", R)
            self.fields.update(arguments=tuple(arguments), kwargs=PDict(list(zip(kwn, kk))))
            if is_method:
                self.fields.update(method=fn, object=PObj("FixedObject", tag="the object"))
            else:
                self.fields.update(function=fn)
            env.vars["value"] = identity_map(I, pairs)
            env.vars.update(_calls=calls, _R=R, _expected=expected, _kw=list(zip(kwn, kv)))
            eng.input_syms.append(("starred", C.Const(None), with_star))
            eng.input_syms.append(("keywords", C.Const(None), with_kw))

        def post(I, env, outcome):
            eng = I.eng
            v = env.vars
            calls = v["_calls"]
            eng.check(f"{name}#ensures.function_called_exactly_once", len(calls) == 1)
            eng.check(f"{name}#ensures.result_is_what_the_function_returned", outcome[0] == "return" and outcome[1] is v["_R"])
            if len(calls) != 1:
                return
            a, k = calls[0][1], calls[0][2]
            exp = ([v["self"].fields["object"]] if is_method else []) + v["_expected"]
            eng.check(f"{name}#ensures.positional_arguments_are_the_sampled_values_in_order_with_starred_ones_spliced_in_place", len(a) == len(exp) and all(x is y for x, y in zip(a, exp)))
            eng.check(f"{name}#ensures.keyword_arguments_keep_their_names", sorted(k) == sorted(n for n, _ in v["_kw"]) and all(k.get(n) is val for n, val in v["_kw"]))

        reg.add(C.Contract(f"{D}:{cn}.sampleGiven", params=dict(self=C.Obj(f"{D}:{cn}"), value=C.Const(None)), setup=setup, post=post, raises=[C.Raises("TypeError", mode="may")], inline=["DefaultIdentityDict.__getitem__"], replay=make_replay_call_node(cn, is_method), properties=("C05",)))

    make_call_contract("FunctionDistribution", False)
    make_call_contract("MethodDistribution", True)

    # ---------------------------------------------------------------- Tuple / Slice / Starred / Attribute .sampleGiven
    def setup_tuple(I, env):
        eng = I.eng
        n = eng.choose(4, "number of coordinates")
        ks, vs = keys_and_values(n, "coord")
        b = eng.choose(3, "builder")
        calls = []
        builder = [I.builtins["tuple"], I.builtins["list"], None][b]
        if builder is None:
            marker = PObj("NamedTuple", tag="built")

            def make(it):
                calls.append(tuple(I.iterate(it)))
                return marker

            builder = BuiltinFn("_make", make)
            env.vars["_marker"] = marker
        env.vars["self"].fields.update(coordinates=tuple(ks), builder=builder)
        env.vars["value"] = identity_map(I, list(zip(ks, vs)))
        env.vars.update(_vs=vs, _b=b, _calls=calls)
        eng.input_syms.append(("n", C.Const(None), n))
        eng.input_syms.append(("builder", C.Const(None), b))

    def post_tuple(I, env, outcome):
        eng = I.eng
        name = "distributions.TupleDistribution.sampleGiven"
        if outcome[0] != "return":
            return
        vs, b, res = env.vars["_vs"], env.vars["_b"], outcome[1]
        if b == 2:
            calls = env.vars["_calls"]
            eng.check(f"{name}#ensures.custom_builder_receives_the_sampled_coordinates_in_order", res is env.vars["_marker"] and len(calls) == 1 and len(calls[0]) == len(vs) and all(x is y for x, y in zip(calls[0], vs)))
            return
        items = res if isinstance(res, tuple) else getattr(res, "items", None)
        eng.check(f"{name}#ensures.same_container_type", isinstance(res, tuple) if b == 0 else isinstance(res, PList))
        eng.check(f"{name}#ensures.elements_are_the_sampled_coordinates_in_order", items is not None and len(items) == len(vs) and all(x is y for x, y in zip(items, vs)))

    reg.add(C.Contract(f"{D}:TupleDistribution.sampleGiven", params=dict(self=C.Obj(f"{D}:TupleDistribution"), value=C.Const(None)), setup=setup_tuple, post=post_tuple, inline=["DefaultIdentityDict.__getitem__"], replay=replay_tuple_sample, properties=("C05",), note="0 to 3 coordinates", bounded=True))

    def setup_slice(I, env):
        ks, vs = keys_and_values(3, "part")
        env.vars["self"].fields.update(start=ks[0], stop=ks[1], step=ks[2])
        env.vars["value"] = identity_map(I, list(zip(ks, vs)))
        env.vars["_vs"] = vs

    def post_slice(I, env, outcome):
        vs, res = env.vars["_vs"], outcome[1] if outcome[0] == "return" else None
        I.eng.check("distributions.SliceDistribution.sampleGiven#ensures.slice_of_the_sampled_start_stop_step", isinstance(res, slice) and res.start is vs[0] and res.stop is vs[1] and res.step is vs[2])

    reg.add(C.Contract(f"{D}:SliceDistribution.sampleGiven", params=dict(self=C.Obj(f"{D}:SliceDistribution"), value=C.Const(None)), setup=setup_slice, post=post_slice, inline=["DefaultIdentityDict.__getitem__"], properties=("C05",)))

    def setup_attr(I, env):
        k, v = PObj("RandomOperand", tag="object"), PObj("SampledObject", tag="v(object)")
        a1, a2 = PObj("AttrValue", tag="v(object).width"), PObj("AttrValue", tag="v(object).length")
        v.fields.update(width=a1, length=a2)
        env.vars["self"].fields.update(attribute="width", object=k)
        env.vars["value"] = identity_map(I, [(k, v)])
        env.vars["_a1"] = a1

    def post_attr(I, env, outcome):
        I.eng.check("distributions.AttributeDistribution.sampleGiven#ensures.the_named_attribute_of_the_sampled_object", outcome[0] == "return" and outcome[1] is env.vars["_a1"])

    reg.add(C.Contract(f"{D}:AttributeDistribution.sampleGiven", params=dict(self=C.Obj(f"{D}:AttributeDistribution"), value=C.Const(None)), setup=setup_attr, post=post_attr, inline=["DefaultIdentityDict.__getitem__"], properties=("C05",)))

    def setup_star(I, env):
        k, v = PObj("RandomOperand", tag="value"), PObj("SampledOperand", tag="v(value)")
        env.vars["self"].fields.update(value=k, lineno=3)
        env.vars["value"] = identity_map(I, [(k, v)])
        env.vars["_v"] = v

    def post_star(I, env, outcome):
        I.eng.check("distributions.StarredDistribution.sampleGiven#ensures.the_sampled_value_of_the_starred_expression", outcome[0] == "return" and outcome[1] is env.vars["_v"])

    reg.add(C.Contract(f"{D}:StarredDistribution.sampleGiven", params=dict(self=C.Obj(f"{D}:StarredDistribution"), value=C.Const(None)), setup=setup_star, post=post_star, inline=["DefaultIdentityDict.__getitem__"], properties=("C05",)))

    # ---------------------------------------------------------------- AttributeDistribution.supportInterval
    def setup_asi(I, env):
        eng = I.eng
        mux = eng.choose(2, "object is a multiplexer over fixed options?") == 0
        self = env.vars["self"]
        self.fields["attribute"] = "width"
        env.vars["_opts"] = None
        if not mux:
            self.fields["object"] = operand_stub("object", None, None)
            return
        n = 1 + eng.choose(2, "number of options")
        opts = []
        for i in range(n):
            o = PObj("FixedOption", tag=f"opt{i}")
            if eng.choose(2, f"opt{i}.width random?") == 0:
                c = eng.fresh_real(f"opt{i}.width")
                eng.input_syms.append((f"opt{i}.width", C.Real(), c))
                o.fields["width"] = c
                opts.append((o, c, True))
            else:
                iv = make_interval(eng, f"opt{i}.width")
                w, h = point_in(eng, f"v(opt{i}.width)", *iv)
                o.fields["width"] = operand_stub(f"opt{i}.width", *iv)
                opts.append((o, w, h))
        m = PObj(repo_class(f"{D}:MultiplexerDistribution"), tag="multiplexer")
        m.fields.update(options=tuple(o for o, _, _ in opts), index=PObj("Selector", tag="index"))
        self.fields["object"] = m
        env.vars["_opts"] = opts

    def post_asi(I, env, outcome):
        eng = I.eng
        name = "distributions.AttributeDistribution.supportInterval"
        if outcome[0] != "return":
            return
        opts = env.vars["_opts"]
        if opts is None:
            check_sound(eng, name + "[other object]", outcome[1], False, 0, True)
            res = outcome[1]
            eng.check(f"{name}[other object]#ensures.nothing_claimed_about_an_unknown_object", isinstance(res, tuple) and res[0] is None and res[1] is None)
            return
        k = eng.choose(len(opts), "selected option")
        check_sound(eng, name, outcome[1], True, opts[k][1], opts[k][2])

    reg.add(C.Contract(f"{D}:AttributeDistribution.supportInterval", params=dict(self=C.Obj(f"{D}:AttributeDistribution")), setup=setup_asi, post=post_asi, inline=["supportInterval", "unionOfSupports", "supmin", "supmax"], properties=("C05",), note="1 or 2 fixed options", bounded=True))

    # ---------------------------------------------------------------- evaluateInner of the other nodes
    def make_eval_inner(cn, fields, expect):
        """fields: dict field -> 'lazy' | ('lazies', n) | ('kw', names) | constant; expect(ctor, V) -> list of (clause, bool)."""
        name = f"distributions.{cn}.evaluateInner"

        def setup(I, env):
            reset_vic(I)
            self = env.vars["self"]
            made = {}
            for f, kind in fields.items():
                if kind == "lazy":
                    made[f] = PObj("LazyOperand", tag=f)
                elif isinstance(kind, tuple) and kind[0] == "lazies":
                    made[f] = tuple(PObj("LazyOperand", tag=f"{f}{i}") for i in range(kind[1]))
                elif isinstance(kind, tuple) and kind[0] == "kw":
                    made[f] = PDict([(n, PObj("LazyOperand", tag=f"{f}:{n}")) for n in kind[1]])
                else:
                    made[f] = kind
                self.fields[f] = made[f]
            ctx = PObj("Context", tag="context")
            env.vars["context"] = ctx
            env.vars.update(_made=made, _ctx=ctx)

        def post(I, env, outcome):
            eng = I.eng
            if outcome[0] != "return":
                return
            res = outcome[1]
            ok = isinstance(res, PObj) and getattr(res.cls, "name", None) == cn and "_ctor" in res.fields
            eng.check(f"{name}#ensures.builds_a_node_of_the_same_class", ok)
            if not ok:
                return
            for clause, val in expect(res.fields["_ctor"], lambda x: vic_of(I, x), env.vars["_made"]):
                eng.check(f"{name}#ensures.{clause}", val)
            eng.check(f"{name}#ensures.everything_evaluated_in_the_given_context", all(c is env.vars["_ctx"] for _, c in I.vic_log))

        reg.add(C.Contract(f"{D}:{cn}.evaluateInner", params=dict(self=C.Obj(f"{D}:{cn}"), context=C.Const(None)), setup=setup, post=post, replay=make_replay_eval_inner(cn), properties=("C05",)))

    def seq_is(got, keys, V):
        got = tuple(got) if isinstance(got, tuple) else tuple(getattr(got, "items", ()))
        return len(got) == len(keys) and all(V(k) is not None and g is V(k) for g, k in zip(got, keys))

    def kw_is(got, made, V):
        return isinstance(got, PDict) and list(got.keys) == list(made.keys) and all(V(k) is not None and g is V(k) for g, k in zip(got.vals, made.vals))

    make_eval_inner(
        "FunctionDistribution",
        dict(function="lazy", arguments=("lazies", 2), kwargs=("kw", ["beta", "alpha"]), support=None),
        lambda c, V, m: [
            ("function_is_the_context_value_of_the_function", c["func"] is V(m["function"]) and c["func"] is not None),
            ("arguments_are_the_context_values_of_the_corresponding_arguments", seq_is(c["args"], m["arguments"], V)),
            ("keyword_arguments_keep_names_and_correspond", kw_is(c["kwargs"], m["kwargs"], V)),
        ],
    )
    meth = PObj("Method", tag="the method")
    make_eval_inner(
        "MethodDistribution",
        dict(method=meth, object="lazy", arguments=("lazies", 2), kwargs=("kw", ["beta", "alpha"])),
        lambda c, V, m: [
            ("same_method", c["method"] is meth),
            ("object_is_the_context_value_of_the_object", c["obj"] is V(m["object"]) and c["obj"] is not None),
            ("arguments_are_the_context_values_of_the_corresponding_arguments", seq_is(c["args"], m["arguments"], V)),
            ("keyword_arguments_keep_names_and_correspond", kw_is(c["kwargs"], m["kwargs"], V)),
        ],
    )
    make_eval_inner(
        "AttributeDistribution",
        dict(attribute="width", object="lazy"),
        lambda c, V, m: [("same_attribute", c["attribute"] == "width"), ("object_is_the_context_value_of_the_object", c["obj"] is V(m["object"]) and c["obj"] is not None)],
    )
    bld = PObj("Builder", tag="builder")
    make_eval_inner(
        "TupleDistribution",
        dict(coordinates=("lazies", 3), builder=bld),
        lambda c, V, m: [("same_builder", c["builder"] is bld), ("coordinates_are_the_context_values_in_order", seq_is(c["coordinates"], m["coordinates"], V))],
    )
    make_eval_inner(
        "SliceDistribution",
        dict(start="lazy", stop="lazy", step="lazy"),
        lambda c, V, m: [("start_stop_step_correspond", all(V(m[k]) is not None and c[k] is V(m[k]) for k in ("start", "stop", "step")))],
    )
    make_eval_inner(
        "StarredDistribution",
        dict(value="lazy", lineno=11),
        lambda c, V, m: [("value_corresponds_and_line_kept", c["value"] is V(m["value"]) and c["lineno"] == 11)],
    )
    make_eval_inner("Range", dict(low="lazy", high="lazy"), lambda c, V, m: [("low_and_high_correspond", c["low"] is V(m["low"]) and c["high"] is V(m["high"]) and V(m["low"]) is not V(m["high"]))])
    make_eval_inner("Normal", dict(mean="lazy", stddev="lazy"), lambda c, V, m: [("mean_and_stddev_correspond", c["mean"] is V(m["mean"]) and c["stddev"] is V(m["stddev"]) and V(m["mean"]) is not V(m["stddev"]))])


def make_replay_eval_inner(cn):
    """The real node of class `cn` over lazily evaluated operands, evaluated in a real context; every constructor
    argument of the rebuilt node is compared with the context value of the corresponding operand (or the unchanged
    constant), and the rebuilt node is sampled where that is cheap."""

    def replay(inputs, clause):
        import scenic.core.distributions as d
        from scenic.core.lazy_eval import DelayedArgument, LazilyEvaluable

        lazy = lambda v: DelayedArgument((), lambda context, v=v: v, _internal=True)
        ctx = LazilyEvaluable.makeContext()

        def fn(*a, **k):
            return ("called", a, tuple(sorted(k.items())))

        class Host:
            width = "the width"

            def meth(self, *a, **k):
                return ("method", a, tuple(sorted(k.items())))

        host = Host()
        if cn == "FunctionDistribution":
            node = d.FunctionDistribution(lazy(fn), (lazy(1), lazy(2)), {"beta": lazy(3), "alpha": lazy(4)})
            want = dict(function=fn, arguments=(1, 2), kwargs={"beta": 3, "alpha": 4})
        elif cn == "MethodDistribution":
            node = d.MethodDistribution(Host.meth, lazy(host), (lazy(1), lazy(2)), {"beta": lazy(3), "alpha": lazy(4)})
            want = dict(method=Host.meth, object=host, arguments=(1, 2), kwargs={"beta": 3, "alpha": 4})
        elif cn == "AttributeDistribution":
            node = d.AttributeDistribution("width", lazy(host))
            want = dict(attribute="width", object=host)
        elif cn == "TupleDistribution":
            node = d.TupleDistribution(lazy(1), lazy(2), lazy(3), builder=list)
            want = dict(builder=list, coordinates=(1, 2, 3))
        elif cn == "SliceDistribution":
            node = d.SliceDistribution(lazy(1), lazy(7), lazy(2))
            want = dict(start=1, stop=7, step=2)
        elif cn == "StarredDistribution":
            node = d.StarredDistribution(lazy((1, 2)), 11)
            want = dict(value=(1, 2), lineno=11)
        elif cn == "Range":
            node = d.Range(lazy(1.0), lazy(2.0))
            want = dict(low=1.0, high=2.0)
        elif cn == "Normal":
            node = d.Normal(lazy(1.0), lazy(2.0))
            want = dict(mean=1.0, stddev=2.0)
        else:
            return None
        res = node.evaluateInner(ctx)
        if type(res) is not type(node):
            return f"{cn}.evaluateInner built a {type(res).__name__}"
        for f, w in want.items():
            g = getattr(res, f)
            if isinstance(w, tuple) and isinstance(g, (tuple, list)):
                g = tuple(g)
            if g is not w and g != w:
                return f"{cn}.evaluateInner over lazily evaluated operands: rebuilt node has {f} = {g!r}, expected {w!r} (the context value of the corresponding operand, constants unchanged)"
        return None

    return replay


def make_replay_call_node(cn, is_method):
    def replay(inputs, clause):
        import scenic.core.distributions as d
        from scenic.core.utils import DefaultIdentityDict

        class Key(d.Distribution):
            def __init__(self):
                super().__init__()

        calls = []

        def fn(*a, **k):
            calls.append((a, k))
            return "R"

        k0, k1 = Key(), Key()
        m = DefaultIdentityDict()
        m[k0], m[k1] = "v0", "v1"
        args, exp = [k0], ["v0"]
        if inputs.get("starred"):
            inner = Key()
            st = d.StarredDistribution(inner, 7)
            m[inner] = m[st] = ("s0", "s1")
            args.append(st)
            exp += ["s0", "s1"]
        args.append(k1)
        exp.append("v1")
        kw, kwexp = {}, {}
        if inputs.get("keywords"):
            for n in ("beta", "alpha"):
                kw[n] = Key()
                m[kw[n]] = kwexp[n] = "v:" + n
        fixed = object()
        node = d.MethodDistribution(fn, fixed, tuple(args), kw, valueType=object) if is_method else d.FunctionDistribution(fn, tuple(args), kw, valueType=object)
        res = node.sampleGiven(m)
        want = ([fixed] if is_method else []) + exp
        if not _same(res, "R") or len(calls) != 1 or not _same(list(calls[0][0]), want) or not _same(calls[0][1], kwexp):
            return f"{cn}.sampleGiven called the function as {calls!r} (result {res!r}); expected one call with {want!r}, {kwexp!r}"
        return None

    return replay


# ------------------------------------------------------------------------------------------------
# (6b) the lazy layer (lazy_eval.py): delayed operations apply the operation to the context values of their parts


def register_lazy_layer(reg):
    DA = f"{L}:DelayedArgument"
    da_cls = repo_class(DA)

    def lazy_part(tag, props):
        o = PObj(da_cls, tag=tag)
        o.fields.update(_requiredProperties=tuple(props), _needsLazyEval=True, _isLazy=True, _needsSampling=False, _dependencies=())
        return o

    def delayed_self(calls, props, evaluated):
        s = lazy_part("self", props)
        s.fields["evaluateIn"] = recorder(calls, "self.evaluateIn", evaluated)
        return s

    def run_value(I, res, ctx, name):
        """Call the `value` closure of the DelayedArgument produced by a carrier."""
        eng = I.eng
        ok = isinstance(res, PObj) and getattr(res.cls, "name", None) == "DelayedArgument" and isinstance(res.fields.get("value"), FuncVal)
        eng.check(f"{name}#ensures.returns_a_delayed_argument", ok)
        if not ok:
            return False, None
        reset_vic(I)
        try:
            return True, I.call_value(res.fields["value"], [ctx])
        except SymRaise as sr:
            eng.check(f"{name}#ensures.evaluation_does_not_raise", False, detail=repr(sr.exc))
            return False, None

    def props_ok(res, want):
        got = res.fields.get("_requiredProperties")
        return isinstance(got, tuple) and sorted(got) == sorted(set(want)) and res.fields.get("_needsLazyEval") is True and res.fields.get("_isLazy") is True

    INL = ["DelayedArgument.__init__", "LazilyEvaluable.__init__"]

    # ---------------------------------------------------------------- makeDelayedOperatorHandler.handler
    LOPS = ["__add__", "__rsub__", "__getitem__", "__neg__", "__lt__"]

    def setup_oh(I, env):
        eng = I.eng
        op = holder_oh["op"]
        calls, R = [], PObj("Result", tag="result")
        E = PObj("Evaluated", tag="self in context")
        E.fields[op] = recorder(calls, "operation", R)
        nargs = 0 if op == "__neg__" else 1
        args = [lazy_part("arg0", ("b", "c"))][:nargs] if eng.choose(2, "lazy argument?") == 0 else [PObj("Plain", tag="arg0")][:nargs]
        env.vars["self"] = delayed_self(calls, ("a", "b"), E)
        env.vars["args"] = tuple(args)
        env.vars.update(_op=op, _calls=calls, _R=R, _E=E)
        eng.input_syms.append(("operator", C.Const(None), op))

    holder_oh = {}

    def closure_oh(I):
        # the closure variable `op` of makeDelayedOperatorHandler: chosen first, read by setup
        holder_oh["op"] = LOPS[I.eng.choose(len(LOPS), "operator")]
        return dict(op=holder_oh["op"])

    def post_oh(I, env, outcome):
        eng = I.eng
        name = "lazy_eval.makeDelayedOperatorHandler.handler"
        if outcome[0] != "return":
            return
        v = env.vars
        ctx = PObj("Context", tag="context")
        ok, val = run_value(I, outcome[1], ctx, name)
        if not ok:
            return
        want_props = ["a", "b"] + [p for a in v["args"] for p in a.fields.get("_requiredProperties", ())]
        eng.check(f"{name}#ensures.required_properties_are_the_union_of_the_parts", props_ok(outcome[1], want_props))
        calls = v["_calls"]
        ev = [c for c in calls if c[0] == "self.evaluateIn"]
        opc = [c for c in calls if c[0] == "operation"]
        eng.check(f"{name}#ensures.self_evaluated_once_in_the_context", len(ev) == 1 and len(ev[0][1]) == 1 and ev[0][1][0] is ctx)
        eng.check(f"{name}#ensures.operation_applied_once_to_the_context_values_of_the_arguments", len(opc) == 1 and len(opc[0][1]) == len(v["args"]) and all(a is vic_of(I, k) for a, k in zip(opc[0][1], v["args"])) and not opc[0][2])
        eng.check(f"{name}#ensures.value_is_the_result_of_the_operation", val is v["_R"])
        eng.check(f"{name}#ensures.arguments_evaluated_in_the_same_context", all(c is ctx for _, c in I.vic_log))

    reg.add(
        C.Contract(
            f"{L}:makeDelayedOperatorHandler.handler",
            params=dict(self=C.Const(None), args=C.Const(None)),
            closure_env=closure_oh,
            setup=setup_oh,
            post=post_oh,
            inline=INL,
            replay=replay_delayed_operator,
            properties=("C05",),
        )
    )

    # ---------------------------------------------------------------- DelayedArgument.__call__ / makeDelayedFunctionCall
    def make_call(target, short, is_method):
        def setup(I, env):
            eng = I.eng
            calls, R = [], PObj("Result", tag="result")
            nkw = eng.choose(3, "number of keyword arguments")
            kwn = ["beta", "alpha"][:nkw]
            args = [lazy_part("arg0", ("b",)), PObj("Plain", tag="arg1")]
            kws = [lazy_part(f"kw:{n}", ("c", n)) for n in kwn]
            fn = recorder(calls, "call", R)
            if is_method:
                env.vars["self"] = delayed_self(calls, ("a",), fn)
                env.vars["args"] = tuple(args)
                for n, k in zip(kwn, kws):
                    env.vars[n] = k
            else:
                env.vars["func"] = fn
                env.vars["args"] = tuple(args)
                env.vars["kwargs"] = PDict(list(zip(kwn, kws)))
            env.vars.update(_calls=calls, _R=R, _args=args, _kw=list(zip(kwn, kws)))
            eng.input_syms.append(("n_keywords", C.Const(None), nkw))

        def post(I, env, outcome):
            eng = I.eng
            if outcome[0] != "return":
                return
            v = env.vars
            ctx = PObj("Context", tag="context")
            ok, val = run_value(I, outcome[1], ctx, short)
            if not ok:
                return
            want = (["a"] if is_method else []) + ["b"] + [p for _, k in v["_kw"] for p in k.fields["_requiredProperties"]]
            eng.check(f"{short}#ensures.required_properties_are_the_union_of_the_parts", props_ok(outcome[1], want))
            cc = [c for c in v["_calls"] if c[0] == "call"]
            eng.check(f"{short}#ensures.function_called_once", len(cc) == 1)
            if len(cc) == 1:
                a, k = cc[0][1], cc[0][2]
                eng.check(f"{short}#ensures.positional_arguments_are_context_values_in_order", len(a) == 2 and all(x is vic_of(I, y) for x, y in zip(a, v["_args"])))
                eng.check(f"{short}#ensures.keyword_arguments_keep_names_and_are_context_values", sorted(k) == sorted(n for n, _ in v["_kw"]) and all(k.get(n) is vic_of(I, key) for n, key in v["_kw"]))
            eng.check(f"{short}#ensures.value_is_the_result_of_the_call", val is v["_R"])
            if is_method:
                ev = [c for c in v["_calls"] if c[0] == "self.evaluateIn"]
                eng.check(f"{short}#ensures.self_evaluated_once_in_the_context", len(ev) == 1 and ev[0][1][0] is ctx)

        params = dict(self=C.Const(None), args=C.Const(None)) if is_method else dict(func=C.Const(None), args=C.Const(None), kwargs=C.Const(None))
        reg.add(C.Contract(target, params=params, kwargs={"beta": None, "alpha": None} if is_method else None, setup=setup, post=post, inline=INL, replay=make_replay_delayed_call(is_method), properties=("C05",)))

    make_call(f"{DA}.__call__", "lazy_eval.DelayedArgument.__call__", True)
    make_call(f"{L}:makeDelayedFunctionCall", "lazy_eval.makeDelayedFunctionCall", False)

    # ---------------------------------------------------------------- DelayedArgument.__getattr__
    def setup_ga(I, env):
        calls = []
        A = PObj("AttrValue", tag="(self in context).width")
        E = PObj("Evaluated", tag="self in context")
        E.fields["width"] = A
        env.vars["self"] = delayed_self(calls, ("a", "b"), E)
        env.vars["name"] = "width"
        env.vars.update(_calls=calls, _A=A)

    def post_ga(I, env, outcome):
        eng = I.eng
        name = "lazy_eval.DelayedArgument.__getattr__"
        if outcome[0] != "return":
            return
        ctx = PObj("Context", tag="context")
        ok, val = run_value(I, outcome[1], ctx, name)
        if not ok:
            return
        eng.check(f"{name}#ensures.required_properties_are_those_of_self", props_ok(outcome[1], ["a", "b"]))
        ev = env.vars["_calls"]
        eng.check(f"{name}#ensures.value_is_the_attribute_of_self_evaluated_in_the_context", val is env.vars["_A"] and len(ev) == 1 and ev[0][1][0] is ctx)

    reg.add(C.Contract(f"{DA}.__getattr__", params=dict(self=C.Const(None), name=C.Const(None)), setup=setup_ga, post=post_ga, inline=INL, properties=("C05",)))

    # ---------------------------------------------------------------- valueInContext
    def setup_vic(I, env):
        eng = I.eng
        kind = eng.choose(4, "kind of value")
        calls, E = [], PObj("Evaluated", tag="value in context")
        if kind == 0:
            val = delayed_self(calls, ("a",), E)
        elif kind == 1:  # a LazilyEvaluable that needs no lazy evaluation (e.g. a distribution over constants)
            val = lazy_part("settled", ())
            val.fields.update(_needsLazyEval=False, evaluateIn=recorder(calls, "self.evaluateIn", E))
        elif kind == 2:
            val = eng.fresh_real("c")
        else:
            val = PObj("Plain", tag="plain object")
        ctx = PObj("Context", tag="context")
        env.vars.update(value=val, context=ctx, _kind=kind, _calls=calls, _E=E)

    def post_vic(I, env, outcome):
        eng = I.eng
        name = "lazy_eval.valueInContext"
        v = env.vars
        if outcome[0] != "return":
            return
        if v["_kind"] == 0:
            eng.check(f"{name}#ensures.lazy_value_is_evaluated_once_in_the_context", outcome[1] is v["_E"] and len(v["_calls"]) == 1 and v["_calls"][0][1][0] is v["context"])
        else:
            eng.check(f"{name}#ensures.other_values_are_returned_unchanged", outcome[1] is v["value"] and len(v["_calls"]) == 0)

    reg.add(C.Contract(f"{L}:valueInContext", params=dict(value=C.Const(None), context=C.Const(None)), setup=setup_vic, post=post_vic, replay=replay_value_in_context, properties=("C05",)), key=f"{L}:valueInContext[verify]")

    # ---------------------------------------------------------------- LazilyEvaluable.evaluateIn (the per-object cache)
    def setup_ev(I, env):
        eng = I.eng
        cached = eng.choose(2, "already evaluated in this context?") == 0
        calls = []
        V = PObj("Evaluated", tag="fresh evaluation")
        still_lazy = (not cached) and eng.choose(2, "evaluation still lazy?") == 1
        if still_lazy:
            V.fields["_needsLazyEval"] = True
        old = PObj("Evaluated", tag="cached evaluation")
        self = lazy_part("self", ("a",))
        self.fields["evaluateInner"] = recorder(calls, "evaluateInner", V)
        other = lazy_part("other", ("a",))
        ctx = PObj("Context", tag="context")
        cache = identity_map(I, [(other, PObj("Evaluated", tag="other cached"))] + ([(self, old)] if cached else []))
        has_prop = eng.choose(2, "context has the required property?") == 0
        ctx.fields["_evaluated"] = cache
        if has_prop:
            ctx.fields["a"] = 1
        env.vars.update(self=self, context=ctx, _cached=cached, _calls=calls, _V=V, _prev=old, _cache=cache, _still=still_lazy, _has=has_prop)

    def post_ev(I, env, outcome):
        eng = I.eng
        name = "lazy_eval.LazilyEvaluable.evaluateIn"
        v = env.vars
        calls = v["_calls"]
        if v["_cached"]:
            eng.check(f"{name}#ensures.cached_value_returned_without_re-evaluation", outcome[0] == "return" and outcome[1] is v["_prev"] and len(calls) == 0)
            return
        if not v["_has"] or v["_still"]:
            eng.check(f"{name}#raises.AssertionError_on_missing_property_or_unfinished_evaluation", outcome[0] == "raise" and exc_name(outcome[1]) == "AssertionError")
            return
        eng.check(f"{name}#ensures.evaluated_exactly_once_in_the_context", outcome[0] == "return" and len(calls) == 1 and calls[0][1][0] is v["context"] and outcome[1] is v["_V"])
        from pyvc.builtins_model import IdToken

        got = v["_cache"].fields["storage"].get(IdToken(v["self"]))
        eng.check(f"{name}#ensures.result_cached_under_this_value", got is v["_V"])

    reg.add(
        C.Contract(
            f"{L}:LazilyEvaluable.evaluateIn",
            params=dict(self=C.Const(None), context=C.Const(None)),
            setup=setup_ev,
            post=post_ev,
            raises=[C.Raises("AssertionError", mode="may")],
            inline=["DefaultIdentityDict.__getitem__", "DefaultIdentityDict.__setitem__", "DefaultIdentityDict.__contains__"],
            replay=replay_evaluate_in,
            properties=("C05",),
        )
    )


def replay_delayed_operator(inputs, clause):
    from scenic.core.lazy_eval import DelayedArgument, LazilyEvaluable

    op = inputs.get("operator", "__add__")
    calls = []

    class E:
        pass

    e = E()

    def opf(*a, **k):
        calls.append((a, k))
        return "R"

    setattr(E, op, lambda self, *a, **k: opf(*a, **k))
    me = DelayedArgument(("a",), lambda ctx: e, _internal=True)
    arg = DelayedArgument(("b",), lambda ctx: "ctx(arg0)", _internal=True)
    args = () if op == "__neg__" else (arg,)
    res = getattr(DelayedArgument, op)(me, *args)
    ctx = LazilyEvaluable.makeContext(a=1, b=2)
    val = res.evaluateIn(ctx)
    want = () if op == "__neg__" else ("ctx(arg0)",)
    if not _same(val, "R") or len(calls) != 1 or not _same(tuple(calls[0][0]), want) or set(res._requiredProperties) != ({"a"} | ({"b"} if args else set())):
        return f"delayed {op}: value {val!r}, calls {calls!r}, required properties {res._requiredProperties!r}"
    return None


def make_replay_delayed_call(is_method):
    def replay(inputs, clause):
        from scenic.core.lazy_eval import DelayedArgument, LazilyEvaluable, makeDelayedFunctionCall

        kwn = ["beta", "alpha"][: int(inputs.get("n_keywords", 0))]
        calls = []

        def fn(*a, **k):
            calls.append((a, k))
            return "R"

        a0 = DelayedArgument(("b",), lambda ctx: "ctx(arg0)", _internal=True)
        kws = {n: DelayedArgument(("c", n), (lambda n: lambda ctx: "ctx(kw:%s)" % n)(n), _internal=True) for n in kwn}
        if is_method:
            me = DelayedArgument(("a",), lambda ctx: fn, _internal=True)
            res = me(a0, "plain", **kws)
        else:
            res = makeDelayedFunctionCall(fn, (a0, "plain"), kws)
        props = {"b"} | ({"a"} if is_method else set()) | {p for n in kwn for p in ("c", n)}
        ctx = LazilyEvaluable.makeContext(**{p: 1 for p in props})
        val = res.evaluateIn(ctx)
        wantkw = {n: "ctx(kw:%s)" % n for n in kwn}
        if not _same(val, "R") or len(calls) != 1 or not _same(tuple(calls[0][0]), ("ctx(arg0)", "plain")) or not _same(calls[0][1], wantkw) or set(res._requiredProperties) != props:
            return f"delayed call: value {val!r}, calls {calls!r} (expected ('ctx(arg0)', 'plain'), {wantkw!r}), required properties {res._requiredProperties!r} (expected {sorted(props)!r})"
        return None

    return replay


def replay_tuple_sample(inputs, clause):
    import collections

    from scenic.core.distributions import Distribution, TupleDistribution
    from scenic.core.utils import DefaultIdentityDict

    class Key(Distribution):
        def __init__(self):
            super().__init__()

    n, b = int(inputs.get("n", 3)), int(inputs.get("builder", 0))
    keys = [Key() for _ in range(n)]
    m = DefaultIdentityDict()
    for i, k in enumerate(keys):
        m[k] = f"v{i}"
    P = collections.namedtuple("P", [f"f{i}" for i in range(n)])
    builder = [tuple, list, P._make][b]
    res = TupleDistribution(*keys, builder=builder).sampleGiven(m)
    want = builder(f"v{i}" for i in range(n))
    if type(res) is not type(want) or list(res) != list(want):
        return f"TupleDistribution.sampleGiven built {res!r}, expected {want!r}"
    return None


def make_replay_custom_support(mod, fn, sup):
    def replay(inputs, clause):
        import importlib

        from scenic.core.distributions import underlyingFunction

        m = importlib.import_module(mod)
        ivs = _ivs_from(inputs, "arg")
        pts = [inputs.get(f"x{i}") for i in range(len(ivs))]
        lo, hi = getattr(m, sup)(*ivs)
        if any(p is None for p in pts) or not all(_inside(p, *iv) for p, iv in zip(pts, ivs)):
            return None
        v = underlyingFunction(getattr(m, fn))(*[float(p) for p in pts])
        if (lo is not None and v < lo - 1e-9) or (hi is not None and v > hi + 1e-9):
            return f"{mod}.{sup}{tuple(ivs)} = ({lo}, {hi}) but {fn}{tuple(pts)} = {v}"
        return None

    return replay


def replay_evaluate_in(inputs, clause):
    from scenic.core.lazy_eval import DelayedArgument, LazilyEvaluable

    calls = []
    d = DelayedArgument(("a",), lambda ctx: (calls.append(ctx), "evaluated")[1], _internal=True)
    ctx = LazilyEvaluable.makeContext(a=1)
    r1 = d.evaluateIn(ctx)
    r2 = d.evaluateIn(ctx)
    if r1 != "evaluated" or r2 != "evaluated" or len(calls) != 1 or calls[0] is not ctx:
        return f"a delayed value evaluated twice in the same context ran its evaluation {len(calls)} times (results {r1!r}, {r2!r}); expected exactly one evaluation, cached"
    return None


def replay_value_in_context(inputs, clause):
    from scenic.core.lazy_eval import DelayedArgument, LazilyEvaluable, valueInContext

    ctx = LazilyEvaluable.makeContext(a=1)
    d = DelayedArgument(("a",), lambda c: "evaluated", _internal=True)
    if valueInContext(d, ctx) != "evaluated":
        return "valueInContext of a delayed argument is not its evaluation in the context"
    calls = []

    class Settled(LazilyEvaluable):
        def __init__(self):
            super().__init__(())

        def evaluateIn(self, context):
            calls.append(context)
            return "re-evaluated"

    s = Settled()
    for plain in (s, 3.5, "text", None):
        r = valueInContext(plain, ctx)
        if r is not plain:
            return f"valueInContext({plain!r}) returned {r!r}; a value that needs no lazy evaluation must be returned unchanged"
    return None


def replay_operator_init(inputs, clause):
    from scenic.core.distributions import Distribution, OperatorDistribution

    class Key(Distribution):
        def __init__(self):
            super().__init__()

    op = inputs.get("op", "__add__")
    npos = 0 if op == "__neg__" else (2 if op == "__call__" else 1)
    kwn = ["beta", "alpha"] if op == "__call__" else []
    obj, ops, kws = Key(), [Key() for _ in range(npos)], {n: Key() for n in kwn}
    node = OperatorDistribution(op, obj, list(ops), dict(kws), valueType=object)
    if node.operator != op or node.object is not obj or not _same(tuple(node.operands), tuple(ops)) or not _same(dict(node.kwoperands), kws):
        return f"OperatorDistribution({op!r}, ...) recorded operator={node.operator!r}, operands={node.operands!r}, kwoperands={node.kwoperands!r}"
    if node.reverse != REFLECTED.get(op):
        return f"OperatorDistribution({op!r}, ...).reverse = {node.reverse!r}; Python's reflected method of {op} is {REFLECTED.get(op)!r}"
    want = [obj] + ops + [kws[n] for n in kwn]
    if not _same(list(node._dependencies), want):
        return f"dependencies {node._dependencies!r}, expected object, operands, keyword operands in order"
    return None


# ------------------------------------------------------------------------------------------------
# (7) vector operator lifting (vectors.py): handlers, helpers, zero shortcuts, VectorOperatorDistribution

VEC = "scenic.core.vectors"
_cosf = z3.Function("cos", z3.RealSort(), z3.RealSort())
_sinf = z3.Function("sin", z3.RealSort(), z3.RealSort())


def sym_vector(eng, name, random=False, register=True):
    """A Vector with symbolic real coordinates (random=True: the first coordinate is a random value)."""
    from .common import make_vector

    cs = [eng.fresh_real(f"{name}.{a}") for a in "xyz"]
    if register:
        for a, c in zip("xyz", cs):
            eng.input_syms.append((f"{name}.{a}", C.Real(), c))
    if random:
        rc = PObj("RandomCoordinate", tag=f"{name}.x (random)")
        rc.fields.update(_isLazy=True, _needsSampling=True, _needsLazyEval=False, _dependencies=(), _requiredProperties=())
        v = make_vector(rc, cs[1], cs[2])
        v.fields.update(_needsSampling=True, _isLazy=True, _dependencies=(rc,))
    else:
        v = make_vector(*cs)
    v.tag = name
    return v, cs


def install_vector_model(reg):
    """Vector is a collections.abc.Sequence: iteration and len go through coordinates; numpy.ndarray is an (empty) type."""
    from pyvc.builtins_model import NativeModule
    from .common import make_vector

    vec_cls = repo_class(f"{VEC}:Vector")
    prev = reg.iterate_fallback

    def iterate_fb(I, v):
        if isinstance(v, PObj) and v.cls is vec_cls:
            return list(v.fields["coordinates"])
        if prev is not None:
            return prev(I, v)
        from pyvc.values import PyvcError

        raise PyvcError(f"iteration over {v!r} not modelled (line {I.lineno})")

    reg.iterate_fallback = iterate_fb

    class NdArray:  # no value of the model is a numpy array
        pass

    xm = getattr(reg, "extra_modules", None) or {}
    xm["numpy"] = NativeModule("numpy", {"ndarray": NdArray})
    reg.extra_modules = xm
    reg.constructors[f"{VEC}:Vector"] = lambda I, cls, args, kwargs: make_vector(*(list(args) + [0] * (3 - len(args))))
    reg.trust("vectors.Vector(x, y, z=0) at construction sites", "modelled as the record of its three coordinates (non-random); iteration/len of a Vector follow the Sequence protocol over `coordinates`")


def _vec_class_decorated(names):
    """Methods of vectors.Vector decorated with one of the given decorator names."""
    m = extract.get_module(VEC)
    cls = m.top.get("Vector")
    out = []
    for node in getattr(cls, "body", []):
        if isinstance(node, ast.FunctionDef):
            for d in node.decorator_list:
                if isinstance(d, ast.Name) and d.id in names:
                    out.append((node.name, d.id))
    return out


def register_vector_layer(reg):
    install_vector_model(reg)
    for cn in ("VectorOperatorDistribution", "VectorMethodDistribution"):
        reg.constructors[f"{VEC}:{cn}"] = record_ctor
    reg.constructors[f"{D}:MethodDistribution"] = record_ctor
    reg.constructors[f"{D}:FunctionDistribution"] = record_ctor
    vd_cls = repo_class(f"{VEC}:VectorDistribution")
    da_cls = repo_class(f"{L}:DelayedArgument")

    def random_vector_dist(tag):
        o = PObj(vd_cls, tag=tag)
        o.fields.update(_isLazy=True, _needsSampling=True, _needsLazyEval=False, _dependencies=(), _requiredProperties=())
        o.fields["_conditioned"] = o
        return o

    def lazy_value(tag, props=("p",)):
        o = PObj(da_cls, tag=tag)
        o.fields.update(_isLazy=True, _needsSampling=False, _needsLazyEval=True, _dependencies=(), _requiredProperties=tuple(props))
        return o

    def all_zero(cs):
        return sv_and(*[compare("==", c, 0) for c in cs])

    def is_node(res, cn):
        return isinstance(res, PObj) and getattr(res.cls, "name", None) == cn and "_ctor" in res.fields

    def same_seq(got, want):
        got = tuple(got) if isinstance(got, (tuple, list)) else tuple(getattr(got, "items", ()))
        return len(got) == len(want) and all(a is b for a, b in zip(got, want))

    # ---------------------------------------------------------------- makeVectorOperatorHandler
    def setup_mvh(I, env):
        eng = I.eng
        zi = eng.choose(2, "zeroIdentity?") == 1
        env.vars.update(op="__add__" if zi else "offsetRotated", zeroIdentity=zi)
        eng.input_syms.append(("zeroIdentity", C.Const(None), zi))

    def post_mvh(I, env, outcome):
        eng = I.eng
        name = "vectors.makeVectorOperatorHandler"
        if outcome[0] != "return" or not isinstance(outcome[1], FuncVal):
            eng.check(f"{name}#ensures.returns_a_handler", False)
            return
        zi, op = env.vars["zeroIdentity"], env.vars["op"]
        self = random_vector_dist("X")
        kind = eng.choose(5, "operand kind")
        eng.input_syms.append(("operand", C.Const(None), ["Vector", "tuple", "list", "random vector", "two operands"][kind]))
        cs = None
        if kind == 0:
            a0, cs = sym_vector(eng, "operand")
            args = [a0]
        elif kind in (1, 2):
            cs = [eng.fresh_real(f"operand.{a}") for a in "xyz"]
            for a, c in zip("xyz", cs):
                eng.input_syms.append((f"operand.{a}", C.Real(), c))
            args = [tuple(cs) if kind == 1 else PList(cs)]
        elif kind == 3:
            args = [random_vector_dist("operand")]
        else:
            if zi:
                return
            a0, cs0 = sym_vector(eng, "operand")
            args = [eng.fresh_real("angle"), a0]
        try:
            res = I.call_value(outcome[1], [self] + args)
        except SymRaise as sr:
            eng.check(f"{name}#ensures.handler_accepts_every_operand_the_plain_operator_accepts", False, detail=repr(sr.exc))
            return
        if res is self:
            ok = zi and cs is not None and len(args) == 1
            eng.check(f"{name}#ensures.shortcut_only_for_a_zero_identity_operator_and_a_known_operand", ok)
            if ok:
                eng.check(f"{name}#ensures.shortcut_only_when_the_operand_is_the_zero_vector", all_zero(cs))
            return
        ok = is_node(res, "VectorOperatorDistribution")
        eng.check(f"{name}#ensures.otherwise_builds_a_vector_operator_node", ok)
        if ok:
            c = res.fields["_ctor"]
            eng.check(f"{name}#ensures.node_is_the_operator_on_self_with_the_operands_in_order", c["operator"] == op and c["obj"] is self and same_seq(c["operands"], args))

    reg.add(C.Contract(f"{VEC}:makeVectorOperatorHandler", params=dict(op=C.Const(None), zeroIdentity=C.Const(None)), setup=setup_mvh, post=post_mvh, replay=replay_vector_handler, properties=("C05",)))

    # ---------------------------------------------------------------- vectorOperator.helper
    holder = {}

    def closure_vo(I):
        eng = I.eng
        flags = [(False, False), (True, False), (False, True)][eng.choose(3, "preservesZero / zeroIdentity")]
        calls = []
        R = PObj("MethodResult", tag="method(self, *args)")
        holder.update(flags=flags, calls=calls, R=R)
        holder["method"] = recorder(calls, "method", R)
        holder["helper"] = recorder(calls, "helper", PObj("HelperResult", tag="helper(self, *args in context)"))
        return dict(method=holder["method"], op="theOperator", preservesZero=flags[0], zeroIdentity=flags[1], helper=holder["helper"])

    def setup_vo(I, env):
        eng = I.eng
        reset_vic(I)
        self_random = eng.choose(2, "self random?") == 1
        self, scs = sym_vector(eng, "self", random=self_random)
        kind = eng.choose(5, "operand kind")
        names = ["Vector", "tuple", "random", "lazy", "scalar and Vector"]
        acs = None
        if kind == 0:
            a0, acs = sym_vector(eng, "operand")
            args = [a0]
        elif kind == 1:
            acs = [eng.fresh_real(f"operand.{a}") for a in "xyz"]
            for a, c in zip("xyz", acs):
                eng.input_syms.append((f"operand.{a}", C.Real(), c))
            args = [tuple(acs)]
        elif kind == 2:
            args = [random_vector_dist("operand")]
        elif kind == 3:
            args = [lazy_value("operand")]
        else:
            a1, _ = sym_vector(eng, "operand", register=False)
            args = [eng.fresh_real("angle"), a1]
        env.vars["self"] = self
        env.vars["args"] = tuple(args)
        env.vars.update(_self_random=self_random, _scs=scs, _acs=acs, _kind=kind, _args=args)
        eng.input_syms.append(("self_random", C.Const(None), self_random))
        eng.input_syms.append(("operand", C.Const(None), names[kind]))
        eng.input_syms.append(("preservesZero", C.Const(None), holder["flags"][0]))
        eng.input_syms.append(("zeroIdentity", C.Const(None), holder["flags"][1]))

    def post_vo(I, env, outcome):
        eng = I.eng
        name = "vectors.vectorOperator.helper"
        if outcome[0] != "return":
            return
        v = env.vars
        pz, zi = holder["flags"]
        self, args, res, kind = v["self"], v["_args"], outcome[1], v["_kind"]
        calls = holder["calls"]
        if res is self:
            by_self = pz and not v["_self_random"]
            by_arg = zi and kind in (0, 1)
            eng.check(f"{name}#ensures.shortcut_only_under_a_zero_rule_with_known_values", by_self or by_arg)
            if by_self or by_arg:
                goals = ([all_zero(v["_scs"])] if by_self else []) + ([all_zero(v["_acs"])] if by_arg else [])
                eng.check(f"{name}#ensures.shortcut_only_when_self_resp_the_operand_is_the_zero_vector", sv_or(*goals))
            eng.check(f"{name}#ensures.no_method_call_on_a_shortcut", len(calls) == 0)
            return
        if kind == 2:  # a random operand: a node standing for method(self, *args)
            if v["_self_random"]:
                ok = is_node(res, "VectorOperatorDistribution") and res.fields["_ctor"]["operator"] == "theOperator" and res.fields["_ctor"]["obj"] is self and same_seq(res.fields["_ctor"]["operands"], args)
            else:
                ok = is_node(res, "VectorMethodDistribution") and res.fields["_ctor"]["method"] is holder["method"] and res.fields["_ctor"]["obj"] is self and same_seq(res.fields["_ctor"]["args"], args) and len(res.fields["_ctor"]["kwargs"].keys) == 0
            eng.check(f"{name}#ensures.random_operand_builds_a_node_for_the_method_on_self_and_the_operands_in_order", ok)
            return
        if kind == 3:  # a lazily evaluated operand: the operation applied, in the context, to self and the context values
            ok = isinstance(res, PObj) and getattr(res.cls, "name", None) == "DelayedArgument" and isinstance(res.fields.get("value"), FuncVal)
            eng.check(f"{name}#ensures.lazy_operand_builds_a_delayed_argument", ok)
            if not ok:
                return
            ctx = PObj("Context", tag="context")
            del calls[:]
            try:
                val = I.call_value(res.fields["value"], [ctx])
            except SymRaise as sr:
                eng.check(f"{name}#ensures.delayed_evaluation_does_not_raise", False, detail=repr(sr.exc))
                return
            hc = [c for c in calls if c[0] == "helper"]
            want = [vic_of(I, a) for a in args]
            got = hc[0][1] if len(hc) == 1 else ()
            # self needs no lazy evaluation: passing it as it is or through valueInContext is the same value
            self_ok = len(got) == len(want) + 1 and (got[0] is self or (vic_of(I, self) is not None and got[0] is vic_of(I, self)))
            eng.check(f"{name}#ensures.delayed_evaluation_applies_the_operator_to_self_and_the_context_values_of_the_operands", len(hc) == 1 and self_ok and all(a is b for a, b in zip(got[1:], want)) and not hc[0][2])
            eng.check(f"{name}#ensures.delayed_argument_requires_the_operands'_properties", sorted(res.fields.get("_requiredProperties", ())) == ["p"])
            return
        # all operands known
        if v["_self_random"]:
            ok = is_node(res, "VectorOperatorDistribution") and res.fields["_ctor"]["operator"] == "theOperator" and res.fields["_ctor"]["obj"] is self and same_seq(res.fields["_ctor"]["operands"], args)
            eng.check(f"{name}#ensures.random_self_builds_a_node_for_the_operator_with_the_operands_in_order", ok)
        else:
            mc = [c for c in calls if c[0] == "method"]
            eng.check(f"{name}#ensures.known_values_call_the_method_once_on_self_and_the_operands", res is holder["R"] and len(mc) == 1 and same_seq(mc[0][1], [self] + args) and not mc[0][2])

    reg.add(
        C.Contract(
            f"{VEC}:vectorOperator.helper",
            params=dict(self=C.Const(None), args=C.Const(None)),
            closure_env=closure_vo,
            setup=setup_vo,
            post=post_vo,
            inline=["makeDelayedFunctionCall", "DelayedArgument.__init__", "LazilyEvaluable.__init__"],
            replay=replay_vector_operator_helper,
            properties=("C05",),
        )
    )

    # ---------------------------------------------------------------- scalarOperator.helper / vectorDistributionMethod.helper
    def make_method_helper(target, short, node_cls, receiver_may_be_random):
        h = {}

        def closure(I):
            calls = []
            h.update(calls=calls, R=PObj("MethodResult", tag="method(self, *args, **kwargs)"))
            h["method"] = recorder(calls, "method", h["R"])
            h["helper"] = recorder(calls, "helper", PObj("HelperResult", tag="helper in context"))
            return dict(method=h["method"], helper=h["helper"], op="theOperator")

        def setup(I, env):
            eng = I.eng
            reset_vic(I)
            self_random = receiver_may_be_random and eng.choose(2, "self random?") == 1
            if receiver_may_be_random:
                self, _ = sym_vector(eng, "self", random=self_random, register=False)
            else:
                self = PObj("VectorField", tag="the (fixed) receiver")
            kind = eng.choose(4, "argument kinds")
            names = ["known", "random positional", "random keyword", "lazy"]
            a0, _ = sym_vector(eng, "arg0", register=False)
            args = [a0, random_vector_dist("arg1") if kind == 1 else (lazy_value("arg1") if kind == 3 else eng.fresh_real("arg1"))]
            kw = random_vector_dist("kw") if kind == 2 else eng.fresh_real("kw")
            env.vars["self"] = self
            env.vars["args"] = tuple(args)
            env.vars["steps"] = kw
            env.vars.update(_self_random=self_random, _kind=kind, _args=args, _kw=kw)
            eng.input_syms.append(("self_random", C.Const(None), self_random))
            eng.input_syms.append(("arguments", C.Const(None), names[kind]))

        def post(I, env, outcome):
            eng = I.eng
            if outcome[0] != "return":
                return
            v = env.vars
            self, args, kw, kind, res = v["self"], v["_args"], v["_kw"], v["_kind"], outcome[1]
            calls = h["calls"]
            kw_ok = lambda d: isinstance(d, PDict) and list(d.keys) == ["steps"] and d.vals[0] is kw
            if v["_self_random"] and kind != 3:
                # the receiver itself is random: it must be among the sampled operands of the node (a MethodDistribution
                # keeps its object unsampled), and the method must not run on the random value
                ok = is_node(res, "FunctionDistribution") and res.fields["_ctor"]["func"] is h["method"] and same_seq(res.fields["_ctor"]["args"], [self] + args) and kw_ok(res.fields["_ctor"]["kwargs"])
                ok = ok or (is_node(res, "OperatorDistribution") if False else ok)
                eng.check(f"{short}#ensures.a_random_receiver_is_lifted_and_sampled_with_the_arguments", ok and len([c for c in calls if c[0] == "method"]) == 0)
                return
            if kind in (1, 2):
                ok = is_node(res, node_cls)
                eng.check(f"{short}#ensures.a_random_argument_builds_a_node_instead_of_calling_the_method", ok and len([c for c in calls if c[0] == "method"]) == 0)
                if ok:
                    c = res.fields["_ctor"]
                    eng.check(f"{short}#ensures.node_is_the_method_on_self_with_arguments_in_order_and_keywords_by_name", c["method"] is h["method"] and c["obj"] is self and same_seq(c["args"], args) and kw_ok(c["kwargs"]))
                return
            if kind == 3:
                if v["_self_random"]:
                    return
                ok = isinstance(res, PObj) and getattr(res.cls, "name", None) == "DelayedArgument" and isinstance(res.fields.get("value"), FuncVal)
                eng.check(f"{short}#ensures.a_lazily_evaluated_argument_builds_a_delayed_argument", ok and len([c for c in calls if c[0] == "method"]) == 0)
                if not ok:
                    return
                ctx = PObj("Context", tag="context")
                del calls[:]
                try:
                    I.call_value(res.fields["value"], [ctx])
                except SymRaise as sr:
                    eng.check(f"{short}#ensures.delayed_evaluation_does_not_raise", False, detail=repr(sr.exc))
                    return
                hc = [c for c in calls if c[0] == "helper"]
                want = [vic_of(I, self)] + [vic_of(I, a) for a in args]
                eng.check(f"{short}#ensures.delayed_evaluation_applies_the_helper_to_self_and_the_context_values", len(hc) == 1 and same_seq(hc[0][1], want) and list(hc[0][2]) == ["steps"] and hc[0][2]["steps"] is vic_of(I, kw))
                return
            mc = [c for c in calls if c[0] == "method"]
            eng.check(f"{short}#ensures.known_values_call_the_method_once_with_self_arguments_and_keywords", res is h["R"] and len(mc) == 1 and same_seq(mc[0][1], [self] + args) and list(mc[0][2]) == ["steps"] and mc[0][2]["steps"] is kw)

        reg.add(C.Contract(target, params=dict(self=C.Const(None), args=C.Const(None), steps=C.Const(None)), kwargs={"steps": None}, closure_env=closure, setup=setup, post=post, inline=["makeDelayedFunctionCall", "DelayedArgument.__init__", "LazilyEvaluable.__init__"], replay=make_replay_method_helper(short), properties=("C05",)))

    make_method_helper(f"{VEC}:scalarOperator.helper", "vectors.scalarOperator.helper", "MethodDistribution", True)
    make_method_helper(f"{VEC}:vectorDistributionMethod.helper", "vectors.vectorDistributionMethod.helper", "VectorMethodDistribution", False)

    # ---------------------------------------------------------------- zero shortcuts: the declared zero rules are identities of vector arithmetic
    for meth, deco in _vec_class_decorated({"zeroIdentityVectorOperator", "zeroPreservingVectorOperator"}):
        register_zero_rule_site(reg, meth, deco)

    # ---------------------------------------------------------------- VectorOperatorDistribution / VectorMethodDistribution
    def setup_vsg(I, env):
        eng = I.eng
        n = eng.choose(3, "number of operands")
        calls, R = [], PObj("Result", tag="result")
        first = PObj("SampledVector", tag="v(object)")
        first.fields["theOperator"] = recorder(calls, "operation", R)
        objk = PObj("RandomOperand", tag="object")
        ks = [PObj("RandomOperand", tag=f"operand{i}") for i in range(n)]
        vs = [PObj("SampledOperand", tag=f"v(operand{i})") for i in range(n)]
        env.vars["self"].fields.update(operator="theOperator", object=objk, operands=tuple(ks))
        env.vars["value"] = identity_map(I, [(objk, first)] + list(zip(ks, vs)))
        env.vars.update(_calls=calls, _R=R, _vs=vs)
        eng.input_syms.append(("n", C.Const(None), n))

    def post_vsg(I, env, outcome):
        eng = I.eng
        name = "vectors.VectorOperatorDistribution.sampleGiven"
        calls, vs = env.vars["_calls"], env.vars["_vs"]
        eng.check(f"{name}#ensures.operator_applied_once_to_the_sampled_object_with_the_sampled_operands_in_order", outcome[0] == "return" and outcome[1] is env.vars["_R"] and len(calls) == 1 and same_seq(calls[0][1], vs) and not calls[0][2])

    reg.add(C.Contract(f"{VEC}:VectorOperatorDistribution.sampleGiven", params=dict(self=C.Obj(f"{VEC}:VectorOperatorDistribution"), value=C.Const(None)), setup=setup_vsg, post=post_vsg, inline=["DefaultIdentityDict.__getitem__"], replay=replay_vector_node_sample, properties=("C05",)))

    def setup_vei(I, env):
        reset_vic(I)
        objk = PObj("LazyOperand", tag="object")
        ks = [PObj("LazyOperand", tag=f"operand{i}") for i in range(2)]
        env.vars["self"].fields.update(operator="theOperator", object=objk, operands=tuple(ks))
        env.vars["context"] = PObj("Context", tag="context")
        env.vars.update(_obj=objk, _ks=ks)

    def post_vei(I, env, outcome):
        eng = I.eng
        name = "vectors.VectorOperatorDistribution.evaluateInner"
        if outcome[0] != "return":
            return
        res = outcome[1]
        ok = is_node(res, "VectorOperatorDistribution")
        eng.check(f"{name}#ensures.builds_a_node_of_the_same_class", ok)
        if ok:
            c = res.fields["_ctor"]
            eng.check(f"{name}#ensures.same_operator_over_the_context_values_of_the_object_and_the_corresponding_operands", c["operator"] == "theOperator" and c["obj"] is vic_of(I, env.vars["_obj"]) and c["obj"] is not None and same_seq(c["operands"], [vic_of(I, k) for k in env.vars["_ks"]]) and all(ctx is env.vars["context"] for _, ctx in I.vic_log))

    reg.add(C.Contract(f"{VEC}:VectorOperatorDistribution.evaluateInner", params=dict(self=C.Obj(f"{VEC}:VectorOperatorDistribution"), context=C.Const(None)), setup=setup_vei, post=post_vei, replay=replay_vector_node_evaluate, properties=("C05",)))

    def setup_vmsg(I, env):
        calls, R = [], PObj("Result", tag="result")
        ks = [PObj("RandomOperand", tag=f"arg{i}") for i in range(2)]
        vs = [PObj("SampledOperand", tag=f"v(arg{i})") for i in range(2)]
        kk, kv = PObj("RandomOperand", tag="kw"), PObj("SampledOperand", tag="v(kw)")
        fixed = PObj("FixedObject", tag="the object")
        env.vars["self"].fields.update(method=recorder(calls, "method", R), object=fixed, arguments=tuple(ks), kwargs=PDict([("steps", kk)]))
        env.vars["value"] = identity_map(I, list(zip(ks, vs)) + [(kk, kv)])
        env.vars.update(_calls=calls, _R=R, _want=[fixed] + vs, _kv=kv)

    def post_vmsg(I, env, outcome):
        calls = env.vars["_calls"]
        I.eng.check("vectors.VectorMethodDistribution.sampleGiven#ensures.method_called_once_on_the_object_with_sampled_arguments_in_order_and_keywords_by_name", outcome[0] == "return" and outcome[1] is env.vars["_R"] and len(calls) == 1 and same_seq(calls[0][1], env.vars["_want"]) and list(calls[0][2]) == ["steps"] and calls[0][2]["steps"] is env.vars["_kv"])

    reg.add(C.Contract(f"{VEC}:VectorMethodDistribution.sampleGiven", params=dict(self=C.Obj(f"{VEC}:VectorMethodDistribution"), value=C.Const(None)), setup=setup_vmsg, post=post_vmsg, inline=["DefaultIdentityDict.__getitem__"], properties=("C05",)))


def register_zero_rule_site(reg, meth, deco):
    target = f"{VEC}:Vector.{meth}"
    short = f"vectors.Vector.{meth}"
    identity = deco == "zeroIdentityVectorOperator"

    def setup(I, env):
        eng = I.eng
        from .common import make_vector

        if identity:
            v, cs = sym_vector(eng, "v")
            form = eng.choose(2, "zero operand as a tuple?")
            env.vars["self"] = v
            env.vars["other"] = make_vector(0, 0, 0) if form == 0 else (0, 0, 0)
            env.vars["_want"] = cs
        else:
            ang = eng.fresh_real("angle")
            eng.input_syms.append(("angle", C.Real(), ang))
            env.vars["self"] = make_vector(0, 0, 0)
            env.vars["angleOrOrientation"] = ang
            env.vars["_want"] = [0, 0, 0]

    def post(I, env, outcome):
        eng = I.eng
        rule = "v_op_zero_vector_is_v" if identity else "op_of_the_zero_vector_is_the_zero_vector"
        ok = outcome[0] == "return" and isinstance(outcome[1], PObj) and "coordinates" in outcome[1].fields
        if not ok:
            eng.check(f"{short}#requires_of_{deco}.{rule}", False, detail=repr(outcome[1]))
            return
        got = outcome[1].fields["coordinates"]
        eng.check(f"{short}#requires_of_{deco}.{rule}", sv_and(*[compare("==", g, w) for g, w in zip(got, env.vars["_want"])]))

    params = dict(self=C.Const(None), other=C.Const(None)) if identity else dict(self=C.Const(None), angleOrOrientation=C.Const(None))
    env = {}
    if not identity:
        env = dict(cos=BuiltinFn("cos", lambda x: SV(_cosf(toz3(x, want_real=True)), True)), sin=BuiltinFn("sin", lambda x: SV(_sinf(toz3(x, want_real=True)), True)))
    reg.add(
        C.Contract(target, params=params, setup=setup, post=post, env=env, inline=["Vector.__getitem__", "Vector.x", "Vector.y", "Vector.z"], replay=make_replay_zero_rule(meth, identity), note="decoration site of a zero shortcut: the rule the shortcut relies on, on the method body itself" + ("" if identity else " (scalar angle; rotation by an Orientation fixes the origin: rotation-group axiom, C07)"), properties=("C05",)),
        key=f"{target}[zero-rule]",
    )


def _real_vec(inputs, name):
    from scenic.core.vectors import Vector

    return Vector(*[float(inputs.get(f"{name}.{a}", 0.0)) for a in "xyz"])


def replay_vector_handler(inputs, clause):
    """A real VectorOperatorDistribution combined with the model's operand through the real handlers."""
    from scenic.core.distributions import Range
    from scenic.core.vectors import Vector, VectorOperatorDistribution

    x = Vector(Range(0, 1), 2, 3) + Vector(1, 1, 1)  # a random vector (VectorOperatorDistribution)
    kind = inputs.get("operand")
    cs = [float(inputs.get(f"operand.{a}", 0.0)) for a in "xyz"]
    off = Vector(1, 0, 0)
    res = x.offsetRotated(0.5, off)
    if not (isinstance(res, VectorOperatorDistribution) and res.operator == "offsetRotated" and res.object is x and len(res.operands) == 2 and res.operands[0] == 0.5 and res.operands[1] is off):
        return f"X.offsetRotated(0.5, v) built {res!r} with operands {getattr(res, 'operands', None)!r}"
    operand = {"Vector": Vector(*cs), "tuple": tuple(cs), "list": list(cs)}.get(kind)
    if operand is None or not inputs.get("zeroIdentity"):
        return None
    for opname in ("__add__", "__sub__", "__radd__"):
        res = getattr(x, opname)(operand)  # an exception inside the repository is reported by the runner
        zero = all(c == 0 for c in cs)
        if res is x and not zero:
            return f"X.{opname}({operand!r}) was simplified to X although the operand is not the zero vector"
        if res is not x and not (isinstance(res, VectorOperatorDistribution) and res.operator == opname and res.object is x and len(res.operands) == 1 and res.operands[0] is operand):
            return f"X.{opname}({operand!r}) built {res!r}"
    return None


def replay_vector_operator_helper(inputs, clause):
    """Real Vector operators (helpers produced by vectorOperator) on known, random and lazily evaluated operands."""
    from scenic.core.distributions import Range
    from scenic.core.lazy_eval import DelayedArgument, LazilyEvaluable
    from scenic.core.vectors import Vector

    kind = inputs.get("operand")
    self_random = bool(inputs.get("self_random"))
    scs = [float(inputs.get(f"self.{a}", 0.0)) for a in "xyz"]
    v = Vector(Range(0, 1), scs[1], scs[2]) if self_random else Vector(*scs)
    if kind == "lazy":
        if self_random:
            return None
        other = Vector(10.0, 20.0, 30.0)
        d = DelayedArgument(("p",), lambda ctx: other, _internal=True)
        for opname, want in (("__add__", v + other), ("__sub__", v - other), ("__rsub__", other - v), ("cross", v.cross(other))):
            ctx = LazilyEvaluable.makeContext(p=1)  # a fresh context per operation (its cache is keyed by object identity)
            delayed = getattr(v, opname)(d)
            res = delayed.evaluateIn(ctx)  # an exception inside the repository is reported by the runner
            if tuple(res) != tuple(want):
                return f"Vector{tuple(v)}.{opname}(<lazy operand evaluating to {tuple(other)}>) evaluates to {res!r}; plain Python gives {want!r}"
        return None
    if kind == "random":
        from scenic.core.vectors import VectorMethodDistribution, VectorOperatorDistribution

        rv = Vector(Range(4, 4), 5.0, 6.0)
        res = v + rv
        want_cls = VectorOperatorDistribution if self_random else VectorMethodDistribution
        if type(res) is not want_cls or res.object is not v or (res.operands if self_random else res.arguments)[0] is not rv:
            return f"Vector + <random vector> built {type(res).__name__} over object {res.object!r}; expected {want_cls.__name__} over the receiver and the operand"
        if not self_random:
            got = tuple(res.sample())
            want = (scs[0] + 4, scs[1] + 5.0, scs[2] + 6.0)
            if any(abs(a - b) > 1e-9 for a, b in zip(got, want)):
                return f"Vector{tuple(scs)} + <random vector sampled as (4, 5, 6)> sampled as {got}, expected {want}"
        return None
    if kind in ("Vector", "tuple") and not self_random:
        cs = [float(inputs.get(f"operand.{a}", 0.0)) for a in "xyz"]
        operand = Vector(*cs) if kind == "Vector" else tuple(cs)
        for opname, f in (("__add__", lambda a, b: a + b), ("__sub__", lambda a, b: a - b)):
            res = getattr(v, opname)(operand)
            want = tuple(f(a, b) for a, b in zip(scs, cs))
            if tuple(res) != want:
                return f"Vector{tuple(scs)}.{opname}({operand!r}) = {tuple(res)}, expected {want}"
        if inputs.get("preservesZero"):
            ang = 0.7
            res = v.rotatedBy(ang)
            import math

            want = (math.cos(ang) * scs[0] - math.sin(ang) * scs[1], math.sin(ang) * scs[0] + math.cos(ang) * scs[1], scs[2])
            if any(abs(a - b) > 1e-9 for a, b in zip(tuple(res), want)):
                return f"Vector{tuple(scs)}.rotatedBy({ang}) = {tuple(res)}, expected {want}"
    return None


def make_replay_method_helper(short):
    def replay(inputs, clause):
        from scenic.core.distributions import Range, needsSampling
        from scenic.core.lazy_eval import DelayedArgument, LazilyEvaluable
        from scenic.core.vectors import Vector

        self_random = bool(inputs.get("self_random"))
        kind = inputs.get("arguments")
        if "scalarOperator" not in short:
            from scenic.core.vectors import VectorField

            vf = VectorField("field", lambda pos: 0.3)
            want = vf.followFrom(Vector(1, 2, 0), 2.0, steps=2)
            if kind == "lazy":
                d = DelayedArgument(("p",), lambda ctx: Vector(1, 2, 0), _internal=True)
                res = vf.followFrom(d, 2.0, steps=2).evaluateIn(LazilyEvaluable.makeContext(p=1))
            elif kind in ("random positional", "random keyword"):
                res = (vf.followFrom(Vector(Range(1, 1), 2, 0), 2.0, steps=2) if kind == "random positional" else vf.followFrom(Vector(1, 2, 0), 2.0, steps=Range(2, 2) * 1)).sample()
                if kind == "random keyword":
                    return None  # a random step count is not meaningful for the real method
            else:
                res = vf.followFrom(Vector(1, 2, 0), 2.0, steps=2)
            if any(abs(a - b) > 1e-9 for a, b in zip(tuple(res), tuple(want))):
                return f"VectorField.followFrom with a {kind} start evaluates to {tuple(res)}, plain Python gives {tuple(want)}"
            return None
        plain_self, plain_other = Vector(0.5, 2, 3), Vector(4, -1, 2)
        meths = ("distanceTo", "angleTo", "azimuthTo", "altitudeTo", "dot", "angleWith")
        if kind == "lazy":
            if self_random:
                return None
            d = DelayedArgument(("p",), lambda ctx: plain_other, _internal=True)
            for meth in meths:
                ctx = LazilyEvaluable.makeContext(p=1)
                delayed = getattr(plain_self, meth)(d)  # an exception inside the repository is reported by the runner
                res = delayed.evaluateIn(ctx) if hasattr(delayed, "evaluateIn") else delayed
                want = getattr(plain_self, meth)(plain_other)
                if not isinstance(res, (int, float)) or abs(res - want) > 1e-9:
                    return f"Vector.{meth}(<lazy operand evaluating to {tuple(plain_other)}>) evaluates to {res!r}; plain Python gives {want}"
            return None
        v = Vector(Range(0.5, 0.5), 2, 3) if self_random else plain_self
        other = Vector(Range(4, 4), -1, 2) if kind in ("random positional", "random keyword") else plain_other
        for meth in meths:
            # an exception inside the repository is reported by the runner
            res = getattr(v, meth)(other=other) if kind == "random keyword" else getattr(v, meth)(other)
            if self_random or kind in ("random positional", "random keyword"):
                if not needsSampling(res):
                    return f"Vector.{meth} of random values returned the non-random {res!r}"
                res = res.sample()
            want = getattr(plain_self, meth)(plain_other)
            if abs(res - want) > 1e-9:
                return f"Vector.{meth} = {res}, expected {want} (receiver random: {self_random}, operand: {kind})"
        return None

    return replay


def make_replay_zero_rule(meth, identity):
    def replay(inputs, clause):
        from scenic.core.distributions import underlyingFunction
        from scenic.core.vectors import Vector

        raw = underlyingFunction(getattr(Vector, meth))
        if identity:
            v = _real_vec(inputs, "v")
            for zero in (Vector(0, 0, 0), (0, 0, 0)):
                res = raw(v, zero)
                if tuple(res) != tuple(v):
                    return f"Vector.{meth} is declared to have the zero vector as identity, but {tuple(v)}.{meth}({zero!r}) = {tuple(res)}"
        else:
            ang = float(inputs.get("angle", 0.3))
            res = raw(Vector(0, 0, 0), ang)
            if any(c != 0 for c in res):
                return f"Vector.{meth} is declared to preserve the zero vector, but (0,0,0).{meth}({ang}) = {tuple(res)}"
        return None

    return replay


def replay_vector_node_sample(inputs, clause):
    from scenic.core.distributions import Distribution
    from scenic.core.utils import DefaultIdentityDict
    from scenic.core.vectors import VectorOperatorDistribution

    class Key(Distribution):
        def __init__(self):
            super().__init__()

    n = int(inputs.get("n", 2))
    calls = []

    class First:
        def theOperator(self, *a, **k):
            calls.append((a, k))
            return "R"

    objk, ks = Key(), [Key() for _ in range(n)]
    m = DefaultIdentityDict()
    m[objk] = First()
    for i, k in enumerate(ks):
        m[k] = f"v{i}"
    res = VectorOperatorDistribution("theOperator", objk, tuple(ks)).sampleGiven(m)
    want = tuple(f"v{i}" for i in range(n))
    if res != "R" or len(calls) != 1 or tuple(calls[0][0]) != want or calls[0][1]:
        return f"VectorOperatorDistribution.sampleGiven applied the operator as {calls!r} (result {res!r}); expected one call with {want!r}"
    return None


# ------------------------------------------------------------------------------------------------
# (8) dispatch of distributionFunction / distributionMethod, toDistribution, toLazyValue, TypecheckedDistribution,
#     Constructible._specify angle normalisation

TS = "scenic.core.type_support"
OT = "scenic.core.object_types"


def register_dispatch(reg):
    da_cls = repo_class(f"{L}:DelayedArgument")

    def rnd(tag):
        o = PObj("RandomValue", tag=tag)
        o.fields.update(_isLazy=True, _needsSampling=True, _needsLazyEval=False, _dependencies=(), _requiredProperties=())
        return o

    def lazy(tag, props=("p",)):
        o = PObj(da_cls, tag=tag)
        o.fields.update(_isLazy=True, _needsSampling=False, _needsLazyEval=True, _dependencies=(), _requiredProperties=tuple(props))
        return o

    def is_node(res, cn):
        return isinstance(res, PObj) and getattr(res.cls, "name", None) == cn and "_ctor" in res.fields

    def seq(x):
        return tuple(x) if isinstance(x, (tuple, list)) else tuple(getattr(x, "items", ()))

    def same_seq(got, want):
        got = seq(got)
        return len(got) == len(want) and all(a is b for a, b in zip(got, want))

    def delayed_ok(res):
        return isinstance(res, PObj) and getattr(res.cls, "name", None) == "DelayedArgument" and isinstance(res.fields.get("value"), FuncVal)

    KINDS = ["known", "random positional", "random keyword", "lazy positional", "tuple containing a random value"]

    def make_dispatch(target, short, is_method):
        h = {}

        def closure(I):
            calls = []
            h.update(calls=calls, R=PObj("Result", tag="wrapped(*args, **kwargs)"), support=PObj("SupportFn", tag="support"), vt=PObj("Type", tag="valueType"))
            h["wrapped"] = recorder(calls, "wrapped", h["R"])
            h["helper"] = recorder(calls, "helper", PObj("HelperResult", tag="helper in context"))
            if is_method:
                h["identity"] = PObj("Identity", tag="identity element") if I.eng.choose(2, "identity declared?") == 1 else None
                return dict(method=h["wrapped"], identity=h["identity"], helper=h["helper"])
            return dict(wrapped=h["wrapped"], support=h["support"], valueType=h["vt"], helper=h["helper"])

        def setup(I, env):
            eng = I.eng
            reset_vic(I)
            kind = eng.choose(len(KINDS), "argument kinds")
            a0 = PObj("Known", tag="arg0")
            a1 = {1: rnd("arg1"), 3: lazy("arg1")}.get(kind, eng.fresh_real("arg1"))
            inner = rnd("element")
            if kind == 4:
                a1 = (eng.fresh_real("elem0"), inner)
            kw = rnd("kw") if kind == 2 else eng.fresh_real("kw")
            args = [a0, a1]
            if is_method:
                me = PObj("Receiver", tag="self")
                if h["identity"] is not None and eng.choose(2, "self is the identity?") == 1:
                    me = h["identity"]
                env.vars["self"] = me
            env.vars["args"] = tuple(args)
            env.vars["key"] = kw
            env.vars.update(_kind=kind, _args=args, _kw=kw, _inner=inner)
            eng.input_syms.append(("arguments", C.Const(None), KINDS[kind]))

        def post(I, env, outcome):
            eng = I.eng
            if outcome[0] != "return":
                return
            v = env.vars
            kind, args, kw, res, calls = v["_kind"], v["_args"], v["_kw"], outcome[1], h["calls"]
            me = v.get("self") if is_method else None
            kw_ok = lambda d: isinstance(d, PDict) and list(d.keys) == ["key"] and d.vals[0] is kw
            if is_method and h["identity"] is not None and me is h["identity"]:
                # identity * x == x: only for the declared identity element, and the result is the (lifted) first argument
                eng.check(f"{short}#ensures.identity_receiver_returns_the_first_argument", (res is args[0]) and len(calls) == 0)
                return
            pre = [me] if is_method else []
            if kind in (1, 2, 4):
                cn = "MethodDistribution" if is_method else "FunctionDistribution"
                ok = is_node(res, cn)
                eng.check(f"{short}#ensures.a_random_argument_builds_a_node_instead_of_calling_the_function", ok and not [c for c in calls if c[0] == "wrapped"])
                if not ok:
                    return
                c = res.fields["_ctor"]
                got = seq(c["args"])
                fn_ok = (c["method"] is h["wrapped"] and c["obj"] is me) if is_method else (c["func"] is h["wrapped"])
                if kind == 4:
                    t = got[1] if len(got) == 2 else None
                    lifted = is_node(t, "TupleDistribution") and same_seq(t.fields["_ctor"]["coordinates"], list(args[1])) and t.fields["_ctor"]["builder"] is tuple
                    eng.check(f"{short}#ensures.a_container_with_a_random_element_is_lifted_in_place", fn_ok and len(got) == 2 and got[0] is args[0] and lifted and kw_ok(c["kwargs"]))
                else:
                    eng.check(f"{short}#ensures.node_holds_the_function_and_the_arguments_in_place_keywords_by_name", fn_ok and same_seq(got, args) and kw_ok(c["kwargs"]))
                if not is_method:
                    eng.check(f"{short}#ensures.support_function_and_value_type_passed_through", c["support"] is h["support"] and c["valueType"] is h["vt"])
                return
            if kind == 3:
                ok = delayed_ok(res)
                eng.check(f"{short}#ensures.a_lazily_evaluated_argument_builds_a_delayed_argument", ok and not [c for c in calls if c[0] == "wrapped"])
                if not ok:
                    return
                ctx = PObj("Context", tag="context")
                del calls[:]
                try:
                    I.call_value(res.fields["value"], [ctx])
                except SymRaise as sr:
                    eng.check(f"{short}#ensures.delayed_evaluation_does_not_raise", False, detail=repr(sr.exc))
                    return
                hc = [c for c in calls if c[0] == "helper"]
                got = hc[0][1] if len(hc) == 1 else ()
                want = [vic_of(I, a) for a in args]
                recv_ok = (not is_method) or (len(got) == 3 and (got[0] is me or got[0] is vic_of(I, me)))
                eng.check(f"{short}#ensures.delayed_evaluation_reapplies_the_helper_to_the_context_values_in_place", len(hc) == 1 and recv_ok and same_seq(got[len(pre):], want) and list(hc[0][2]) == ["key"] and hc[0][2]["key"] is vic_of(I, kw))
                return
            mc = [c for c in calls if c[0] == "wrapped"]
            eng.check(f"{short}#ensures.known_arguments_call_the_function_directly_once", res is h["R"] and len(mc) == 1 and same_seq(mc[0][1], pre + args) and list(mc[0][2]) == ["key"] and mc[0][2]["key"] is kw)

        params = dict(args=C.Const(None), key=C.Const(None))
        if is_method:
            params = dict(self=C.Const(None), **params)
        reg.add(C.Contract(target, params=params, kwargs={"key": None}, closure_env=closure, setup=setup, post=post, inline=["toDistribution", "makeDelayedFunctionCall", "DelayedArgument.__init__", "LazilyEvaluable.__init__"], replay=make_replay_dispatch(is_method), properties=("C05",)))

    make_dispatch(f"{D}:distributionFunction.helper", "distributions.distributionFunction.helper", False)
    make_dispatch(f"{D}:distributionMethod.helper", "distributions.distributionMethod.helper", True)

    # ---------------------------------------------------------------- toDistribution
    prev_ga = reg.getattr_fallback

    def getattr_fb(I, obj, name):
        if isinstance(obj, slice) and name in ("start", "stop", "step"):
            return getattr(obj, name)
        if obj is object and name == "__setattr__":
            return BuiltinFn("object.__setattr__", lambda o, n, val: I.set_attr(o, n, val))
        if prev_ga is not None:
            return prev_ga(I, obj, name)
        if obj is None or isinstance(obj, (SV, int, float, bool, Infinity)):
            I.raise_("AttributeError", name)
        from pyvc.values import PyvcError

        raise PyvcError(f"attribute {name!r} of {obj!r} not modelled (line {I.lineno})")

    reg.getattr_fallback = getattr_fb

    TD_KINDS = ["constant", "random value", "tuple of constants", "tuple with a random element", "list with a random element", "nested tuple with a random element", "slice of constants", "slice with a random bound"]

    def setup_td(I, env):
        eng = I.eng
        kind = eng.choose(len(TD_KINDS), "kind of value")
        r, c0, c1 = rnd("random element"), eng.fresh_real("c0"), PObj("Known", tag="c1")
        val = [c0, r, (c0, c1), (c0, r, c1), PList([r, c1]), (c1, (c0, r)), slice(c0, c1, None), slice(c0, r, None)][kind]
        env.vars.update(val=val, _kind=kind, _r=r, _c0=c0, _c1=c1)
        eng.input_syms.append(("kind", C.Const(None), TD_KINDS[kind]))

    def post_td(I, env, outcome):
        eng = I.eng
        name = "distributions.toDistribution"
        if outcome[0] != "return":
            return
        v = env.vars
        kind, val, res, r, c0, c1 = v["_kind"], v["val"], outcome[1], v["_r"], v["_c0"], v["_c1"]
        if kind in (0, 1, 2, 6):
            eng.check(f"{name}#ensures.values_without_random_parts_and_random_values_themselves_are_returned_unchanged", res is val)
        elif kind == 3:
            eng.check(f"{name}#ensures.a_tuple_with_a_random_element_becomes_a_tuple_distribution_over_the_same_elements_in_order", is_node(res, "TupleDistribution") and same_seq(res.fields["_ctor"]["coordinates"], [c0, r, c1]) and res.fields["_ctor"]["builder"] is tuple)
        elif kind == 4:
            eng.check(f"{name}#ensures.a_list_with_a_random_element_becomes_a_list_distribution_over_the_same_elements_in_order", is_node(res, "TupleDistribution") and same_seq(res.fields["_ctor"]["coordinates"], [r, c1]) and res.fields["_ctor"]["builder"] is list)
        elif kind == 5:
            ok = is_node(res, "TupleDistribution") and len(seq(res.fields["_ctor"]["coordinates"])) == 2 and seq(res.fields["_ctor"]["coordinates"])[0] is c1
            inner = seq(res.fields["_ctor"]["coordinates"])[1] if ok else None
            eng.check(f"{name}#ensures.nested_containers_are_lifted_recursively", ok and is_node(inner, "TupleDistribution") and same_seq(inner.fields["_ctor"]["coordinates"], [c0, r]))
        else:
            eng.check(f"{name}#ensures.a_slice_with_a_random_bound_becomes_a_slice_distribution_over_the_same_parts", is_node(res, "SliceDistribution") and res.fields["_ctor"]["start"] is c0 and res.fields["_ctor"]["stop"] is r and res.fields["_ctor"]["step"] is None)

    reg.add(C.Contract(f"{D}:toDistribution", params=dict(val=C.Const(None)), setup=setup_td, post=post_td, inline=["toDistribution"], replay=replay_to_distribution, properties=("C05",)), key=f"{D}:toDistribution[verify]")

    # ---------------------------------------------------------------- toLazyValue
    TL_KINDS = ["constant", "delayed argument", "tuple of constants", "tuple with a lazy element", "list with a lazy element"]

    def setup_tl(I, env):
        eng = I.eng
        reset_vic(I)
        kind = eng.choose(len(TL_KINDS), "kind of value")
        d, c0, c1 = lazy("lazy element", ("q", "p")), eng.fresh_real("c0"), PObj("Known", tag="c1")
        thing = [c1, d, (c0, c1), (c0, d, c1), PList([d, c1])][kind]
        env.vars.update(thing=thing, _kind=kind, _d=d, _c0=c0, _c1=c1)
        eng.input_syms.append(("kind", C.Const(None), TL_KINDS[kind]))

    def post_tl(I, env, outcome):
        eng = I.eng
        name = "lazy_eval.toLazyValue"
        if outcome[0] != "return":
            return
        v = env.vars
        kind, thing, res, d, c0, c1 = v["_kind"], v["thing"], outcome[1], v["_d"], v["_c0"], v["_c1"]
        if kind in (0, 1, 2):
            eng.check(f"{name}#ensures.values_without_lazy_parts_and_delayed_arguments_themselves_are_returned_unchanged", res is thing)
            return
        ok = delayed_ok(res)
        eng.check(f"{name}#ensures.a_container_with_a_lazy_element_becomes_a_delayed_argument", ok)
        if not ok:
            return
        eng.check(f"{name}#ensures.it_requires_the_properties_of_its_lazy_elements", sorted(res.fields.get("_requiredProperties", ())) == ["p", "q"])
        ctx = PObj("Context", tag="context")
        try:
            val = I.call_value(res.fields["value"], [ctx])
        except SymRaise as sr:
            eng.check(f"{name}#ensures.evaluation_does_not_raise", False, detail=repr(sr.exc))
            return
        elems = [c0, d, c1] if kind == 3 else [d, c1]
        want = [vic_of(I, e) for e in elems]
        got = list(val) if isinstance(val, (tuple, list)) else list(getattr(val, "items", []))
        eng.check(f"{name}#ensures.evaluates_to_the_same_container_type_over_the_context_values_in_order", (isinstance(val, tuple) if kind == 3 else isinstance(val, (list, PList))) and len(got) == len(want) and all(a is b for a, b in zip(got, want)) and all(c is ctx for _, c in I.vic_log))

    reg.add(C.Contract(f"{L}:toLazyValue", params=dict(thing=C.Const(None)), setup=setup_tl, post=post_tl, inline=["toLazyValue", "makeDelayedFunctionCall", "DelayedArgument.__init__", "LazilyEvaluable.__init__"], replay=replay_to_lazy_value, properties=("C05",), note="tuples and lists (dict values and namedtuples not modelled)"), key=f"{L}:toLazyValue[verify]")

    # ---------------------------------------------------------------- TypecheckedDistribution.sampleGiven
    vec_cls, ori_cls = repo_class(f"{VEC}:Vector"), repo_class(f"{VEC}:Orientation")
    fail_cls = repo_class(f"{TS}:CoercionFailure")

    def setup_tc(I, env):
        eng = I.eng
        mode = eng.choose(5, "mode")
        names = ["type check passes", "type check fails", "coercion succeeds", "coercion impossible for the sampled type", "coercer refuses the value"]
        from .common import make_vector

        val = make_vector(1, 2, 3)
        key = PObj("RandomOperand", tag="dist")
        calls, coerced = [], PObj("Coerced", tag="coercer(val)")
        self = env.vars["self"]
        loc = PObj("Location", tag="saved location")
        self.fields.update(_dist=key, _errorMessage="bad type", _loc=loc, _valueType=vec_cls, _targetType=vec_cls, _coercer=None)
        if mode in (0, 1):
            self.fields["_checkType"] = vec_cls if mode == 0 else ori_cls
        else:

            def coercer(x):
                calls.append(x)
                if mode == 4:
                    raise SymRaise(PExc(fail_cls, ("refused",)))
                return coerced

            self.fields["_coercer"] = BuiltinFn("coercer", coercer)
            reg.models[f"{TS}:canCoerceType"] = lambda I_, a, b: mode != 3
        env.vars["value"] = identity_map(I, [(key, val)])
        env.vars.update(_mode=mode, _val=val, _calls=calls, _coerced=coerced, _loc=loc)
        eng.input_syms.append(("mode", C.Const(None), names[mode]))

    def post_tc(I, env, outcome):
        eng = I.eng
        name = "type_support.TypecheckedDistribution.sampleGiven"
        v = env.vars
        mode = v["_mode"]
        if mode == 0:
            eng.check(f"{name}#ensures.a_value_of_the_declared_type_is_returned_unchanged", outcome[0] == "return" and outcome[1] is v["_val"])
        elif mode == 2:
            eng.check(f"{name}#ensures.a_coercible_value_is_returned_coerced", outcome[0] == "return" and outcome[1] is v["_coerced"] and len(v["_calls"]) == 1 and v["_calls"][0] is v["_val"])
        else:
            ok = outcome[0] == "raise" and exc_name(outcome[1]) == "TypeError"
            eng.check(f"{name}#raises.TypeError_when_the_sampled_value_cannot_be_given_the_declared_type", ok)
            if ok:
                eng.check(f"{name}#raises.TypeError_carries_the_location_of_the_expression", outcome[1].fields.get("_scenic_location") is v["_loc"])
            if mode == 3:
                eng.check(f"{name}#ensures.coercer_not_applied_to_a_value_of_an_uncoercible_type", len(v["_calls"]) == 0)

    reg.add(C.Contract(f"{TS}:TypecheckedDistribution.sampleGiven", params=dict(self=C.Obj(f"{TS}:TypecheckedDistribution"), value=C.Const(None)), setup=setup_tc, post=post_tc, raises=[C.Raises("TypeError", mode="may")], inline=["DefaultIdentityDict.__getitem__"], replay=replay_typechecked, properties=("C05",)))

    # ---------------------------------------------------------------- Constructible._specify: yaw / pitch / roll normalised
    _norm = z3.Function("normalizeAngle", z3.RealSort(), z3.RealSort())
    PROPS = ["yaw", "pitch", "roll", "width", "speed", "position", "someUserProperty"]

    def setup_sp(I, env):
        eng = I.eng
        log = []

        def normalize(I_, angle):
            log.append(angle)
            if isinstance(angle, PObj):
                o = PObj("NormalizedAngle", tag=f"normalizeAngle({angle.tag})")
                o.of = angle
                return o
            return SV(_norm(toz3(angle, want_real=True)), True)

        reg.models[f"{G}:normalizeAngle"] = normalize
        reg.models[f"{TS}:toScalar"] = lambda I_, x, msg=None: x
        reg.models[f"{TS}:toVector"] = lambda I_, x, msg=None: x
        prop = PROPS[eng.choose(len(PROPS), "property")]
        value = rnd("random value") if eng.choose(2, "value random?") == 1 else eng.fresh_real("value")
        ctx = PObj("Object", tag="context")
        env.vars.update(cls=repo_class(f"{OT}:Constructible"), context=ctx, prop=prop, value=value, _log=log)
        eng.input_syms.append(("prop", C.Const(None), prop))

    def post_sp(I, env, outcome):
        eng = I.eng
        name = "object_types.Constructible._specify"
        if outcome[0] != "return":
            return
        v = env.vars
        prop, value, got = v["prop"], v["value"], v["context"].fields.get(v["prop"])
        if prop in ("yaw", "pitch", "roll"):
            if isinstance(value, PObj):
                ok = isinstance(got, PObj) and getattr(got, "of", None) is value
            else:
                ok = isinstance(got, SV) and compare("==", got, SV(_norm(toz3(value, want_real=True)), True))
            eng.check(f"{name}#ensures.yaw_pitch_roll_are_stored_normalised", ok)
            eng.check(f"{name}#ensures.normalised_exactly_once", len(v["_log"]) == 1)
        else:
            eng.check(f"{name}#ensures.other_properties_are_stored_as_given", got is value and len(v["_log"]) == 0)

    reg.add(C.Contract(f"{OT}:Constructible._specify", params=dict(cls=C.Const(None), context=C.Const(None), prop=C.Const(None), value=C.Const(None)), setup=setup_sp, post=post_sp, replay=replay_specify, properties=("C05",), note="normalizeAngle is an abstract function here; that it returns the equivalent angle in [-pi, pi] is its own contract (contracts/relations.py, C08); toScalar/toVector are identity stubs (type coercion)"))
    reg.trust("type_support.toScalar / toVector / canCoerceType (inside _specify and TypecheckedDistribution)", "identity stubs resp. a chosen boolean: type coercion rules are not a carrier of C05")


def make_replay_dispatch(is_method):
    def replay(inputs, clause):
        import scenic.core.distributions as d
        from scenic.core.lazy_eval import DelayedArgument, LazilyEvaluable

        calls = []

        def f(*a, **k):
            calls.append((a, k))
            return "R"

        kind = inputs.get("arguments")

        class Recv:
            pass

        me = Recv()
        if is_method:
            h = d.distributionMethod(f)
            call = lambda *a, **k: h(me, *a, **k)
            pre = (me,)
        else:
            sup = lambda *a, **k: (0, 1)
            h = d.distributionFunction(f, support=sup, valueType=float)
            call = h
            pre = ()
        r = d.Range(0, 1)
        if is_method:
            ident = Recv()
            hi = d.distributionMethod(f, identity=ident)
            if hi(ident, "x", key=1) != "x" or calls:
                return f"identity receiver: the first argument was not returned unchanged (calls {calls!r})"
            if hi(me, "x", key=1) != "R" or calls != [((me, "x"), {"key": 1})]:
                return f"a receiver that is not the declared identity must be handled normally: calls {calls!r}"
            del calls[:]
        if kind == "known":
            res = call("a0", 2.0, key=3.0)
            if res != "R" or calls != [(pre + ("a0", 2.0), {"key": 3.0})]:
                return f"known arguments: result {res!r}, calls {calls!r}"
        elif kind in ("random positional", "random keyword", "tuple containing a random value"):
            a1 = r if kind == "random positional" else ((5.0, r) if kind.startswith("tuple") else 2.0)
            kw = r if kind == "random keyword" else 3.0
            res = call("a0", a1, key=kw)
            want_cls = d.MethodDistribution if is_method else d.FunctionDistribution
            if calls or type(res) is not want_cls:
                return f"{kind}: built {type(res).__name__}, function called {len(calls)} times"
            args = res.arguments
            if args[0] != "a0" or (kind == "random positional" and args[1] is not r) or res.kwargs.get("key") is not kw and res.kwargs.get("key") != kw:
                return f"{kind}: node arguments {args!r}, keywords {res.kwargs!r}"
            if kind.startswith("tuple") and not (isinstance(args[1], d.TupleDistribution) and args[1].coordinates[1] is r and args[1].builder is tuple):
                return f"a tuple with a random element was passed on as {args[1]!r}"
            if not is_method and (res.support is not sup or res._valueType is not float):
                return "support function / value type not passed through"
            if is_method and res.object is not me:
                return "receiver not recorded"
        elif kind == "lazy positional":
            da = DelayedArgument(("p",), lambda ctx: 7.0, _internal=True)
            res = call("a0", da, key=3.0)
            if calls or not isinstance(res, DelayedArgument):
                return f"lazy argument: built {type(res).__name__}, function called {len(calls)} times"
            val = res.evaluateIn(LazilyEvaluable.makeContext(p=1))
            if val != "R" or calls != [(pre + ("a0", 7.0), {"key": 3.0})]:
                return f"lazy argument: evaluation gave {val!r} with calls {calls!r}"
        return None

    return replay


def replay_to_distribution(inputs, clause):
    import scenic.core.distributions as d

    r, c = d.Range(0, 1), object()
    for val in (3, r, (1, c), slice(1, 2, None)):
        if d.toDistribution(val) is not val:
            return f"toDistribution({val!r}) is not the value itself"
    t = d.toDistribution((1, r, c))
    if not isinstance(t, d.TupleDistribution) or t.builder is not tuple or t.coordinates[0] != 1 or t.coordinates[1] is not r or t.coordinates[2] is not c:
        return f"toDistribution((1, random, c)) = {t!r}"
    t = d.toDistribution([r, c])
    if not isinstance(t, d.TupleDistribution) or t.builder is not list or t.coordinates[0] is not r or t.coordinates[1] is not c:
        return f"toDistribution([random, c]) = {t!r}"
    t = d.toDistribution((c, (1, r)))
    if not isinstance(t, d.TupleDistribution) or t.coordinates[0] is not c or not isinstance(t.coordinates[1], d.TupleDistribution) or t.coordinates[1].coordinates[1] is not r:
        return f"toDistribution((c, (1, random))) = {t!r}"
    s = d.toDistribution(slice(1, r, None))
    if not isinstance(s, d.SliceDistribution) or s.start != 1 or s.stop is not r or s.step is not None:
        return f"toDistribution(slice(1, random)) = {s!r}"
    return None


def replay_to_lazy_value(inputs, clause):
    from scenic.core.lazy_eval import DelayedArgument, LazilyEvaluable, toLazyValue

    da = DelayedArgument(("q", "p"), lambda ctx: "evaluated", _internal=True)
    c = object()
    for thing in (c, da, (1, c)):
        if toLazyValue(thing) is not thing:
            return f"toLazyValue({thing!r}) is not the value itself"
    for thing, want in (((1, da, c), (1, "evaluated", c)), ([da, c], ["evaluated", c])):
        res = toLazyValue(thing)
        if not isinstance(res, DelayedArgument) or set(res._requiredProperties) != {"p", "q"}:
            return f"toLazyValue({thing!r}) = {res!r}"
        val = res.evaluateIn(LazilyEvaluable.makeContext(p=1, q=2))
        if type(val) is not type(want) or list(val) != list(want):
            return f"toLazyValue({thing!r}) evaluates to {val!r}, expected {want!r}"
    return None


def replay_typechecked(inputs, clause):
    from scenic.core.distributions import Range
    from scenic.core.type_support import CoercionFailure, TypecheckedDistribution
    from scenic.core.utils import DefaultIdentityDict
    from scenic.core.vectors import Orientation, Vector

    key = Range(0, 1)
    m = DefaultIdentityDict()
    val = Vector(1, 2, 3)
    m[key] = val
    if TypecheckedDistribution(key, Vector, "bad").sampleGiven(m) is not val:
        return "a value of the declared type was not returned unchanged"
    try:
        TypecheckedDistribution(key, Orientation, "bad").sampleGiven(m)
        return "a Vector passed the type check for Orientation"
    except TypeError:
        pass
    m[key] = (1, 2)
    got = TypecheckedDistribution(key, Vector, "bad", coercer=Vector._coerce).sampleGiven(m)
    if not isinstance(got, Vector) or tuple(got) != (1, 2, 0):
        return f"the sampled tuple (1, 2) was coerced to {got!r}"
    for bad in ((1, 2, 3, 4), 5.0):
        m[key] = bad
        try:
            r = TypecheckedDistribution(key, Vector, "bad", coercer=Vector._coerce).sampleGiven(m)
            return f"the sampled value {bad!r} was accepted as a Vector: {r!r}"
        except TypeError:
            pass
    return None


def replay_specify(inputs, clause):
    import math
    import types

    from scenic.core.object_types import Constructible

    for prop in ("yaw", "pitch", "roll"):
        for ang in (0.3, 4.0, -7.5, 3 * math.pi):
            ctx = types.SimpleNamespace()
            Constructible._specify(ctx, prop, ang)
            got = getattr(ctx, prop)
            k = (ang - got) / math.tau
            if not (-math.pi - 1e-9 <= got <= math.pi + 1e-9) or abs(k - round(k)) > 1e-9:
                return f"_specify(..., {prop!r}, {ang}) stored {got}; expected the equivalent angle in [-pi, pi]"
    ctx = types.SimpleNamespace()
    Constructible._specify(ctx, "width", 4.0)
    if ctx.width != 4.0:
        return f"_specify(..., 'width', 4.0) stored {ctx.width!r}"
    return None


def replay_vector_node_evaluate(inputs, clause):
    from scenic.core.distributions import Range
    from scenic.core.lazy_eval import DelayedArgument, LazilyEvaluable
    from scenic.core.vectors import Vector, VectorOperatorDistribution

    obj = Vector(Range(0, 1), 2, 3)
    d0 = DelayedArgument(("p",), lambda ctx: "ctx(operand0)", _internal=True)
    d1 = DelayedArgument(("p",), lambda ctx: "ctx(operand1)", _internal=True)
    node = VectorOperatorDistribution("theOperator", obj, (d0, d1))
    res = node.evaluateInner(LazilyEvaluable.makeContext(p=1))
    if type(res) is not VectorOperatorDistribution or res.operator != "theOperator" or not _same(tuple(res.operands), ("ctx(operand0)", "ctx(operand1)")):
        return f"VectorOperatorDistribution.evaluateInner built operator {getattr(res, 'operator', None)!r} over operands {getattr(res, 'operands', None)!r}; expected the context values of the operands in order"
    return None
