"""Sidecar contracts for the lifting layer of scenic.core.distributions / lazy_eval / geometry (C05).

Oracles (all from the property statement, none from the code):
  * interval soundness: a reported bound (not None) is a bound of EVERY value `op(x, y)` the expression can take when
    the operands range over their own reported intervals; computing the interval never raises;
  * simplification shortcuts are identities of Python arithmetic on the value type;
  * sampling is a homomorphism: the Python operation applied to the sampled operands, in order, keyword names kept;
  * evaluateInner rebuilds the same operation over the context values of the *corresponding* operands.
Floats are reals (A1)."""
import ast

import z3

from pyvc import contracts as C
from pyvc import extract
from pyvc.interp import BuiltinFn, FuncVal, SymRaise
from pyvc.values import Infinity, PDict, PExc, PList, PObj, SV, compare, sv_and, sv_ite, sv_not, sv_or, tobool, toz3

from .common import repo_class
from .distributions import identity_map

D = "scenic.core.distributions"
L = "scenic.core.lazy_eval"
G = "scenic.core.geometry"

OPT_REAL = C.Opt(C.Real())


# ------------------------------------------------------------------------------------------------
# helpers


def _implies(h, c):
    return z3.Implies(tobool(h), tobool(c))


def _absv(x):
    return sv_ite(compare(">=", x, 0), x, 0 - x)


def _floor(q):
    return SV(z3.ToReal(z3.ToInt(toz3(q, want_real=True))), True)


def python_op(op, x, y=None):
    """(defined?, value) of the Python operation `x.<op>(y)` on real numbers (A1)."""
    if op in ("__add__", "__radd__"):
        return True, x + y
    if op == "__sub__":
        return True, x - y
    if op == "__rsub__":
        return True, y - x
    if op in ("__mul__", "__rmul__"):
        return True, x * y
    if op == "__truediv__":
        return compare("!=", y, 0), x / y
    if op == "__rtruediv__":
        return compare("!=", x, 0), y / x
    if op == "__floordiv__":
        return compare("!=", y, 0), _floor(x / y)
    if op == "__rfloordiv__":
        return compare("!=", x, 0), _floor(y / x)
    if op == "__mod__":
        return compare("!=", y, 0), x - y * _floor(x / y)
    if op == "__rmod__":
        return compare("!=", x, 0), y - x * _floor(y / x)
    if op == "__neg__":
        return True, 0 - x
    if op == "__pos__":
        return True, x
    if op == "__abs__":
        return True, _absv(x)
    return None, None  # no arithmetic meaning modelled (pow, getitem, call, round, len, divmod)


def make_interval(eng, name):
    """An operand's reported interval: each bound is None (unknown) or a real; forks over the 4 shapes."""
    form = eng.choose(4, f"{name} interval shape")
    lo = eng.fresh_real(f"{name}.lo") if form in (0, 1) else None
    hi = eng.fresh_real(f"{name}.hi") if form in (0, 2) else None
    if lo is not None and hi is not None:
        eng.assume(compare("<=", lo, hi))  # requires: an operand's interval is well formed (lo <= hi)
    eng.input_syms.append((f"{name}.lo", OPT_REAL, lo))
    eng.input_syms.append((f"{name}.hi", OPT_REAL, hi))
    return lo, hi


def point_in(eng, name, lo, hi):
    """A fresh value of an operand together with the hypothesis that it lies in the operand's interval."""
    x = eng.fresh_real(name)
    hyp = []
    if lo is not None:
        hyp.append(compare("<=", lo, x))
    if hi is not None:
        hyp.append(compare("<=", x, hi))
    eng.input_syms.append((name, C.Real(), x))
    return x, (sv_and(*hyp) if hyp else True)


def operand_stub(tag, lo, hi):
    """A random operand known only through supportInterval()."""
    o = PObj("RandomOperand", tag=tag)
    o.fields["supportInterval"] = BuiltinFn("supportInterval", lambda: (lo, hi))
    o.fields.update(_isLazy=True, _needsSampling=True, _needsLazyEval=False, _dependencies=(), _requiredProperties=())
    return o


def check_sound(eng, name, result, defined, value, hyp):
    """result = (l, r): every defined value under the hypothesis lies inside the non-None bounds."""
    ok = isinstance(result, tuple) and len(result) == 2
    eng.check(f"{name}#ensures.returns_a_pair", ok)
    if not ok:
        return
    lo, hi = result
    h = sv_and(hyp, defined)
    if lo is not None:
        eng.check(f"{name}#ensures.lower_bound_sound", _implies(h, compare("<=", lo, value)))
    if hi is not None:
        eng.check(f"{name}#ensures.upper_bound_sound", _implies(h, compare("<=", value, hi)))
    if lo is None and hi is None:
        eng.check(f"{name}#ensures.no_bound_claimed_is_sound", True)


def exc_name(exc):
    return getattr(exc.cls, "__name__", getattr(exc.cls, "name", str(exc.cls)))


BINARY_WITH_RULE = ["__add__", "__radd__", "__sub__", "__rsub__", "__mul__", "__rmul__", "__truediv__", "__rtruediv__"]
UNARY_WITH_RULE = ["__neg__", "__abs__"]
OTHER_OPS = ["__floordiv__", "__rfloordiv__", "__mod__", "__rmod__", "__pos__", "__pow__", "__rpow__", "__getitem__", "__call__", "__round__", "__len__", "__divmod__"]


def preload_real_package():
    """Replay drivers run in processes forked from the checker; importing the real package once in the parent saves
    the (slow) import in every replay.  Best effort: a tree that does not import is handled by the drivers."""
    import os

    if os.environ.get("PYVC_NO_PRELOAD"):
        return
    try:
        import scenic.core.distributions  # noqa: F401
        import scenic.core.geometry  # noqa: F401
        import scenic.core.scenarios  # noqa: F401
    except BaseException:
        pass


def register(reg):
    import numbers as _numbers

    preload_real_package()

    from pyvc.builtins_model import NativeModule

    # `numbers.Number` as the real ABC, so that issubclass(float, numbers.Number) has its Python meaning
    xm = getattr(reg, "extra_modules", None) or {}
    xm["numbers"] = NativeModule("numbers", {"Number": _numbers.Number, "Real": _numbers.Real})
    reg.extra_modules = xm

    def none_binop(I, sym, a, b):
        # Python: arithmetic on None is a TypeError
        if a is None or b is None:
            I.raise_("TypeError", f"unsupported operand type(s) for {sym}: NoneType")
        from pyvc.values import PyvcError

        raise PyvcError(f"binary operator {sym} on {a!r}, {b!r} not modelled (line {I.lineno})")

    reg.binop_fallback = none_binop
    register_support_interval(reg)
    register_handlers(reg)
    register_operator_node(reg)
    register_operator_init(reg)
    register_monotonic(reg)
    register_interval_helpers(reg)
    register_other_nodes(reg)
    register_lazy_layer(reg)


# ------------------------------------------------------------------------------------------------
# (1) OperatorDistribution.supportInterval


def register_support_interval(reg):
    OD = f"{D}:OperatorDistribution"

    def make(op):
        unary = op in UNARY_WITH_RULE or op in ("__pos__", "__round__", "__len__")
        name = f"distributions.OperatorDistribution.supportInterval[{op}]"

        def setup(I, env):
            eng = I.eng
            l1, r1 = make_interval(eng, "object")
            obj = operand_stub("object", l1, r1)
            self = env.vars["self"]
            env.vars["_iv1"] = (l1, r1)
            if unary:
                operands = ()
                env.vars["_iv2"] = None
            else:
                l2, r2 = make_interval(eng, "operand")
                operands = (operand_stub("operand", l2, r2),)
                env.vars["_iv2"] = (l2, r2)
            self.fields.update(operator=op, object=obj, operands=operands, kwoperands=PDict())
            eng.input_syms.append(("operator", C.Const(None), op))

        def post(I, env, outcome):
            eng = I.eng
            if outcome[0] != "return":
                return  # reported by the generic no-unexpected-exception obligation (totality)
            l1, r1 = env.vars["_iv1"]
            x, hx = point_in(eng, "x", l1, r1)
            if env.vars["_iv2"] is not None:
                l2, r2 = env.vars["_iv2"]
                y, hy = point_in(eng, "y", l2, r2)
            else:
                y, hy = None, True
            defined, value = python_op(op, x, y)
            if defined is None:
                res = outcome[1]
                eng.check(f"{name}#ensures.no_bound_claimed_for_an_operator_without_interval_semantics", isinstance(res, tuple) and len(res) == 2 and res[0] is None and res[1] is None)
                return
            check_sound(eng, name, outcome[1], defined, value, sv_and(hx, hy))

        reg.add(
            C.Contract(
                f"{OD}.supportInterval",
                params=dict(self=C.Obj(OD)),
                setup=setup,
                post=post,
                inline=["supportInterval"],
                replay=replay_operator_support,
                properties=("C05",),
            ),
            key=f"{OD}.supportInterval[{op}]",
        )

    for op in BINARY_WITH_RULE + UNARY_WITH_RULE + OTHER_OPS:
        make(op)


def _stub_dist(lo, hi):
    from scenic.core.distributions import Distribution

    class Operand(Distribution):
        def __init__(self):
            super().__init__(valueType=float)

        def supportInterval(self):
            return lo, hi

    return Operand()


def _same(a, b):
    """Equality that never calls == on a lazy/random value (their == builds a node or raises)."""
    if a is b:
        return True
    if getattr(a, "_isLazy", False) or getattr(b, "_isLazy", False):
        return False
    if isinstance(a, (tuple, list)) and isinstance(b, (tuple, list)):
        return type(a) is type(b) and len(a) == len(b) and all(_same(x, y) for x, y in zip(a, b))
    if isinstance(a, dict) and isinstance(b, dict):
        return list(a) == list(b) and all(_same(a[k], b[k]) for k in a)
    try:
        return bool(a == b)
    except Exception:
        return False


def _inside(x, lo, hi):
    return (lo is None or lo <= x) and (hi is None or x <= hi)


def _real_op(op, x, y):
    import operator as O

    table = {
        "__add__": lambda: x + y, "__radd__": lambda: y + x, "__sub__": lambda: x - y, "__rsub__": lambda: y - x,
        "__mul__": lambda: x * y, "__rmul__": lambda: y * x, "__truediv__": lambda: x / y, "__rtruediv__": lambda: y / x,
        "__floordiv__": lambda: x // y, "__rfloordiv__": lambda: y // x, "__mod__": lambda: x % y, "__rmod__": lambda: y % x,
        "__neg__": lambda: -x, "__pos__": lambda: +x, "__abs__": lambda: abs(x),
    }
    return table[op]() if op in table else None


def replay_operator_support(inputs, clause):
    """Real OperatorDistribution over operands whose supportInterval() is the model's; the value at the model's point."""
    from scenic.core.distributions import OperatorDistribution

    op = inputs["operator"]
    obj = _stub_dist(inputs.get("object.lo"), inputs.get("object.hi"))
    operands = ()
    if "operand.lo" in inputs:
        operands = (_stub_dist(inputs.get("operand.lo"), inputs.get("operand.hi")),)
    node = OperatorDistribution(op, obj, operands, {}, valueType=float)
    lo, hi = node.supportInterval()  # an exception here is reported by the runner (totality)
    x, y = inputs.get("x"), inputs.get("y")
    if x is None or not _inside(x, inputs.get("object.lo"), inputs.get("object.hi")):
        return None
    if y is not None and not _inside(y, inputs.get("operand.lo"), inputs.get("operand.hi")):
        return None
    try:
        v = _real_op(op, float(x), None if y is None else float(y))
    except ZeroDivisionError:
        return None
    if v is None:
        if lo is not None or hi is not None:
            return f"supportInterval of {op} claims ({lo}, {hi}) although no interval rule is specified for it"
        return None
    eps = 1e-9 * (1 + abs(v))
    if (lo is not None and v < lo - eps) or (hi is not None and v > hi + eps):
        return f"supportInterval() = ({lo}, {hi}) for {op} with operand intervals object=({inputs.get('object.lo')}, {inputs.get('object.hi')}) operand=({inputs.get('operand.lo')}, {inputs.get('operand.hi')}), but x={x}, y={y} gives the value {v}"
    return None


# ------------------------------------------------------------------------------------------------
# (2) makeOperatorHandler: every shortcut is an identity of Python arithmetic; otherwise the node is `self op arg`

_powfn = z3.Function("python_pow", z3.RealSort(), z3.RealSort(), z3.RealSort())


def python_op_ext(op, x, y):
    """python_op extended with the two facts about ** that the shortcuts may rely on (x**1 == x, x**0 == 1)."""
    if op in ("__pow__", "__rpow__"):
        base, ex = (x, y) if op == "__pow__" else (y, x)
        zb, ze = toz3(base, want_real=True), toz3(ex, want_real=True)
        return True, SV(z3.If(ze == 1, zb, z3.If(ze == 0, z3.RealVal(1), _powfn(zb, ze))), True)
    return python_op(op, x, y)


ALL_HANDLER_OPS = ["__neg__", "__pos__", "__abs__", "__round__", "__getitem__", "__len__"] + [
    "__add__", "__radd__", "__sub__", "__rsub__", "__mul__", "__rmul__", "__truediv__", "__rtruediv__", "__floordiv__",
    "__rfloordiv__", "__mod__", "__rmod__", "__divmod__", "__rdivmod__", "__pow__", "__rpow__",
]


def node_ctor(I, cls, args, kwargs):
    """OperatorDistribution(operator, obj, operands, kwoperands, valueType=None) as a record of its arguments."""
    names = ["operator", "object", "operands", "kwoperands", "valueType"]
    b = dict(zip(names, args))
    b.update(kwargs)
    o = PObj(cls)
    kw = b.get("kwoperands")
    kwd = PDict(list(zip(kw.keys, kw.vals))) if isinstance(kw, PDict) else PDict(list((kw or {}).items()))
    ops = tuple(I.iterate(b.get("operands", ())))
    o.fields.update(operator=b.get("operator"), object=b.get("object"), operands=ops, kwoperands=kwd, _valueType=b.get("valueType"))
    o.fields.update(_isLazy=True, _needsSampling=True, _needsLazyEval=False, _requiredProperties=(), _dependencies=(b.get("object"),) + ops + tuple(kwd.vals))
    o.fields["_conditioned"] = o
    return o


def register_handlers(reg):
    reg.constructors[f"{D}:OperatorDistribution"] = node_ctor
    reg.trust("OperatorDistribution.__init__ (at construction sites inside other carriers)", "modelled as a record of (operator, object, operands, kwoperands, valueType); the real initialiser has its own contract OperatorDistribution.__init__")
    ori_cls = repo_class("scenic.core.vectors:Orientation")
    identity = PObj(ori_cls, tag="globalOrientation")
    reg.global_overrides["scenic.core.vectors:globalOrientation"] = identity
    reg.trust("vectors.globalOrientation", "an opaque token for the identity orientation (q * identity == q is a rotation-group axiom, C07)")
    name = "distributions.makeOperatorHandler"

    def setup(I, env):
        eng = I.eng
        op = ALL_HANDLER_OPS[eng.choose(len(ALL_HANDLER_OPS), "operator")]
        env.vars["op"] = op
        env.vars["ty"] = None
        eng.input_syms.append(("operator", C.Const(None), op))

    def post(I, env, outcome):
        eng = I.eng
        if outcome[0] != "return":
            return
        handler, op = outcome[1], env.vars["op"]
        eng.check(f"{name}#ensures.returns_a_handler", isinstance(handler, FuncVal))
        if not isinstance(handler, FuncVal):
            return
        vt_k = eng.choose(3, "value type")
        vt = (float, int, ori_cls)[vt_k]
        eng.input_syms.append(("valueType", C.Const(None), ("float", "int", "Orientation")[vt_k]))
        self = PObj(repo_class(f"{D}:Distribution"), tag="X")
        self.fields.update(_valueType=vt, _isLazy=True, _needsSampling=True, _needsLazyEval=False, _dependencies=(), _requiredProperties=())
        self.fields["_conditioned"] = self
        unary = op in ("__neg__", "__pos__", "__abs__", "__len__")
        if unary:
            args = []
        elif vt is ori_cls:
            args = [identity if eng.choose(2, "arg is the identity orientation?") == 0 else eng.fresh_real("c")]
        else:
            kind = eng.choose(2, "constant kind")
            c = eng.fresh_real("c") if kind == 0 else eng.fresh_int("c")
            eng.input_syms.append(("c", C.Real() if kind == 0 else C.Int(), c))
            args = [c]
        try:
            res = I.call_value(handler, [self] + args)
        except SymRaise as sr:
            eng.check(f"{name}#ensures.handler_does_not_raise", False, detail=repr(sr.exc))
            return
        if res is self:
            # a shortcut was taken: it must be an identity of Python arithmetic on the value type
            if vt is ori_cls:
                eng.check(f"{name}#ensures.orientation_shortcut_only_for_multiplication_by_the_identity", op in ("__mul__", "__rmul__") and args[0] is identity)
                return
            x = eng.fresh_real("x") if vt is float else eng.fresh_int("x")
            eng.input_syms.append(("x", C.Real() if vt is float else C.Int(), x))
            if unary:
                defined, value = python_op_ext(op, x, None)
            else:
                defined, value = python_op_ext(op, x, args[0])
            if defined is None:
                eng.check(f"{name}#ensures.no_shortcut_for_an_operator_without_arithmetic_meaning", False)
                return
            eng.check(f"{name}#ensures.shortcut_is_an_identity_of_python_arithmetic", _implies(defined, compare("==", value, x)))
            eng.check(f"{name}#ensures.shortcut_operation_is_defined", defined)
            return
        ok = isinstance(res, PObj) and getattr(res.cls, "name", None) == "OperatorDistribution"
        eng.check(f"{name}#ensures.otherwise_builds_an_operator_node", ok)
        if not ok:
            return
        f = res.fields
        eng.check(f"{name}#ensures.node_has_the_operator", f["operator"] == op)
        eng.check(f"{name}#ensures.node_object_is_self", f["object"] is self)
        same = len(f["operands"]) == len(args) and all((a is b) for a, b in zip(f["operands"], args))
        eng.check(f"{name}#ensures.node_operands_are_the_arguments_in_order", same)
        eng.check(f"{name}#ensures.node_has_no_keyword_operands", len(f["kwoperands"].keys) == 0)

    reg.add(
        C.Contract(
            f"{D}:makeOperatorHandler",
            params=dict(op=C.Const(None), ty=C.Const(None)),
            setup=setup,
            post=post,
            replay=replay_handler,
            properties=("C05",),
        )
    )


def replay_handler(inputs, clause):
    from scenic.core.distributions import Distribution

    op, vt = inputs.get("operator"), inputs.get("valueType")
    if vt not in ("float", "int") or "c" not in inputs:
        return None
    ty = float if vt == "float" else int

    class Leaf(Distribution):
        def __init__(self):
            super().__init__(valueType=ty)

    d = Leaf()
    c = inputs["c"]
    res = getattr(d, op)(c)
    if res is not d:
        ok = getattr(res, "operator", None) == op and getattr(res, "object", None) is d and _same(tuple(getattr(res, "operands", ())), (c,)) and not getattr(res, "kwoperands", None)
        return None if ok else f"X.{op}({c!r}) built the node operator={getattr(res, 'operator', None)!r} object-is-X={getattr(res, 'object', None) is d} operands={getattr(res, 'operands', None)!r}; expected operator {op!r} over (X; {c!r})"
    if "x" not in inputs:
        return None
    x = ty(inputs["x"]) if vt == "int" else float(inputs["x"])
    try:
        v = _real_op(op, x, c) if op not in ("__pow__", "__rpow__") else (x**c if op == "__pow__" else c**x)
    except ZeroDivisionError:
        return f"X.{op}({c!r}) is simplified to X although the operation is undefined for X = {x!r}"
    if v != x:
        sym = {"__floordiv__": "//", "__truediv__": "/", "__pow__": "**", "__add__": "+", "__radd__": "+", "__sub__": "-", "__mul__": "*", "__rmul__": "*"}.get(op, op)
        return f"X {sym} {c!r} is simplified to X (the very same node), but for the sample X = {x!r} Python gives {v!r}"
    return None


# ------------------------------------------------------------------------------------------------
# (3) OperatorDistribution.sampleGiven / evaluateInner / __init__: homomorphism

REVERSE_OF = {"__add__": "__radd__", "__rsub__": "__sub__", "__mul__": "__rmul__", "__rtruediv__": "__truediv__", "__pow__": "__rpow__"}
SYMBOL_OF = {"__add__": "+", "__rsub__": "-", "__mul__": "*", "__rtruediv__": "/", "__pow__": "**"}


def install_value_in_context(reg):
    """valueInContext at call sites inside other carriers: an abstract, logged evaluation (its own contract is below)."""

    def vic(I, value, context):
        memo = I.__dict__.setdefault("vic_memo", {})
        I.__dict__.setdefault("vic_log", []).append((value, context))
        if id(value) not in memo:
            memo[id(value)] = (value, PObj("ValueInContext", tag=f"ctx({getattr(value, 'tag', value)})"))
        return memo[id(value)][1]

    reg.models[f"{L}:valueInContext"] = vic
    reg.trust("lazy_eval.valueInContext (at call sites inside evaluateInner carriers)", "abstract logged function of (value, context); the real function has its own contract")


def reset_vic(I):
    I.vic_memo, I.vic_log = {}, []


def vic_of(I, value):
    m = I.vic_memo.get(id(value))
    return None if m is None else m[1]


def register_operator_node(reg):
    install_value_in_context(reg)
    OD = f"{D}:OperatorDistribution"

    # ---------------------------------------------------------------- sampleGiven
    SHAPES = ["__add__", "__rsub__", "__mul__", "__getitem__", "__call__", "method_with_keywords"]

    def setup_sg(I, env):
        eng = I.eng
        shape = SHAPES[eng.choose(len(SHAPES), "operator shape")]
        op = "__call__" if shape == "method_with_keywords" else shape
        npos = 2 if shape == "method_with_keywords" else (0 if shape == "__call__" and False else 1)
        kwnames = ["beta", "alpha"] if shape == "method_with_keywords" else []
        reversible = op in REVERSE_OF
        calls = []
        R, R2 = PObj("Result", tag="forward result"), PObj("Result", tag="reverse result")
        fwd_ni = reversible and eng.choose(2, "forward returns NotImplemented?") == 1
        rev_ni = fwd_ni and eng.choose(2, "reverse returns NotImplemented?") == 1
        first = PObj("SampledObject", tag="v(object)")

        def forward(*a, **k):
            calls.append(("forward", a, k))
            return NotImplemented if fwd_ni else R

        first.fields[op] = BuiltinFn(op, forward)
        keys = [PObj("RandomOperand", tag=f"operand{i}") for i in range(npos)]
        vals = [PObj("SampledOperand", tag=f"v(operand{i})") for i in range(npos)]
        if reversible:

            def reverse(*a, **k):
                calls.append(("reverse", a, k))
                return NotImplemented if rev_ni else R2

            vals[0].fields[REVERSE_OF[op]] = BuiltinFn(REVERSE_OF[op], reverse)
        kwkeys = [PObj("RandomOperand", tag=f"kw:{n}") for n in kwnames]
        kwvals = [PObj("SampledOperand", tag=f"v(kw:{n})") for n in kwnames]
        objk = PObj("RandomOperand", tag="object")
        self = env.vars["self"]
        self.fields.update(operator=op, object=objk, operands=tuple(keys), kwoperands=PDict(list(zip(kwnames, kwkeys))), symbol=SYMBOL_OF.get(op), reverse=REVERSE_OF.get(op))
        env.vars["value"] = identity_map(I, [(objk, first)] + list(zip(keys, vals)) + list(zip(kwkeys, kwvals)))
        env.vars.update(_calls=calls, _R=R, _R2=R2, _fwd_ni=fwd_ni, _rev_ni=rev_ni, _first=first, _vals=vals, _kw=list(zip(kwnames, kwvals)), _reversible=reversible)
        eng.input_syms.append(("shape", C.Const(None), shape))
        eng.input_syms.append(("forward_not_implemented", C.Const(None), fwd_ni))
        eng.input_syms.append(("reverse_not_implemented", C.Const(None), rev_ni))

    def post_sg(I, env, outcome):
        eng = I.eng
        name = "distributions.OperatorDistribution.sampleGiven"
        v = env.vars
        calls, vals, kw = v["_calls"], v["_vals"], v["_kw"]
        fw = [c for c in calls if c[0] == "forward"]
        rv = [c for c in calls if c[0] == "reverse"]
        eng.check(f"{name}#ensures.operation_applied_exactly_once_to_the_sampled_object", len(fw) == 1 and calls[0][0] == "forward")
        if len(fw) == 1:
            a, k = fw[0][1], fw[0][2]
            eng.check(f"{name}#ensures.positional_operands_are_the_sampled_operands_in_order", len(a) == len(vals) and all(x is y for x, y in zip(a, vals)))
            eng.check(f"{name}#ensures.keyword_operands_keep_their_names", sorted(k) == sorted(n for n, _ in kw) and all(k.get(n) is val for n, val in kw))
        if not v["_fwd_ni"]:
            eng.check(f"{name}#ensures.result_is_what_the_operation_returned", outcome[0] == "return" and outcome[1] is v["_R"])
            eng.check(f"{name}#ensures.no_reverse_call_unless_NotImplemented", len(rv) == 0)
            return
        ok = len(rv) == 1 and len(rv[0][1]) == 1 and rv[0][1][0] is v["_first"] and not rv[0][2]
        eng.check(f"{name}#ensures.reflected_operation_called_on_the_operand_with_the_object", ok)
        if v["_rev_ni"]:
            eng.check(f"{name}#raises.TypeError_when_both_operations_return_NotImplemented", outcome[0] == "raise" and exc_name(outcome[1]) == "TypeError")
        else:
            eng.check(f"{name}#ensures.result_is_what_the_reflected_operation_returned", outcome[0] == "return" and outcome[1] is v["_R2"])

    reg.add(
        C.Contract(
            f"{OD}.sampleGiven",
            params=dict(self=C.Obj(OD), value=C.Const(None)),
            setup=setup_sg,
            post=post_sg,
            raises=[C.Raises("TypeError", mode="may")],
            inline=["DefaultIdentityDict.__getitem__"],
            replay=replay_operator_sample,
            properties=("C05",),
        )
    )

    # ---------------------------------------------------------------- evaluateInner
    def setup_ei(I, env):
        eng = I.eng
        reset_vic(I)
        npos = eng.choose(3, "number of positional operands")
        nkw = eng.choose(3, "number of keyword operands")
        kwnames = ["beta", "alpha"][:nkw]
        self = env.vars["self"]
        objk = PObj("LazyOperand", tag="object")
        keys = [PObj("LazyOperand", tag=f"operand{i}") for i in range(npos)]
        kwkeys = [PObj("LazyOperand", tag=f"kw:{n}") for n in kwnames]
        self.fields.update(operator="__call__", object=objk, operands=tuple(keys), kwoperands=PDict(list(zip(kwnames, kwkeys))), symbol=None, reverse=None)
        ctx = PObj("Context", tag="context")
        env.vars["context"] = ctx
        env.vars.update(_obj=objk, _keys=keys, _kw=list(zip(kwnames, kwkeys)), _ctx=ctx)
        eng.input_syms.append(("positional", C.Const(None), npos))
        eng.input_syms.append(("n_keywords", C.Const(None), nkw))

    def post_ei(I, env, outcome):
        eng = I.eng
        name = "distributions.OperatorDistribution.evaluateInner"
        if outcome[0] != "return":
            return
        v = env.vars
        res = outcome[1]
        ok = isinstance(res, PObj) and getattr(res.cls, "name", None) == "OperatorDistribution"
        eng.check(f"{name}#ensures.builds_an_operator_node", ok)
        if not ok:
            return
        f = res.fields
        eng.check(f"{name}#ensures.same_operator", f["operator"] == "__call__")
        eng.check(f"{name}#ensures.object_is_the_context_value_of_the_object", f["object"] is vic_of(I, v["_obj"]) and f["object"] is not None)
        eng.check(f"{name}#ensures.operands_are_the_context_values_of_the_corresponding_operands", len(f["operands"]) == len(v["_keys"]) and all(a is vic_of(I, k) for a, k in zip(f["operands"], v["_keys"])))
        kws = f["kwoperands"]
        eng.check(f"{name}#ensures.keyword_names_preserved_in_order", list(kws.keys) == [n for n, _ in v["_kw"]])
        eng.check(f"{name}#ensures.keyword_operands_are_the_context_values_of_the_corresponding_operands", len(kws.vals) == len(v["_kw"]) and all(a is vic_of(I, k) for a, (_, k) in zip(kws.vals, v["_kw"])))
        eng.check(f"{name}#ensures.everything_evaluated_in_the_given_context", all(c is v["_ctx"] for _, c in I.vic_log))

    reg.add(
        C.Contract(
            f"{OD}.evaluateInner",
            params=dict(self=C.Obj(OD), context=C.Const(None)),
            setup=setup_ei,
            post=post_ei,
            replay=replay_operator_evaluate,
            properties=("C05",),
        )
    )


def replay_operator_sample(inputs, clause):
    """Real OperatorDistribution.sampleGiven on recording operands."""
    from scenic.core.distributions import OperatorDistribution
    from scenic.core.utils import DefaultIdentityDict

    shape = inputs.get("shape")
    op = "__call__" if shape == "method_with_keywords" else shape
    fwd_ni, rev_ni = bool(inputs.get("forward_not_implemented")), bool(inputs.get("reverse_not_implemented"))
    calls = []

    class Rec:
        def __init__(self, tag):
            self.tag = tag

        def __repr__(self):
            return self.tag

    first = Rec("v(object)")
    npos = 2 if shape == "method_with_keywords" else 1
    kwn = ["beta", "alpha"] if shape == "method_with_keywords" else []
    vals = [Rec(f"v(operand{i})") for i in range(npos)]
    kwv = {n: Rec(f"v(kw:{n})") for n in kwn}

    def fwd(*a, **k):
        calls.append(("forward", a, k))
        return NotImplemented if fwd_ni else "R"

    def rev(*a, **k):
        calls.append(("reverse", a, k))
        return NotImplemented if rev_ni else "R2"

    setattr(first, op, fwd)
    if op in REVERSE_OF:
        setattr(vals[0], REVERSE_OF[op], rev)

    class Leaf:
        pass

    from scenic.core.distributions import Distribution

    class Key(Distribution):
        def __init__(self):
            super().__init__()

    objk, keys, kwk = Key(), [Key() for _ in vals], {n: Key() for n in kwn}
    node = OperatorDistribution(op, objk, tuple(keys), dict(kwk), valueType=object)
    m = DefaultIdentityDict()
    m[objk] = first
    for k, v in zip(keys, vals):
        m[k] = v
    for n in kwn:
        m[kwk[n]] = kwv[n]
    try:
        res = node.sampleGiven(m)
    except TypeError as e:
        if fwd_ni and rev_ni:
            return None
        return f"sampleGiven raised TypeError: {e}"
    fw = [c for c in calls if c[0] == "forward"]
    if len(fw) != 1 or not _same(list(fw[0][1]), vals) or not _same(fw[0][2], kwv):
        return f"{op} was applied as {calls!r}; expected one call with positional {vals!r} and keywords {kwv!r}"
    rv = [c for c in calls if c[0] == "reverse"]
    if fwd_ni and (len(rv) != 1 or not _same(tuple(rv[0][1]), (first,)) or rv[0][2]):
        return f"after NotImplemented the reflected operation was called as {rv!r}; expected one call {REVERSE_OF.get(op)}(v(object)) on v(operand0)"
    if not fwd_ni and rv:
        return f"reflected operation called although the operation returned a result: {rv!r}"
    want = "R" if not fwd_ni else ("R2" if not rev_ni else None)
    if not _same(res, want):
        return f"sampleGiven returned {res!r}, expected {want!r} (calls {calls!r})"
    return None


def replay_operator_evaluate(inputs, clause):
    """Real evaluateInner of a node with lazily evaluated positional and keyword operands."""
    from scenic.core.distributions import Distribution, OperatorDistribution
    from scenic.core.lazy_eval import DelayedArgument, LazilyEvaluable

    npos, kwnames = int(inputs.get("positional", 0)), ["beta", "alpha"][: int(inputs.get("n_keywords", 0))]

    class Leaf(Distribution):
        def __init__(self):
            super().__init__()

    def lazy(tag):
        return DelayedArgument(("p",), lambda ctx: ("ctx", tag), _internal=True)

    obj = Leaf()
    ops = tuple(lazy(f"operand{i}") for i in range(npos))
    kws = {n: lazy(f"kw:{n}") for n in kwnames}
    node = OperatorDistribution("__call__", obj, ops, kws, valueType=object)
    ctx = LazilyEvaluable.makeContext(p=1)
    res = node.evaluateInner(ctx)  # an exception inside the repository is reported by the runner
    want_ops = tuple(("ctx", f"operand{i}") for i in range(npos))
    want_kw = {n: ("ctx", f"kw:{n}") for n in kwnames}
    if not _same(tuple(res.operands), want_ops) or not _same(dict(res.kwoperands), want_kw) or list(res.kwoperands) != kwnames:
        return f"evaluateInner built operands {res.operands!r} / keywords {res.kwoperands!r}; expected {want_ops!r} / {want_kw!r}"
    return None


# ------------------------------------------------------------------------------------------------
# (3b) OperatorDistribution.__init__: the node records the operation faithfully

REFLECTED = {}
for _o in ["add", "sub", "mul", "truediv", "floordiv", "mod", "divmod", "pow"]:
    REFLECTED[f"__{_o}__"] = f"__r{_o}__"
    REFLECTED[f"__r{_o}__"] = f"__{_o}__"


def register_operator_init(reg):
    from .common import install_distribution_stubs
    from pyvc.values import Opaque

    install_distribution_stubs(reg)
    reg.models["scenic.core.type_support:underlyingType"] = lambda I, thing: Opaque("underlyingType")
    reg.models[f"{D}:OperatorDistribution.inferType"] = lambda I, *a, **k: Opaque("inferredType")
    reg.models[f"{D}:AttributeDistribution.inferType"] = lambda I, *a, **k: Opaque("inferredType")
    reg.trust("type_support.underlyingType / *.inferType", "stubs returning an unknown type: type inference is not a carrier of C05")
    OD = f"{D}:OperatorDistribution"
    OPS = ["__add__", "__radd__", "__rsub__", "__floordiv__", "__rpow__", "__neg__", "__getitem__", "__call__"]

    def setup(I, env):
        eng = I.eng
        op = OPS[eng.choose(len(OPS), "operator")]
        npos = 0 if op == "__neg__" else (2 if op == "__call__" else 1)
        kwn = ["beta", "alpha"] if op == "__call__" else []
        obj = operand_stub("object", None, None)
        ops = [operand_stub(f"operand{i}", None, None) for i in range(npos)]
        kws = [operand_stub(f"kw:{n}", None, None) for n in kwn]
        as_list = eng.choose(2, "operands given as a list?") == 1
        env.vars.update(operator=op, obj=obj, operands=PList(ops) if as_list else tuple(ops), kwoperands=PDict(list(zip(kwn, kws))), valueType=None)
        env.vars.update(_ops=ops, _kw=list(zip(kwn, kws)))
        eng.input_syms.append(("op", C.Const(None), op))

    def post(I, env, outcome):
        eng = I.eng
        name = "distributions.OperatorDistribution.__init__"
        if outcome[0] != "return":
            return
        v, f = env.vars, env.vars["self"].fields
        op = v["operator"]
        eng.check(f"{name}#ensures.operator_recorded", f.get("operator") == op)
        eng.check(f"{name}#ensures.object_recorded", f.get("object") is v["obj"])
        got = f.get("operands")
        eng.check(f"{name}#ensures.operands_recorded_in_order", isinstance(got, tuple) and len(got) == len(v["_ops"]) and all(a is b for a, b in zip(got, v["_ops"])))
        kw = f.get("kwoperands")
        eng.check(f"{name}#ensures.keyword_operands_recorded_with_their_names", isinstance(kw, PDict) and list(kw.keys) == [n for n, _ in v["_kw"]] and all(a is b for a, (_, b) in zip(kw.vals, v["_kw"])))
        eng.check(f"{name}#ensures.reflected_operator_is_the_python_reflection", f.get("reverse") == REFLECTED.get(op))
        eng.check(f"{name}#ensures.symbol_only_for_reversible_operators", (f.get("symbol") is not None) == (op in REFLECTED))
        deps = f.get("_dependencies")
        want = [v["obj"]] + v["_ops"] + [b for _, b in v["_kw"]]
        eng.check(f"{name}#ensures.dependencies_are_object_then_operands_then_keyword_operands", isinstance(deps, tuple) and len(deps) == len(want) and all(a is b for a, b in zip(deps, want)))

    reg.add(
        C.Contract(
            f"{OD}.__init__",
            params=dict(self=C.Obj(OD), operator=C.Const(None), obj=C.Const(None), operands=C.Const(None), kwoperands=C.Const(None), valueType=C.Const(None)),
            setup=setup,
            post=post,
            inline=["toDistribution"],
            replay=replay_operator_init,
            properties=("C05",),
        )
    )


# ------------------------------------------------------------------------------------------------
# (4) monotonicDistributionFunction.support (keyword arm included) and the monotonicity precondition at every
#     decoration site found in the tree; custom support functions of distributionFunction(support=...)

_mono = z3.Function("monotone_method", z3.RealSort(), z3.RealSort(), z3.RealSort(), z3.RealSort())


def register_monotonic(reg):
    name = "distributions.monotonicDistributionFunction.support"

    def closure_env(I):
        def method(*args, **kwargs):
            vals = list(args) + [kwargs[k] for k in sorted(kwargs)]
            if any(v is None for v in vals):
                I.raise_("TypeError", "the wrapped function does not accept None")
            if len(vals) != 3:
                I.raise_("TypeError", "wrong number of arguments")
            return SV(_mono(*[toz3(v, want_real=True) for v in vals]), True)

        return dict(method=BuiltinFn("method", method))

    def setup(I, env):
        eng = I.eng
        a1, a2, b1, b2, c1, c2 = z3.Reals("a1!m a2!m b1!m b2!m c1!m c2!m")
        # requires: `method` is non-decreasing in every argument
        eng.assume(z3.ForAll([a1, a2, b1, b2, c1, c2], z3.Implies(z3.And(a1 <= a2, b1 <= b2, c1 <= c2), _mono(a1, b1, c1) <= _mono(a2, b2, c2)), patterns=[z3.MultiPattern(_mono(a1, b1, c1), _mono(a2, b2, c2))]))
        ivs = [make_interval(eng, n) for n in ("arg0", "arg1", "kw")]
        env.vars["subsupports"] = (ivs[0], ivs[1])
        env.vars["k"] = ivs[2]
        env.vars["_ivs"] = ivs

    def post(I, env, outcome):
        eng = I.eng
        if outcome[0] != "return":
            return
        pts, hyps = [], []
        for n, (lo, hi) in zip(("x0", "x1", "xk"), env.vars["_ivs"]):
            x, h = point_in(eng, n, lo, hi)
            pts.append(x)
            hyps.append(h)
        value = SV(_mono(*[toz3(p, want_real=True) for p in pts]), True)
        check_sound(eng, name, outcome[1], True, value, sv_and(*hyps))
        res = outcome[1]
        if isinstance(res, tuple) and len(res) == 2:
            ivs = env.vars["_ivs"]
            eng.check(f"{name}#ensures.lower_bound_known_when_all_lower_bounds_known", (res[0] is not None) or any(lo is None for lo, _ in ivs))
            eng.check(f"{name}#ensures.upper_bound_known_when_all_upper_bounds_known", (res[1] is not None) or any(hi is None for _, hi in ivs))

    reg.add(
        C.Contract(
            f"{D}:monotonicDistributionFunction.support",
            params=dict(subsupports=C.Const(None), k=C.Const(None)),
            kwargs={"k": None},
            closure_env=closure_env,
            setup=setup,
            post=post,
            replay=replay_monotonic_support,
            note="two positional arguments and one keyword argument (symbolic intervals, each bound possibly unknown); "
            "precondition: method is non-decreasing in every argument (discharged at the decoration sites)",
            bounded=True,
            properties=("C05",),
        )
    )

    # ---- decoration sites
    for mod, fn in find_decorated("monotonicDistributionFunction"):
        register_monotone_site(reg, mod, fn)
    for mod, fn, sup in find_custom_supports():
        register_custom_support_site(reg, mod, fn, sup)


_mention_cache = {}


def _scenic_modules_mentioning(word):
    import os

    key = (extract.SRC, word)
    if key in _mention_cache:
        return _mention_cache[key]
    out = _mention_cache[key] = []
    root = os.path.join(extract.SRC, "scenic")
    for dp, dn, fns in os.walk(root):
        for fn in fns:
            if fn.endswith(".py"):
                p = os.path.join(dp, fn)
                try:
                    with open(p, encoding="utf-8") as fh:
                        if word not in fh.read():
                            continue
                except OSError:
                    continue
                rel = os.path.relpath(p, extract.SRC)[:-3].replace(os.sep, ".")
                if rel.endswith(".__init__"):
                    rel = rel[: -len(".__init__")]
                out.append(rel)
    out.sort()
    return out


def find_decorated(deco):
    """Module-level functions decorated with @<deco> (bare name or call) anywhere under src/scenic."""
    out = []
    for mod in _scenic_modules_mentioning("@" + deco):
        m = extract.get_module(mod)
        for node in m.tree.body:
            if isinstance(node, ast.FunctionDef):
                for d in node.decorator_list:
                    f = d.func if isinstance(d, ast.Call) else d
                    if isinstance(f, ast.Name) and f.id == deco:
                        out.append((mod, node.name))
    return out


def find_custom_supports():
    """Module-level functions decorated with @distributionFunction(support=<module-level name>)."""
    out = []
    for mod in _scenic_modules_mentioning("@distributionFunction(support="):
        m = extract.get_module(mod)
        for node in m.tree.body:
            if isinstance(node, ast.FunctionDef):
                for d in node.decorator_list:
                    if isinstance(d, ast.Call) and isinstance(d.func, ast.Name) and d.func.id == "distributionFunction":
                        for kw in d.keywords:
                            if kw.arg == "support" and isinstance(kw.value, ast.Name) and isinstance(m.top.get(kw.value.id), ast.FunctionDef):
                                out.append((mod, node.name, kw.value.id))
    return out


def _python_builtins(I):
    return PDict([("max", I.builtins["max"]), ("min", I.builtins["min"]), ("abs", I.builtins["abs"])])


def register_monotone_site(reg, mod, fn):
    target = f"{mod}:{fn}"
    short = f"{mod.split('.')[-1]}.{fn}"
    N = 2
    holder = {}

    def setup(I, env):
        eng = I.eng
        holder["c"].env["__builtins__"] = _python_builtins(I)
        xs = [eng.fresh_real(f"x{i}") for i in range(N)]
        ys = [eng.fresh_real(f"y{i}") for i in range(N)]
        for i in range(N):
            eng.assume(compare("<=", xs[i], ys[i]))
            eng.input_syms.append((f"x{i}", C.Real(), xs[i]))
            eng.input_syms.append((f"y{i}", C.Real(), ys[i]))
        env.vars["args"] = tuple(xs)
        env.vars["_ys"] = ys

    def post(I, env, outcome):
        eng = I.eng
        if outcome[0] != "return":
            return
        ex = extract.extract(target)
        f = FuncVal(ex.node, ex.module, None, target, None)
        try:
            r2 = I.run_function(f, list(env.vars["_ys"]), {}, holder["c"])
        except SymRaise as sr:
            eng.check(f"{short}#requires_of_monotonicDistributionFunction.total_on_reals", False, detail=repr(sr.exc))
            return
        eng.check(f"{short}#requires_of_monotonicDistributionFunction.non_decreasing_in_every_argument", compare("<=", outcome[1], r2))

    c = C.Contract(
        target,
        params=dict(args=C.Const(None)),
        setup=setup,
        post=post,
        replay=make_replay_monotone_site(mod, fn),
        note="decoration site of @monotonicDistributionFunction: called with 2 real arguments x <= y componentwise",
        bounded=True,
        properties=("C05",),
    )
    holder["c"] = c
    reg.add(c, key=f"{target}[monotone]")


def make_replay_monotone_site(mod, fn):
    def replay(inputs, clause):
        import importlib

        from scenic.core.distributions import FunctionDistribution, Range, supportInterval, underlyingFunction

        f = getattr(importlib.import_module(mod), fn)
        raw = underlyingFunction(f)
        xs = [float(inputs[f"x{i}"]) for i in range(2)]
        ys = [float(inputs[f"y{i}"]) for i in range(2)]
        if not all(x <= y for x, y in zip(xs, ys)):
            return None
        a, b = raw(*xs), raw(*ys)
        if a > b + 1e-12:
            lo_hi = None
            try:
                # the consequence for supports: an interval whose ends are (x_i, y_i)
                d = f(*[Range(x, y) if x < y else x for x, y in zip(xs, ys)])
                lo_hi = supportInterval(d)
            except Exception:
                pass
            return f"{mod}.{fn} is declared monotonic, but {fn}{tuple(xs)} = {a} > {fn}{tuple(ys)} = {b} although {xs} <= {ys} componentwise; supportInterval({fn}(Range(x_i, y_i)...)) = {lo_hi}"
        return None

    return replay


def register_custom_support_site(reg, mod, fn, sup):
    target = f"{mod}:{sup}"
    short = f"{mod.split('.')[-1]}.{sup}"
    N = 2
    holder = {}

    def setup(I, env):
        eng = I.eng
        holder["c"].env["__builtins__"] = _python_builtins(I)
        ivs = [make_interval(eng, f"arg{i}") for i in range(N)]
        env.vars["subsupports"] = tuple(ivs)
        env.vars["_ivs"] = ivs

    def post(I, env, outcome):
        eng = I.eng
        if outcome[0] != "return":
            return
        pts, hyps = [], []
        for i, (lo, hi) in enumerate(env.vars["_ivs"]):
            x, h = point_in(eng, f"x{i}", lo, hi)
            pts.append(x)
            hyps.append(h)
        ex = extract.extract(f"{mod}:{fn}")
        f = FuncVal(ex.node, ex.module, None, f"{mod}:{fn}", None)
        try:
            value = I.run_function(f, pts, {}, holder["c"])
        except SymRaise:
            return
        check_sound(eng, f"{short}[support of {fn}]", outcome[1], True, value, sv_and(*hyps))

    ex = extract.extract(target)
    params = dict(subsupports=C.Const(None)) if ex.node.args.vararg is not None and ex.node.args.vararg.arg == "subsupports" else None
    if params is None:
        return  # unknown calling convention: listed as not reached
    c = C.Contract(target, params=params, setup=setup, post=post, replay=make_replay_custom_support(mod, fn, sup), note=f"custom support function of {fn}: 2 arguments", bounded=True, properties=("C05",))
    holder["c"] = c
    reg.add(c, key=f"{target}[support of {fn}]")


def replay_monotonic_support(inputs, clause):
    """Real monotonicDistributionFunction around a monotone function of two positional and one keyword argument."""
    from scenic.core.distributions import monotonicDistributionFunction

    def f(a, b, k=0.0):
        return a + b + k

    h = monotonicDistributionFunction(f)
    ivs = [(inputs.get(f"{n}.lo"), inputs.get(f"{n}.hi")) for n in ("arg0", "arg1", "kw")]
    d = h(_stub_dist(*ivs[0]), _stub_dist(*ivs[1]), k=_stub_dist(*ivs[2]))
    lo, hi = d.supportInterval()
    pts = [inputs.get(n) for n in ("x0", "x1", "xk")]
    if any(p is None for p in pts):
        # no point in the model (a totality obligation): take the interval ends
        pts = [iv[0] if iv[0] is not None else (iv[1] if iv[1] is not None else 0.0) for iv in ivs]
    v = f(float(pts[0]), float(pts[1]), k=float(pts[2]))
    if not all(_inside(p, *iv) for p, iv in zip(pts, ivs)):
        v = None
    if v is not None and ((lo is not None and v < lo - 1e-9) or (hi is not None and v > hi + 1e-9)):
        return f"support of a monotone f(a, b, k=) over intervals {ivs} is reported as ({lo}, {hi}) but f{tuple(pts)} = {v}"
    if lo is None and all(iv[0] is not None for iv in ivs):
        return f"lower bound unknown although every lower bound is known: {ivs}"
    if hi is None and all(iv[1] is not None for iv in ivs):
        return f"upper bound unknown although every upper bound is known: {ivs}"
    return None


# ------------------------------------------------------------------------------------------------
# (5) interval helpers, primitive supports, findMinMax


def opt_real(eng, name):
    v = eng.fresh_real(name) if eng.choose(2, f"{name} known?") == 0 else None
    eng.input_syms.append((name, OPT_REAL, v))
    return v


def register_interval_helpers(reg):
    # ---------------------------------------------------------------- supmin / supmax
    for fn, cmpop in (("supmin", "<="), ("supmax", ">=")):

        def make(fn=fn, cmpop=cmpop):
            name = f"distributions.{fn}"

            def setup(I, env):
                eng = I.eng
                n = 1 + eng.choose(3, "number of values")
                env.vars["vals"] = tuple(opt_real(eng, f"v{i}") for i in range(n))

            def post(I, env, outcome):
                eng = I.eng
                if outcome[0] != "return":
                    return
                vals, res = env.vars["vals"], outcome[1]
                if res is not None:
                    eng.check(f"{name}#ensures.bounds_every_value", all(v is not None for v in vals) and sv_and(*[compare(cmpop, res, v) for v in vals if v is not None]))
                    eng.check(f"{name}#ensures.is_one_of_the_values", sv_or(*[compare("==", res, v) for v in vals if v is not None]))
                eng.check(f"{name}#ensures.unknown_exactly_when_some_value_is_unknown", (res is None) == any(v is None for v in vals))

            reg.add(C.Contract(f"{D}:{fn}", params=dict(vals=C.Const(None)), setup=setup, post=post, replay=make_replay_sup(fn), properties=("C05",), note="1 to 3 values", bounded=True), key=f"{D}:{fn}[verify]")

        make()

    # ---------------------------------------------------------------- unionOfSupports
    def setup_u(I, env):
        eng = I.eng
        n = 1 + eng.choose(3, "number of supports")
        ivs = [make_interval(eng, f"s{i}") for i in range(n)]
        as_gen = eng.choose(2, "given as a one-shot iterator?") == 1
        from pyvc.builtins_model import OneShot

        env.vars["supports"] = OneShot(ivs) if as_gen else tuple(ivs)
        env.vars["_ivs"] = ivs

    def post_u(I, env, outcome):
        eng = I.eng
        name = "distributions.unionOfSupports"
        if outcome[0] != "return":
            return
        ivs = env.vars["_ivs"]
        k = eng.choose(len(ivs), "which support does the value come from")
        x, h = point_in(eng, "x", *ivs[k])
        check_sound(eng, name, outcome[1], True, x, h)

    reg.add(C.Contract(f"{D}:unionOfSupports", params=dict(supports=C.Const(None)), setup=setup_u, post=post_u, inline=["supmin", "supmax"], replay=replay_union, properties=("C05",), note="1 to 3 supports", bounded=True), key=f"{D}:unionOfSupports[verify]")

    # ---------------------------------------------------------------- addSupports
    def setup_a(I, env):
        eng = I.eng
        env.vars["sup1"], env.vars["sup2"] = make_interval(eng, "sup1"), make_interval(eng, "sup2")

    def post_a(I, env, outcome):
        eng = I.eng
        if outcome[0] != "return":
            return
        x, hx = point_in(eng, "x", *env.vars["sup1"])
        y, hy = point_in(eng, "y", *env.vars["sup2"])
        check_sound(eng, "distributions.addSupports", outcome[1], True, x + y, sv_and(hx, hy))
        res = outcome[1]
        if isinstance(res, tuple) and len(res) == 2:
            eng.check("distributions.addSupports#ensures.lower_known_when_both_lowers_known", (res[0] is not None) == (env.vars["sup1"][0] is not None and env.vars["sup2"][0] is not None))
            eng.check("distributions.addSupports#ensures.upper_known_when_both_uppers_known", (res[1] is not None) == (env.vars["sup1"][1] is not None and env.vars["sup2"][1] is not None))

    reg.add(C.Contract(f"{D}:addSupports", params=dict(sup1=C.Const(None), sup2=C.Const(None)), setup=setup_a, post=post_a, replay=replay_add_supports, properties=("C05",)))

    # ---------------------------------------------------------------- module-level supportInterval(thing)
    def setup_si(I, env):
        eng = I.eng
        kind = eng.choose(4, "kind of thing")
        env.vars["_kind"] = kind
        if kind == 0:
            iv = make_interval(eng, "thing")
            env.vars["thing"], env.vars["_iv"] = operand_stub("thing", *iv), iv
        elif kind == 1:
            env.vars["thing"] = eng.fresh_real("c")
        elif kind == 2:
            env.vars["thing"] = eng.fresh_int("c")
        else:
            env.vars["thing"] = PObj("SomethingElse", tag="thing")

    def post_si(I, env, outcome):
        eng = I.eng
        name = "distributions.supportInterval"
        if outcome[0] != "return":
            return
        kind, res = env.vars["_kind"], outcome[1]
        if kind == 0:
            eng.check(f"{name}#ensures.defers_to_the_value's_own_supportInterval", isinstance(res, tuple) and len(res) == 2 and res[0] is env.vars["_iv"][0] and res[1] is env.vars["_iv"][1])
        elif kind in (1, 2):
            check_sound(eng, name + "[constant]", res, True, env.vars["thing"], True)
        else:
            check_sound(eng, name + "[unknown]", res, False, 0, True)

    reg.add(C.Contract(f"{D}:supportInterval", params=dict(thing=C.Const(None)), setup=setup_si, post=post_si, properties=("C05",)), key=f"{D}:supportInterval[verify]")

    # ---------------------------------------------------------------- Range / DiscreteRange / Multiplexer .supportInterval
    def endpoint(eng, name):
        """A range endpoint: a constant, or a random value with an interval; returns (object, interval, sampled value, hypothesis)."""
        if eng.choose(2, f"{name} random?") == 0:
            c = eng.fresh_real(name)
            eng.input_syms.append((name, C.Real(), c))
            return c, (c, c), c, True
        iv = make_interval(eng, name)
        v, h = point_in(eng, f"v({name})", *iv)
        return operand_stub(name, *iv), iv, v, h

    def setup_range(I, env):
        eng = I.eng
        lo = endpoint(eng, "low")
        hi = endpoint(eng, "high")
        env.vars["self"].fields.update(low=lo[0], high=hi[0], weights=None)
        env.vars["_lo"], env.vars["_hi"] = lo, hi

    def post_range(I, env, outcome):
        eng = I.eng
        if outcome[0] != "return":
            return
        lo, hi = env.vars["_lo"], env.vars["_hi"]
        a, b = lo[2], hi[2]
        v = eng.fresh_real("sample")
        eng.input_syms.append(("sample", C.Real(), v))
        # A3: random.uniform(a, b) lies between its arguments (in either order)
        mn, mx = sv_ite(compare("<=", a, b), a, b), sv_ite(compare("<=", a, b), b, a)
        between = sv_and(compare("<=", mn, v), compare("<=", v, mx))
        check_sound(eng, "distributions.Range.supportInterval", outcome[1], True, v, sv_and(lo[3], hi[3], between))

    reg.add(C.Contract(f"{D}:Range.supportInterval", params=dict(self=C.Obj(f"{D}:Range")), setup=setup_range, post=post_range, inline=["supportInterval", "unionOfSupports", "supmin", "supmax"], replay=replay_range_support, properties=("C05",)))

    def post_drange(I, env, outcome):
        eng = I.eng
        if outcome[0] != "return":
            return
        lo, hi = env.vars["_lo"], env.vars["_hi"]
        a, b = lo[2], hi[2]
        v = eng.fresh_int("sample")
        eng.input_syms.append(("sample", C.Int(), v))
        # DiscreteRange.sampleGiven contract: an integer between ceil(low) and floor(high), i.e. low <= v <= high
        between = sv_and(compare("<=", a, v), compare("<=", v, b))
        check_sound(eng, "distributions.DiscreteRange.supportInterval", outcome[1], True, v, sv_and(lo[3], hi[3], between))

    reg.add(C.Contract(f"{D}:DiscreteRange.supportInterval", params=dict(self=C.Obj(f"{D}:DiscreteRange")), setup=setup_range, post=post_drange, inline=["supportInterval"], replay=replay_drange_support, properties=("C05",)))

    def setup_mux(I, env):
        eng = I.eng
        n = 1 + eng.choose(3, "number of options")
        opts = [endpoint(eng, f"opt{i}") for i in range(n)]
        env.vars["self"].fields.update(options=tuple(o[0] for o in opts), index=PObj("Selector", tag="index"))
        env.vars["_opts"] = opts

    def post_mux(I, env, outcome):
        eng = I.eng
        if outcome[0] != "return":
            return
        opts = env.vars["_opts"]
        k = eng.choose(len(opts), "selected option")
        # MultiplexerDistribution.sampleGiven contract: the value of the selected option
        check_sound(eng, "distributions.MultiplexerDistribution.supportInterval", outcome[1], True, opts[k][2], opts[k][3])

    reg.add(C.Contract(f"{D}:MultiplexerDistribution.supportInterval", params=dict(self=C.Obj(f"{D}:MultiplexerDistribution")), setup=setup_mux, post=post_mux, inline=["supportInterval", "unionOfSupports", "supmin", "supmax"], properties=("C05",), note="1 to 3 options", bounded=True))

    # ---------------------------------------------------------------- geometry.findMinMax
    def setup_fmm(I, env):
        eng = I.eng
        n = eng.choose(4, "number of values")
        vals = [eng.fresh_real(f"v{i}") for i in range(n)]
        for i, x in enumerate(vals):
            eng.input_syms.append((f"v{i}", C.Real(), x))
        env.vars["iterable"] = tuple(vals)

    def post_fmm(I, env, outcome):
        eng = I.eng
        name = "geometry.findMinMax"
        if outcome[0] != "return":
            return
        vals, res = env.vars["iterable"], outcome[1]
        ok = isinstance(res, tuple) and len(res) == 2
        eng.check(f"{name}#ensures.returns_a_pair", ok)
        if not ok:
            return
        mn, mx = res
        if not vals:
            eng.check(f"{name}#ensures.empty_gives_the_empty_interval", isinstance(mn, Infinity) and mn.sign > 0 and isinstance(mx, Infinity) and mx.sign < 0)
            return
        fin = not isinstance(mn, Infinity) and not isinstance(mx, Infinity)
        eng.check(f"{name}#ensures.finite_for_a_nonempty_input", fin)
        if fin:
            eng.check(f"{name}#ensures.min_bounds_every_value_and_is_attained", sv_and(sv_and(*[compare("<=", mn, x) for x in vals]), sv_or(*[compare("==", mn, x) for x in vals])))
            eng.check(f"{name}#ensures.max_bounds_every_value_and_is_attained", sv_and(sv_and(*[compare(">=", mx, x) for x in vals]), sv_or(*[compare("==", mx, x) for x in vals])))

    reg.add(C.Contract(f"{G}:findMinMax", params=dict(iterable=C.Const(None)), setup=setup_fmm, post=post_fmm, replay=replay_find_min_max, properties=("C05",), note="0 to 3 values", bounded=True))


def make_replay_sup(fn):
    def replay(inputs, clause):
        import scenic.core.distributions as d

        vals = [inputs[k] for k in sorted(k for k in inputs if k.startswith("v") and k[1:].isdigit())]
        res = getattr(d, fn)(*vals)
        if any(v is None for v in vals):
            return None if res is None else f"{fn}{tuple(vals)} = {res} although a value is unknown"
        want = min(vals) if fn == "supmin" else max(vals)
        return None if res == want else f"{fn}{tuple(vals)} = {res}, expected {want}"

    return replay


def _ivs_from(inputs, prefix):
    out, i = [], 0
    while f"{prefix}{i}.lo" in inputs or f"{prefix}{i}.hi" in inputs:
        out.append((inputs.get(f"{prefix}{i}.lo"), inputs.get(f"{prefix}{i}.hi")))
        i += 1
    return out


def replay_union(inputs, clause):
    from scenic.core.distributions import unionOfSupports

    ivs = _ivs_from(inputs, "s")
    lo, hi = unionOfSupports(iter(ivs))
    x = inputs.get("x")
    pts = [x] if x is not None else [b for iv in ivs for b in iv if b is not None]
    for p in pts:
        if any((a is None or a <= p) and (b is None or p <= b) for a, b in ivs):
            if (lo is not None and p < lo) or (hi is not None and p > hi):
                return f"unionOfSupports({ivs}) = ({lo}, {hi}) does not contain {p}, which lies in one of the supports"
    return None


def replay_add_supports(inputs, clause):
    from scenic.core.distributions import addSupports

    s1, s2 = (inputs.get("sup1.lo"), inputs.get("sup1.hi")), (inputs.get("sup2.lo"), inputs.get("sup2.hi"))
    lo, hi = addSupports(s1, s2)
    x, y = inputs.get("x"), inputs.get("y")
    if x is not None and y is not None and _inside(x, *s1) and _inside(y, *s2):
        v = x + y
        if (lo is not None and v < lo - 1e-9) or (hi is not None and v > hi + 1e-9):
            return f"addSupports({s1}, {s2}) = ({lo}, {hi}) does not contain {x} + {y}"
    if (lo is None) != (s1[0] is None or s2[0] is None) or (hi is None) != (s1[1] is None or s2[1] is None):
        return f"addSupports({s1}, {s2}) = ({lo}, {hi}): a bound is unknown/known against its inputs"
    return None


def _endpoint_value_ok(inputs, name):
    """(sampled value of the endpoint, whether it lies in the endpoint's interval)"""
    if f"{name}.lo" in inputs or f"{name}.hi" in inputs:
        v = inputs.get(f"v({name})")
        return v, v is not None and _inside(v, inputs.get(f"{name}.lo"), inputs.get(f"{name}.hi"))
    return inputs.get(name), inputs.get(name) is not None


def _sample_admissible(inputs):
    (a, oka), (b, okb), v = _endpoint_value_ok(inputs, "low"), _endpoint_value_ok(inputs, "high"), inputs.get("sample")
    return v is not None and oka and okb and min(a, b) <= v <= max(a, b)


def _endpoint_real(inputs, name):
    if f"{name}.lo" in inputs or f"{name}.hi" in inputs:
        return _stub_dist(inputs.get(f"{name}.lo"), inputs.get(f"{name}.hi"))
    return float(inputs.get(name, 0.0))


def replay_range_support(inputs, clause):
    from scenic.core.distributions import Range

    r = Range.__new__(Range)
    r.low, r.high = _endpoint_real(inputs, "low"), _endpoint_real(inputs, "high")
    lo, hi = r.supportInterval()
    v = inputs.get("sample")
    if _sample_admissible(inputs) and ((lo is not None and v < lo - 1e-9) or (hi is not None and v > hi + 1e-9)):
        return f"Range.supportInterval() = ({lo}, {hi}) for endpoints {inputs}; the sample {v} lies outside"
    return None


def replay_drange_support(inputs, clause):
    from scenic.core.distributions import DiscreteRange

    r = DiscreteRange.__new__(DiscreteRange)
    r.low, r.high, r.weights = _endpoint_real(inputs, "low"), _endpoint_real(inputs, "high"), None
    lo, hi = r.supportInterval()
    v = inputs.get("sample")
    ok = _sample_admissible(inputs) and _endpoint_value_ok(inputs, "low")[0] <= v <= _endpoint_value_ok(inputs, "high")[0]
    if ok and ((lo is not None and v < lo - 1e-9) or (hi is not None and v > hi + 1e-9)):
        return f"DiscreteRange.supportInterval() = ({lo}, {hi}) for endpoints {inputs}; the sample {v} lies outside"
    return None


def replay_find_min_max(inputs, clause):
    from scenic.core.geometry import findMinMax

    vals = [float(inputs[k]) for k in sorted(k for k in inputs if k.startswith("v") and k[1:].isdigit())]
    mn, mx = findMinMax(iter(vals))
    if vals and (mn != min(vals) or mx != max(vals)):
        return f"findMinMax({vals}) = ({mn}, {mx}), expected ({min(vals)}, {max(vals)})"
    return None


# ------------------------------------------------------------------------------------------------
# (6) other lifted nodes: sampling homomorphism, evaluateInner; the DelayedArgument layer


def record_ctor(I, cls, args, kwargs):
    """A node constructor at a construction site inside evaluateInner: a record of the arguments bound by the real signature."""
    init = I.find_method(cls, "__init__")
    o = PObj(cls)
    env = I.bind_args(init, [o] + list(args), dict(kwargs))
    o.fields["_ctor"] = {k: v for k, v in env.vars.items() if v is not o}
    o.fields.update(_isLazy=True, _needsSampling=True, _needsLazyEval=False, _requiredProperties=(), _dependencies=())
    o.fields["_conditioned"] = o
    return o


def recorder(calls, tag, result):
    def fn(*a, **k):
        calls.append((tag, a, k))
        return result

    return BuiltinFn(tag, fn)


def register_other_nodes(reg):
    for cn in ("FunctionDistribution", "MethodDistribution", "AttributeDistribution", "TupleDistribution", "SliceDistribution", "StarredDistribution", "Range", "Normal"):
        reg.constructors[f"{D}:{cn}"] = record_ctor
    reg.trust("node constructors at construction sites inside evaluateInner", "Function/Method/Attribute/Tuple/Slice/Starred distributions, Range and Normal are modelled as records of the arguments bound by their real __init__ signature")
    starred_cls = repo_class(f"{D}:StarredDistribution")

    def keys_and_values(n, tag):
        return [PObj("RandomOperand", tag=f"{tag}{i}") for i in range(n)], [PObj("SampledOperand", tag=f"v({tag}{i})") for i in range(n)]

    # ---------------------------------------------------------------- Function/MethodDistribution.sampleGiven
    def make_call_contract(cn, is_method):
        name = f"distributions.{cn}.sampleGiven"

        def setup(I, env):
            eng = I.eng
            with_star = eng.choose(2, "a starred argument in the middle?") == 1
            with_kw = eng.choose(2, "keyword arguments?") == 1
            calls, R = [], PObj("Result", tag="result")
            ks, vs = keys_and_values(2, "arg")
            pairs = list(zip(ks, vs))
            arguments, expected = [ks[0]], [vs[0]]
            if with_star:
                inner = PObj("RandomOperand", tag="starred value")
                star = PObj(starred_cls, tag="*starred")
                star.fields.update(value=inner, lineno=7)
                elems = (PObj("SampledOperand", tag="s0"), PObj("SampledOperand", tag="s1"))
                pairs += [(inner, elems), (star, elems)]
                arguments.append(star)
                expected += list(elems)
            arguments.append(ks[1])
            expected.append(vs[1])
            kwn = ["beta", "alpha"] if with_kw else []
            kk, kv = keys_and_values(len(kwn), "kw")
            pairs += list(zip(kk, kv))
            self = env.vars["self"]
            fn = recorder(calls, "call", R)
            self.fields.update(arguments=tuple(arguments), kwargs=PDict(list(zip(kwn, kk))))
            if is_method:
                self.fields.update(method=fn, object=PObj("FixedObject", tag="the object"))
            else:
                self.fields.update(function=fn)
            env.vars["value"] = identity_map(I, pairs)
            env.vars.update(_calls=calls, _R=R, _expected=expected, _kw=list(zip(kwn, kv)))
            eng.input_syms.append(("starred", C.Const(None), with_star))
            eng.input_syms.append(("keywords", C.Const(None), with_kw))

        def post(I, env, outcome):
            eng = I.eng
            v = env.vars
            calls = v["_calls"]
            eng.check(f"{name}#ensures.function_called_exactly_once", len(calls) == 1)
            eng.check(f"{name}#ensures.result_is_what_the_function_returned", outcome[0] == "return" and outcome[1] is v["_R"])
            if len(calls) != 1:
                return
            a, k = calls[0][1], calls[0][2]
            exp = ([v["self"].fields["object"]] if is_method else []) + v["_expected"]
            eng.check(f"{name}#ensures.positional_arguments_are_the_sampled_values_in_order_with_starred_ones_spliced_in_place", len(a) == len(exp) and all(x is y for x, y in zip(a, exp)))
            eng.check(f"{name}#ensures.keyword_arguments_keep_their_names", sorted(k) == sorted(n for n, _ in v["_kw"]) and all(k.get(n) is val for n, val in v["_kw"]))

        reg.add(C.Contract(f"{D}:{cn}.sampleGiven", params=dict(self=C.Obj(f"{D}:{cn}"), value=C.Const(None)), setup=setup, post=post, raises=[C.Raises("TypeError", mode="may")], inline=["DefaultIdentityDict.__getitem__"], replay=make_replay_call_node(cn, is_method), properties=("C05",)))

    make_call_contract("FunctionDistribution", False)
    make_call_contract("MethodDistribution", True)

    # ---------------------------------------------------------------- Tuple / Slice / Starred / Attribute .sampleGiven
    def setup_tuple(I, env):
        eng = I.eng
        n = eng.choose(4, "number of coordinates")
        ks, vs = keys_and_values(n, "coord")
        b = eng.choose(3, "builder")
        calls = []
        builder = [I.builtins["tuple"], I.builtins["list"], None][b]
        if builder is None:
            marker = PObj("NamedTuple", tag="built")

            def make(it):
                calls.append(tuple(I.iterate(it)))
                return marker

            builder = BuiltinFn("_make", make)
            env.vars["_marker"] = marker
        env.vars["self"].fields.update(coordinates=tuple(ks), builder=builder)
        env.vars["value"] = identity_map(I, list(zip(ks, vs)))
        env.vars.update(_vs=vs, _b=b, _calls=calls)
        eng.input_syms.append(("n", C.Const(None), n))
        eng.input_syms.append(("builder", C.Const(None), b))

    def post_tuple(I, env, outcome):
        eng = I.eng
        name = "distributions.TupleDistribution.sampleGiven"
        if outcome[0] != "return":
            return
        vs, b, res = env.vars["_vs"], env.vars["_b"], outcome[1]
        if b == 2:
            calls = env.vars["_calls"]
            eng.check(f"{name}#ensures.custom_builder_receives_the_sampled_coordinates_in_order", res is env.vars["_marker"] and len(calls) == 1 and len(calls[0]) == len(vs) and all(x is y for x, y in zip(calls[0], vs)))
            return
        items = res if isinstance(res, tuple) else getattr(res, "items", None)
        eng.check(f"{name}#ensures.same_container_type", isinstance(res, tuple) if b == 0 else isinstance(res, PList))
        eng.check(f"{name}#ensures.elements_are_the_sampled_coordinates_in_order", items is not None and len(items) == len(vs) and all(x is y for x, y in zip(items, vs)))

    reg.add(C.Contract(f"{D}:TupleDistribution.sampleGiven", params=dict(self=C.Obj(f"{D}:TupleDistribution"), value=C.Const(None)), setup=setup_tuple, post=post_tuple, inline=["DefaultIdentityDict.__getitem__"], replay=replay_tuple_sample, properties=("C05",), note="0 to 3 coordinates", bounded=True))

    def setup_slice(I, env):
        ks, vs = keys_and_values(3, "part")
        env.vars["self"].fields.update(start=ks[0], stop=ks[1], step=ks[2])
        env.vars["value"] = identity_map(I, list(zip(ks, vs)))
        env.vars["_vs"] = vs

    def post_slice(I, env, outcome):
        vs, res = env.vars["_vs"], outcome[1] if outcome[0] == "return" else None
        I.eng.check("distributions.SliceDistribution.sampleGiven#ensures.slice_of_the_sampled_start_stop_step", isinstance(res, slice) and res.start is vs[0] and res.stop is vs[1] and res.step is vs[2])

    reg.add(C.Contract(f"{D}:SliceDistribution.sampleGiven", params=dict(self=C.Obj(f"{D}:SliceDistribution"), value=C.Const(None)), setup=setup_slice, post=post_slice, inline=["DefaultIdentityDict.__getitem__"], properties=("C05",)))

    def setup_attr(I, env):
        k, v = PObj("RandomOperand", tag="object"), PObj("SampledObject", tag="v(object)")
        a1, a2 = PObj("AttrValue", tag="v(object).width"), PObj("AttrValue", tag="v(object).length")
        v.fields.update(width=a1, length=a2)
        env.vars["self"].fields.update(attribute="width", object=k)
        env.vars["value"] = identity_map(I, [(k, v)])
        env.vars["_a1"] = a1

    def post_attr(I, env, outcome):
        I.eng.check("distributions.AttributeDistribution.sampleGiven#ensures.the_named_attribute_of_the_sampled_object", outcome[0] == "return" and outcome[1] is env.vars["_a1"])

    reg.add(C.Contract(f"{D}:AttributeDistribution.sampleGiven", params=dict(self=C.Obj(f"{D}:AttributeDistribution"), value=C.Const(None)), setup=setup_attr, post=post_attr, inline=["DefaultIdentityDict.__getitem__"], properties=("C05",)))

    def setup_star(I, env):
        k, v = PObj("RandomOperand", tag="value"), PObj("SampledOperand", tag="v(value)")
        env.vars["self"].fields.update(value=k, lineno=3)
        env.vars["value"] = identity_map(I, [(k, v)])
        env.vars["_v"] = v

    def post_star(I, env, outcome):
        I.eng.check("distributions.StarredDistribution.sampleGiven#ensures.the_sampled_value_of_the_starred_expression", outcome[0] == "return" and outcome[1] is env.vars["_v"])

    reg.add(C.Contract(f"{D}:StarredDistribution.sampleGiven", params=dict(self=C.Obj(f"{D}:StarredDistribution"), value=C.Const(None)), setup=setup_star, post=post_star, inline=["DefaultIdentityDict.__getitem__"], properties=("C05",)))

    # ---------------------------------------------------------------- AttributeDistribution.supportInterval
    def setup_asi(I, env):
        eng = I.eng
        mux = eng.choose(2, "object is a multiplexer over fixed options?") == 0
        self = env.vars["self"]
        self.fields["attribute"] = "width"
        env.vars["_opts"] = None
        if not mux:
            self.fields["object"] = operand_stub("object", None, None)
            return
        n = 1 + eng.choose(2, "number of options")
        opts = []
        for i in range(n):
            o = PObj("FixedOption", tag=f"opt{i}")
            if eng.choose(2, f"opt{i}.width random?") == 0:
                c = eng.fresh_real(f"opt{i}.width")
                eng.input_syms.append((f"opt{i}.width", C.Real(), c))
                o.fields["width"] = c
                opts.append((o, c, True))
            else:
                iv = make_interval(eng, f"opt{i}.width")
                w, h = point_in(eng, f"v(opt{i}.width)", *iv)
                o.fields["width"] = operand_stub(f"opt{i}.width", *iv)
                opts.append((o, w, h))
        m = PObj(repo_class(f"{D}:MultiplexerDistribution"), tag="multiplexer")
        m.fields.update(options=tuple(o for o, _, _ in opts), index=PObj("Selector", tag="index"))
        self.fields["object"] = m
        env.vars["_opts"] = opts

    def post_asi(I, env, outcome):
        eng = I.eng
        name = "distributions.AttributeDistribution.supportInterval"
        if outcome[0] != "return":
            return
        opts = env.vars["_opts"]
        if opts is None:
            check_sound(eng, name + "[other object]", outcome[1], False, 0, True)
            res = outcome[1]
            eng.check(f"{name}[other object]#ensures.nothing_claimed_about_an_unknown_object", isinstance(res, tuple) and res[0] is None and res[1] is None)
            return
        k = eng.choose(len(opts), "selected option")
        check_sound(eng, name, outcome[1], True, opts[k][1], opts[k][2])

    reg.add(C.Contract(f"{D}:AttributeDistribution.supportInterval", params=dict(self=C.Obj(f"{D}:AttributeDistribution")), setup=setup_asi, post=post_asi, inline=["supportInterval", "unionOfSupports", "supmin", "supmax"], properties=("C05",), note="1 or 2 fixed options", bounded=True))

    # ---------------------------------------------------------------- evaluateInner of the other nodes
    def make_eval_inner(cn, fields, expect):
        """fields: dict field -> 'lazy' | ('lazies', n) | ('kw', names) | constant; expect(ctor, V) -> list of (clause, bool)."""
        name = f"distributions.{cn}.evaluateInner"

        def setup(I, env):
            reset_vic(I)
            self = env.vars["self"]
            made = {}
            for f, kind in fields.items():
                if kind == "lazy":
                    made[f] = PObj("LazyOperand", tag=f)
                elif isinstance(kind, tuple) and kind[0] == "lazies":
                    made[f] = tuple(PObj("LazyOperand", tag=f"{f}{i}") for i in range(kind[1]))
                elif isinstance(kind, tuple) and kind[0] == "kw":
                    made[f] = PDict([(n, PObj("LazyOperand", tag=f"{f}:{n}")) for n in kind[1]])
                else:
                    made[f] = kind
                self.fields[f] = made[f]
            ctx = PObj("Context", tag="context")
            env.vars["context"] = ctx
            env.vars.update(_made=made, _ctx=ctx)

        def post(I, env, outcome):
            eng = I.eng
            if outcome[0] != "return":
                return
            res = outcome[1]
            ok = isinstance(res, PObj) and getattr(res.cls, "name", None) == cn and "_ctor" in res.fields
            eng.check(f"{name}#ensures.builds_a_node_of_the_same_class", ok)
            if not ok:
                return
            for clause, val in expect(res.fields["_ctor"], lambda x: vic_of(I, x), env.vars["_made"]):
                eng.check(f"{name}#ensures.{clause}", val)
            eng.check(f"{name}#ensures.everything_evaluated_in_the_given_context", all(c is env.vars["_ctx"] for _, c in I.vic_log))

        reg.add(C.Contract(f"{D}:{cn}.evaluateInner", params=dict(self=C.Obj(f"{D}:{cn}"), context=C.Const(None)), setup=setup, post=post, properties=("C05",)))

    def seq_is(got, keys, V):
        got = tuple(got) if isinstance(got, tuple) else tuple(getattr(got, "items", ()))
        return len(got) == len(keys) and all(V(k) is not None and g is V(k) for g, k in zip(got, keys))

    def kw_is(got, made, V):
        return isinstance(got, PDict) and list(got.keys) == list(made.keys) and all(V(k) is not None and g is V(k) for g, k in zip(got.vals, made.vals))

    make_eval_inner(
        "FunctionDistribution",
        dict(function="lazy", arguments=("lazies", 2), kwargs=("kw", ["beta", "alpha"]), support=None),
        lambda c, V, m: [
            ("function_is_the_context_value_of_the_function", c["func"] is V(m["function"]) and c["func"] is not None),
            ("arguments_are_the_context_values_of_the_corresponding_arguments", seq_is(c["args"], m["arguments"], V)),
            ("keyword_arguments_keep_names_and_correspond", kw_is(c["kwargs"], m["kwargs"], V)),
        ],
    )
    meth = PObj("Method", tag="the method")
    make_eval_inner(
        "MethodDistribution",
        dict(method=meth, object="lazy", arguments=("lazies", 2), kwargs=("kw", ["beta", "alpha"])),
        lambda c, V, m: [
            ("same_method", c["method"] is meth),
            ("object_is_the_context_value_of_the_object", c["obj"] is V(m["object"]) and c["obj"] is not None),
            ("arguments_are_the_context_values_of_the_corresponding_arguments", seq_is(c["args"], m["arguments"], V)),
            ("keyword_arguments_keep_names_and_correspond", kw_is(c["kwargs"], m["kwargs"], V)),
        ],
    )
    make_eval_inner(
        "AttributeDistribution",
        dict(attribute="width", object="lazy"),
        lambda c, V, m: [("same_attribute", c["attribute"] == "width"), ("object_is_the_context_value_of_the_object", c["obj"] is V(m["object"]) and c["obj"] is not None)],
    )
    bld = PObj("Builder", tag="builder")
    make_eval_inner(
        "TupleDistribution",
        dict(coordinates=("lazies", 3), builder=bld),
        lambda c, V, m: [("same_builder", c["builder"] is bld), ("coordinates_are_the_context_values_in_order", seq_is(c["coordinates"], m["coordinates"], V))],
    )
    make_eval_inner(
        "SliceDistribution",
        dict(start="lazy", stop="lazy", step="lazy"),
        lambda c, V, m: [("start_stop_step_correspond", all(V(m[k]) is not None and c[k] is V(m[k]) for k in ("start", "stop", "step")))],
    )
    make_eval_inner(
        "StarredDistribution",
        dict(value="lazy", lineno=11),
        lambda c, V, m: [("value_corresponds_and_line_kept", c["value"] is V(m["value"]) and c["lineno"] == 11)],
    )
    make_eval_inner("Range", dict(low="lazy", high="lazy"), lambda c, V, m: [("low_and_high_correspond", c["low"] is V(m["low"]) and c["high"] is V(m["high"]) and V(m["low"]) is not V(m["high"]))])
    make_eval_inner("Normal", dict(mean="lazy", stddev="lazy"), lambda c, V, m: [("mean_and_stddev_correspond", c["mean"] is V(m["mean"]) and c["stddev"] is V(m["stddev"]) and V(m["mean"]) is not V(m["stddev"]))])


def make_replay_call_node(cn, is_method):
    def replay(inputs, clause):
        import scenic.core.distributions as d
        from scenic.core.utils import DefaultIdentityDict

        class Key(d.Distribution):
            def __init__(self):
                super().__init__()

        calls = []

        def fn(*a, **k):
            calls.append((a, k))
            return "R"

        k0, k1 = Key(), Key()
        m = DefaultIdentityDict()
        m[k0], m[k1] = "v0", "v1"
        args, exp = [k0], ["v0"]
        if inputs.get("starred"):
            inner = Key()
            st = d.StarredDistribution(inner, 7)
            m[inner] = m[st] = ("s0", "s1")
            args.append(st)
            exp += ["s0", "s1"]
        args.append(k1)
        exp.append("v1")
        kw, kwexp = {}, {}
        if inputs.get("keywords"):
            for n in ("beta", "alpha"):
                kw[n] = Key()
                m[kw[n]] = kwexp[n] = "v:" + n
        fixed = object()
        node = d.MethodDistribution(fn, fixed, tuple(args), kw, valueType=object) if is_method else d.FunctionDistribution(fn, tuple(args), kw, valueType=object)
        res = node.sampleGiven(m)
        want = ([fixed] if is_method else []) + exp
        if not _same(res, "R") or len(calls) != 1 or not _same(list(calls[0][0]), want) or not _same(calls[0][1], kwexp):
            return f"{cn}.sampleGiven called the function as {calls!r} (result {res!r}); expected one call with {want!r}, {kwexp!r}"
        return None

    return replay


# ------------------------------------------------------------------------------------------------
# (6b) the lazy layer (lazy_eval.py): delayed operations apply the operation to the context values of their parts


def register_lazy_layer(reg):
    DA = f"{L}:DelayedArgument"
    da_cls = repo_class(DA)

    def lazy_part(tag, props):
        o = PObj(da_cls, tag=tag)
        o.fields.update(_requiredProperties=tuple(props), _needsLazyEval=True, _isLazy=True, _needsSampling=False, _dependencies=())
        return o

    def delayed_self(calls, props, evaluated):
        s = lazy_part("self", props)
        s.fields["evaluateIn"] = recorder(calls, "self.evaluateIn", evaluated)
        return s

    def run_value(I, res, ctx, name):
        """Call the `value` closure of the DelayedArgument produced by a carrier."""
        eng = I.eng
        ok = isinstance(res, PObj) and getattr(res.cls, "name", None) == "DelayedArgument" and isinstance(res.fields.get("value"), FuncVal)
        eng.check(f"{name}#ensures.returns_a_delayed_argument", ok)
        if not ok:
            return False, None
        reset_vic(I)
        try:
            return True, I.call_value(res.fields["value"], [ctx])
        except SymRaise as sr:
            eng.check(f"{name}#ensures.evaluation_does_not_raise", False, detail=repr(sr.exc))
            return False, None

    def props_ok(res, want):
        got = res.fields.get("_requiredProperties")
        return isinstance(got, tuple) and sorted(got) == sorted(set(want)) and res.fields.get("_needsLazyEval") is True and res.fields.get("_isLazy") is True

    INL = ["DelayedArgument.__init__", "LazilyEvaluable.__init__"]

    # ---------------------------------------------------------------- makeDelayedOperatorHandler.handler
    LOPS = ["__add__", "__rsub__", "__getitem__", "__neg__", "__lt__"]

    def setup_oh(I, env):
        eng = I.eng
        op = holder_oh["op"]
        calls, R = [], PObj("Result", tag="result")
        E = PObj("Evaluated", tag="self in context")
        E.fields[op] = recorder(calls, "operation", R)
        nargs = 0 if op == "__neg__" else 1
        args = [lazy_part("arg0", ("b", "c"))][:nargs] if eng.choose(2, "lazy argument?") == 0 else [PObj("Plain", tag="arg0")][:nargs]
        env.vars["self"] = delayed_self(calls, ("a", "b"), E)
        env.vars["args"] = tuple(args)
        env.vars.update(_op=op, _calls=calls, _R=R, _E=E)
        eng.input_syms.append(("operator", C.Const(None), op))

    holder_oh = {}

    def closure_oh(I):
        # the closure variable `op` of makeDelayedOperatorHandler: chosen first, read by setup
        holder_oh["op"] = LOPS[I.eng.choose(len(LOPS), "operator")]
        return dict(op=holder_oh["op"])

    def post_oh(I, env, outcome):
        eng = I.eng
        name = "lazy_eval.makeDelayedOperatorHandler.handler"
        if outcome[0] != "return":
            return
        v = env.vars
        ctx = PObj("Context", tag="context")
        ok, val = run_value(I, outcome[1], ctx, name)
        if not ok:
            return
        want_props = ["a", "b"] + [p for a in v["args"] for p in a.fields.get("_requiredProperties", ())]
        eng.check(f"{name}#ensures.required_properties_are_the_union_of_the_parts", props_ok(outcome[1], want_props))
        calls = v["_calls"]
        ev = [c for c in calls if c[0] == "self.evaluateIn"]
        opc = [c for c in calls if c[0] == "operation"]
        eng.check(f"{name}#ensures.self_evaluated_once_in_the_context", len(ev) == 1 and len(ev[0][1]) == 1 and ev[0][1][0] is ctx)
        eng.check(f"{name}#ensures.operation_applied_once_to_the_context_values_of_the_arguments", len(opc) == 1 and len(opc[0][1]) == len(v["args"]) and all(a is vic_of(I, k) for a, k in zip(opc[0][1], v["args"])) and not opc[0][2])
        eng.check(f"{name}#ensures.value_is_the_result_of_the_operation", val is v["_R"])
        eng.check(f"{name}#ensures.arguments_evaluated_in_the_same_context", all(c is ctx for _, c in I.vic_log))

    reg.add(
        C.Contract(
            f"{L}:makeDelayedOperatorHandler.handler",
            params=dict(self=C.Const(None), args=C.Const(None)),
            closure_env=closure_oh,
            setup=setup_oh,
            post=post_oh,
            inline=INL,
            replay=replay_delayed_operator,
            properties=("C05",),
        )
    )

    # ---------------------------------------------------------------- DelayedArgument.__call__ / makeDelayedFunctionCall
    def make_call(target, short, is_method):
        def setup(I, env):
            eng = I.eng
            calls, R = [], PObj("Result", tag="result")
            nkw = eng.choose(3, "number of keyword arguments")
            kwn = ["beta", "alpha"][:nkw]
            args = [lazy_part("arg0", ("b",)), PObj("Plain", tag="arg1")]
            kws = [lazy_part(f"kw:{n}", ("c", n)) for n in kwn]
            fn = recorder(calls, "call", R)
            if is_method:
                env.vars["self"] = delayed_self(calls, ("a",), fn)
                env.vars["args"] = tuple(args)
                for n, k in zip(kwn, kws):
                    env.vars[n] = k
            else:
                env.vars["func"] = fn
                env.vars["args"] = tuple(args)
                env.vars["kwargs"] = PDict(list(zip(kwn, kws)))
            env.vars.update(_calls=calls, _R=R, _args=args, _kw=list(zip(kwn, kws)))
            eng.input_syms.append(("n_keywords", C.Const(None), nkw))

        def post(I, env, outcome):
            eng = I.eng
            if outcome[0] != "return":
                return
            v = env.vars
            ctx = PObj("Context", tag="context")
            ok, val = run_value(I, outcome[1], ctx, short)
            if not ok:
                return
            want = (["a"] if is_method else []) + ["b"] + [p for _, k in v["_kw"] for p in k.fields["_requiredProperties"]]
            eng.check(f"{short}#ensures.required_properties_are_the_union_of_the_parts", props_ok(outcome[1], want))
            cc = [c for c in v["_calls"] if c[0] == "call"]
            eng.check(f"{short}#ensures.function_called_once", len(cc) == 1)
            if len(cc) == 1:
                a, k = cc[0][1], cc[0][2]
                eng.check(f"{short}#ensures.positional_arguments_are_context_values_in_order", len(a) == 2 and all(x is vic_of(I, y) for x, y in zip(a, v["_args"])))
                eng.check(f"{short}#ensures.keyword_arguments_keep_names_and_are_context_values", sorted(k) == sorted(n for n, _ in v["_kw"]) and all(k.get(n) is vic_of(I, key) for n, key in v["_kw"]))
            eng.check(f"{short}#ensures.value_is_the_result_of_the_call", val is v["_R"])
            if is_method:
                ev = [c for c in v["_calls"] if c[0] == "self.evaluateIn"]
                eng.check(f"{short}#ensures.self_evaluated_once_in_the_context", len(ev) == 1 and ev[0][1][0] is ctx)

        params = dict(self=C.Const(None), args=C.Const(None)) if is_method else dict(func=C.Const(None), args=C.Const(None), kwargs=C.Const(None))
        reg.add(C.Contract(target, params=params, kwargs={"beta": None, "alpha": None} if is_method else None, setup=setup, post=post, inline=INL, replay=make_replay_delayed_call(is_method), properties=("C05",)))

    make_call(f"{DA}.__call__", "lazy_eval.DelayedArgument.__call__", True)
    make_call(f"{L}:makeDelayedFunctionCall", "lazy_eval.makeDelayedFunctionCall", False)

    # ---------------------------------------------------------------- DelayedArgument.__getattr__
    def setup_ga(I, env):
        calls = []
        A = PObj("AttrValue", tag="(self in context).width")
        E = PObj("Evaluated", tag="self in context")
        E.fields["width"] = A
        env.vars["self"] = delayed_self(calls, ("a", "b"), E)
        env.vars["name"] = "width"
        env.vars.update(_calls=calls, _A=A)

    def post_ga(I, env, outcome):
        eng = I.eng
        name = "lazy_eval.DelayedArgument.__getattr__"
        if outcome[0] != "return":
            return
        ctx = PObj("Context", tag="context")
        ok, val = run_value(I, outcome[1], ctx, name)
        if not ok:
            return
        eng.check(f"{name}#ensures.required_properties_are_those_of_self", props_ok(outcome[1], ["a", "b"]))
        ev = env.vars["_calls"]
        eng.check(f"{name}#ensures.value_is_the_attribute_of_self_evaluated_in_the_context", val is env.vars["_A"] and len(ev) == 1 and ev[0][1][0] is ctx)

    reg.add(C.Contract(f"{DA}.__getattr__", params=dict(self=C.Const(None), name=C.Const(None)), setup=setup_ga, post=post_ga, inline=INL, properties=("C05",)))

    # ---------------------------------------------------------------- valueInContext
    def setup_vic(I, env):
        eng = I.eng
        kind = eng.choose(4, "kind of value")
        calls, E = [], PObj("Evaluated", tag="value in context")
        if kind == 0:
            val = delayed_self(calls, ("a",), E)
        elif kind == 1:  # a LazilyEvaluable that needs no lazy evaluation (e.g. a distribution over constants)
            val = lazy_part("settled", ())
            val.fields.update(_needsLazyEval=False, evaluateIn=recorder(calls, "self.evaluateIn", E))
        elif kind == 2:
            val = eng.fresh_real("c")
        else:
            val = PObj("Plain", tag="plain object")
        ctx = PObj("Context", tag="context")
        env.vars.update(value=val, context=ctx, _kind=kind, _calls=calls, _E=E)

    def post_vic(I, env, outcome):
        eng = I.eng
        name = "lazy_eval.valueInContext"
        v = env.vars
        if outcome[0] != "return":
            return
        if v["_kind"] == 0:
            eng.check(f"{name}#ensures.lazy_value_is_evaluated_once_in_the_context", outcome[1] is v["_E"] and len(v["_calls"]) == 1 and v["_calls"][0][1][0] is v["context"])
        else:
            eng.check(f"{name}#ensures.other_values_are_returned_unchanged", outcome[1] is v["value"] and len(v["_calls"]) == 0)

    reg.add(C.Contract(f"{L}:valueInContext", params=dict(value=C.Const(None), context=C.Const(None)), setup=setup_vic, post=post_vic, replay=replay_value_in_context, properties=("C05",)), key=f"{L}:valueInContext[verify]")

    # ---------------------------------------------------------------- LazilyEvaluable.evaluateIn (the per-object cache)
    def setup_ev(I, env):
        eng = I.eng
        cached = eng.choose(2, "already evaluated in this context?") == 0
        calls = []
        V = PObj("Evaluated", tag="fresh evaluation")
        still_lazy = (not cached) and eng.choose(2, "evaluation still lazy?") == 1
        if still_lazy:
            V.fields["_needsLazyEval"] = True
        old = PObj("Evaluated", tag="cached evaluation")
        self = lazy_part("self", ("a",))
        self.fields["evaluateInner"] = recorder(calls, "evaluateInner", V)
        other = lazy_part("other", ("a",))
        ctx = PObj("Context", tag="context")
        cache = identity_map(I, [(other, PObj("Evaluated", tag="other cached"))] + ([(self, old)] if cached else []))
        has_prop = eng.choose(2, "context has the required property?") == 0
        ctx.fields["_evaluated"] = cache
        if has_prop:
            ctx.fields["a"] = 1
        env.vars.update(self=self, context=ctx, _cached=cached, _calls=calls, _V=V, _prev=old, _cache=cache, _still=still_lazy, _has=has_prop)

    def post_ev(I, env, outcome):
        eng = I.eng
        name = "lazy_eval.LazilyEvaluable.evaluateIn"
        v = env.vars
        calls = v["_calls"]
        if v["_cached"]:
            eng.check(f"{name}#ensures.cached_value_returned_without_re-evaluation", outcome[0] == "return" and outcome[1] is v["_prev"] and len(calls) == 0)
            return
        if not v["_has"] or v["_still"]:
            eng.check(f"{name}#raises.AssertionError_on_missing_property_or_unfinished_evaluation", outcome[0] == "raise" and exc_name(outcome[1]) == "AssertionError")
            return
        eng.check(f"{name}#ensures.evaluated_exactly_once_in_the_context", outcome[0] == "return" and len(calls) == 1 and calls[0][1][0] is v["context"] and outcome[1] is v["_V"])
        from pyvc.builtins_model import IdToken

        got = v["_cache"].fields["storage"].get(IdToken(v["self"]))
        eng.check(f"{name}#ensures.result_cached_under_this_value", got is v["_V"])

    reg.add(
        C.Contract(
            f"{L}:LazilyEvaluable.evaluateIn",
            params=dict(self=C.Const(None), context=C.Const(None)),
            setup=setup_ev,
            post=post_ev,
            raises=[C.Raises("AssertionError", mode="may")],
            inline=["DefaultIdentityDict.__getitem__", "DefaultIdentityDict.__setitem__", "DefaultIdentityDict.__contains__"],
            replay=replay_evaluate_in,
            properties=("C05",),
        )
    )


def replay_delayed_operator(inputs, clause):
    from scenic.core.lazy_eval import DelayedArgument, LazilyEvaluable

    op = inputs.get("operator", "__add__")
    calls = []

    class E:
        pass

    e = E()

    def opf(*a, **k):
        calls.append((a, k))
        return "R"

    setattr(E, op, lambda self, *a, **k: opf(*a, **k))
    me = DelayedArgument(("a",), lambda ctx: e, _internal=True)
    arg = DelayedArgument(("b",), lambda ctx: "ctx(arg0)", _internal=True)
    args = () if op == "__neg__" else (arg,)
    res = getattr(DelayedArgument, op)(me, *args)
    ctx = LazilyEvaluable.makeContext(a=1, b=2)
    val = res.evaluateIn(ctx)
    want = () if op == "__neg__" else ("ctx(arg0)",)
    if not _same(val, "R") or len(calls) != 1 or not _same(tuple(calls[0][0]), want) or set(res._requiredProperties) != ({"a"} | ({"b"} if args else set())):
        return f"delayed {op}: value {val!r}, calls {calls!r}, required properties {res._requiredProperties!r}"
    return None


def make_replay_delayed_call(is_method):
    def replay(inputs, clause):
        from scenic.core.lazy_eval import DelayedArgument, LazilyEvaluable, makeDelayedFunctionCall

        kwn = ["beta", "alpha"][: int(inputs.get("n_keywords", 0))]
        calls = []

        def fn(*a, **k):
            calls.append((a, k))
            return "R"

        a0 = DelayedArgument(("b",), lambda ctx: "ctx(arg0)", _internal=True)
        kws = {n: DelayedArgument(("c", n), (lambda n: lambda ctx: "ctx(kw:%s)" % n)(n), _internal=True) for n in kwn}
        if is_method:
            me = DelayedArgument(("a",), lambda ctx: fn, _internal=True)
            res = me(a0, "plain", **kws)
        else:
            res = makeDelayedFunctionCall(fn, (a0, "plain"), kws)
        props = {"b"} | ({"a"} if is_method else set()) | {p for n in kwn for p in ("c", n)}
        ctx = LazilyEvaluable.makeContext(**{p: 1 for p in props})
        val = res.evaluateIn(ctx)
        wantkw = {n: "ctx(kw:%s)" % n for n in kwn}
        if not _same(val, "R") or len(calls) != 1 or not _same(tuple(calls[0][0]), ("ctx(arg0)", "plain")) or not _same(calls[0][1], wantkw) or set(res._requiredProperties) != props:
            return f"delayed call: value {val!r}, calls {calls!r} (expected ('ctx(arg0)', 'plain'), {wantkw!r}), required properties {res._requiredProperties!r} (expected {sorted(props)!r})"
        return None

    return replay


def replay_tuple_sample(inputs, clause):
    import collections

    from scenic.core.distributions import Distribution, TupleDistribution
    from scenic.core.utils import DefaultIdentityDict

    class Key(Distribution):
        def __init__(self):
            super().__init__()

    n, b = int(inputs.get("n", 3)), int(inputs.get("builder", 0))
    keys = [Key() for _ in range(n)]
    m = DefaultIdentityDict()
    for i, k in enumerate(keys):
        m[k] = f"v{i}"
    P = collections.namedtuple("P", [f"f{i}" for i in range(n)])
    builder = [tuple, list, P._make][b]
    res = TupleDistribution(*keys, builder=builder).sampleGiven(m)
    want = builder(f"v{i}" for i in range(n))
    if type(res) is not type(want) or list(res) != list(want):
        return f"TupleDistribution.sampleGiven built {res!r}, expected {want!r}"
    return None


def make_replay_custom_support(mod, fn, sup):
    def replay(inputs, clause):
        import importlib

        from scenic.core.distributions import underlyingFunction

        m = importlib.import_module(mod)
        ivs = _ivs_from(inputs, "arg")
        pts = [inputs.get(f"x{i}") for i in range(len(ivs))]
        lo, hi = getattr(m, sup)(*ivs)
        if any(p is None for p in pts) or not all(_inside(p, *iv) for p, iv in zip(pts, ivs)):
            return None
        v = underlyingFunction(getattr(m, fn))(*[float(p) for p in pts])
        if (lo is not None and v < lo - 1e-9) or (hi is not None and v > hi + 1e-9):
            return f"{mod}.{sup}{tuple(ivs)} = ({lo}, {hi}) but {fn}{tuple(pts)} = {v}"
        return None

    return replay


def replay_evaluate_in(inputs, clause):
    from scenic.core.lazy_eval import DelayedArgument, LazilyEvaluable

    calls = []
    d = DelayedArgument(("a",), lambda ctx: (calls.append(ctx), "evaluated")[1], _internal=True)
    ctx = LazilyEvaluable.makeContext(a=1)
    r1 = d.evaluateIn(ctx)
    r2 = d.evaluateIn(ctx)
    if r1 != "evaluated" or r2 != "evaluated" or len(calls) != 1 or calls[0] is not ctx:
        return f"a delayed value evaluated twice in the same context ran its evaluation {len(calls)} times (results {r1!r}, {r2!r}); expected exactly one evaluation, cached"
    return None


def replay_value_in_context(inputs, clause):
    from scenic.core.lazy_eval import DelayedArgument, LazilyEvaluable, valueInContext

    ctx = LazilyEvaluable.makeContext(a=1)
    d = DelayedArgument(("a",), lambda c: "evaluated", _internal=True)
    if valueInContext(d, ctx) != "evaluated":
        return "valueInContext of a delayed argument is not its evaluation in the context"
    calls = []

    class Settled(LazilyEvaluable):
        def __init__(self):
            super().__init__(())

        def evaluateIn(self, context):
            calls.append(context)
            return "re-evaluated"

    s = Settled()
    for plain in (s, 3.5, "text", None):
        r = valueInContext(plain, ctx)
        if r is not plain:
            return f"valueInContext({plain!r}) returned {r!r}; a value that needs no lazy evaluation must be returned unchanged"
    return None


def replay_operator_init(inputs, clause):
    from scenic.core.distributions import Distribution, OperatorDistribution

    class Key(Distribution):
        def __init__(self):
            super().__init__()

    op = inputs.get("op", "__add__")
    npos = 0 if op == "__neg__" else (2 if op == "__call__" else 1)
    kwn = ["beta", "alpha"] if op == "__call__" else []
    obj, ops, kws = Key(), [Key() for _ in range(npos)], {n: Key() for n in kwn}
    node = OperatorDistribution(op, obj, list(ops), dict(kws), valueType=object)
    if node.operator != op or node.object is not obj or not _same(tuple(node.operands), tuple(ops)) or not _same(dict(node.kwoperands), kws):
        return f"OperatorDistribution({op!r}, ...) recorded operator={node.operator!r}, operands={node.operands!r}, kwoperands={node.kwoperands!r}"
    if node.reverse != REFLECTED.get(op):
        return f"OperatorDistribution({op!r}, ...).reverse = {node.reverse!r}; Python's reflected method of {op} is {REFLECTED.get(op)!r}"
    want = [obj] + ops + [kws[n] for n in kwn]
    if not _same(list(node._dependencies), want):
        return f"dependencies {node._dependencies!r}, expected object, operands, keyword operands in order"
    return None
