"""Property fragment for C04 (overlap / containment tests agree with exact geometry relative to a kernel)."""

PROPERTIES = {
    "C04": dict(
        modules=["solids", "planar"],
        # the cached bounded footprint handed to the mesh/footprint arms must cover the requested slab for every history
        borrow=dict(modules=["regions"], match=["approxBoundFootprint"]),
        level="proof",
        claim=(
            "relative to the kernel axioms K-prism, K1-K8 (each written once, listed as trusted): every return of Object.intersects "
            "(TypeError guard, planar-box/planar-box and planar-box/PolygonalRegion fast paths decided exactly as `the two point sets share "
            "a point`, default = exhaustive test on the occupied spaces), of MeshVolumeRegion.intersects (volume/volume arm, passes 1-5) and of "
            "MeshVolumeRegion.containsObject (passes 1-5) agrees with overlap(self, other) / inside(obj, self); Object.minimumDistanceTo takes the planar fast path only "
            "when the planar distance of the bounding polygons is the gap of the two prisms (K9) and otherwise returns the exact distance of the occupied spaces; "
            "Object._isPlanarBox is true exactly for boxes whose GLOBAL pitch and roll are 0; the bounded footprint handed to the mesh/footprint arms covers the requested slab for every request history"
        ),
        note="the kernels themselves (FCL, trimesh booleans/proximity, shapely) are trusted; configurations within tolerance of touching are outside the statement",
        assumptions=["kernel axioms K-prism, K1-K8 (see trusted_base)"],
        not_reached=[
            "FCL / trimesh / shapely kernels (trusted)",
            "MeshVolumeRegion.intersects: MeshSurfaceRegion and PolygonalFootprintRegion arms; MeshSurfaceRegion.intersects",
            "Object._boundingPolygon (affine matrix), MeshVolumeRegion.minimumDistanceTo (FCL, trusted as exact), MeshVolumeRegion._interiorPoint/_interiorPointRadii/_bodyCount (the helper values are axiomatised); "
            "MeshVolumeRegion._circumradius is under contract for the arm without a precomputed shape and Shape._circumradius for the per-shape radius, but the scaling/rigid-transform step between them is not",
            "PolygonalFootprintRegion.containsObject, GridRegion.containsObject",
        ],
        bounded=["MeshVolumeRegion.containsObject: meshes of 2 vertices (symbolic coordinates)", "MeshVolumeRegion._circumradius: 2 vertices; Shape._circumradius: 2 vertices (symbolic coordinates)"],
    )
}
