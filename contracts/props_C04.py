"""Property fragment for C04 (overlap / containment tests agree with exact geometry relative to a kernel)."""

PROPERTIES = {
    "C04": dict(
        modules=["solids"],
        level="proof",
        claim="decision logic of the multi-pass overlap tests agrees with overlap(self, other) relative to the kernel axioms",
        note="see evidence.trusted_base",
        assumptions=[],
        not_reached=[],
    )
}
