"""Property fragment for C04 (overlap / containment tests agree with exact geometry relative to a kernel)."""

PROPERTIES = {
    "C04": dict(
        modules=["solids", "planar"],
        # the cached bounded footprint handed to the mesh/footprint arms must cover the requested slab for every history
        borrow=dict(modules=["regions"], match=["approxBoundFootprint"]),
        level="proof",
        claim=(
            "relative to the kernel axioms K-prism, K1-K8 (each written once, listed as trusted): every return of Object.intersects "
            "(TypeError guard, planar-box/planar-box and planar-box/PolygonalRegion fast paths decided exactly as `the two point sets share "
            "a point`, default = exhaustive test on the occupied spaces), of MeshVolumeRegion.intersects (volume/volume arm, passes 1-5) and of "
            "MeshVolumeRegion.containsObject (passes 1-5) agrees with overlap(self, other) / inside(obj, self); Object.minimumDistanceTo takes the planar fast path only "
            "when the planar distance of the bounding polygons is the gap of the two prisms (K9) and otherwise returns the exact distance of the occupied spaces; "
            "Object._isPlanarBox is true exactly for boxes whose GLOBAL pitch and roll are 0; the bounded footprint handed to the mesh/footprint arms covers the requested slab for every request history; "
            "Object._boundingPolygon of a planar box is the quadrilateral position + R(yaw) (+-w/2, +-l/2) (the polygon of K-prism), otherwise the projection of the occupied space; "
            "PolygonalFootprintRegion.containsObject (convex fast path, convex-hull quick accept, exact polygon) is true exactly when every point of the object's projection lies in the polygon; "
            "MeshVolumeRegion._circumradius bounds the distance of every mesh vertex from the position in all three arms (precomputed scaled shape; shape x largest dimension; vertex scan), the premise of K1"
        ),
        note="the kernels themselves (FCL, trimesh booleans/proximity, shapely) are trusted; configurations within tolerance of touching are outside the statement",
        assumptions=[
            "kernel axioms K-prism, K1-K8 (see trusted_base)",
            "K-hull: the projected convex hull of an object contains its exact bounding polygon",
            "A-rotation-norm: a rotation preserves the Euclidean norm; T-transform: MeshRegion.mesh = position + R (scale * input vertex), Shape meshes have unit extents, _scaledShape is the shape's mesh scaled to the object's dimensions at the origin",
            "G-affine: shapely.affinity.affine_transform maps a polygon to the polygon over the images of its vertices",
        ],
        not_reached=[
            "FCL / trimesh / shapely kernels (trusted)",
            "MeshVolumeRegion.intersects: MeshSurfaceRegion and PolygonalFootprintRegion arms; MeshSurfaceRegion.intersects",
            "MeshVolumeRegion.minimumDistanceTo (FCL, trusted as exact), MeshVolumeRegion._interiorPoint/_interiorPointRadii/_bodyCount (the helper values are axiomatised)",
            "MeshRegion.mesh / _transform / _shapeTransform (trimesh compose_matrix): how the final mesh is obtained from the precomputed one is the trusted statement T-transform used by the _circumradius contract; "
            "MeshRegion._boundingPolygonHull / _boundingPolygon (shapely convex hull, trimesh projection): kernels, related by K-hull",
            "GridRegion.containsObject",
        ],
        bounded=["MeshVolumeRegion.containsObject: meshes of 2 vertices (symbolic coordinates)", "MeshVolumeRegion._circumradius (all three arms): 2 vertices; Shape._circumradius: 2 vertices (symbolic coordinates)"],
    )
}
