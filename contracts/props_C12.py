"""Property fragment for C12 (see contracts/simulation_order.py)."""

PROPERTIES = {
    "C12": dict(
        modules=["simulation_order", "dyn_compile"],
        level="proof",
        claim="call-order automata over a ghost event trace, written from docs/reference/dynamic_scenarios.rst steps 1-10: one iteration of "
        "Simulation._run (loop invariant incl. trace clause; length relations of trajectory/actionSequence vs currentTime at the loop head and at "
        "every return); DynamicScenario._step / _runMonitors / _checkSimulationTerminationConditions; Behavior._step; counting contracts for "
        "`terminate after`, `do ... for` and maxSteps; DynamicScenario._invokeInner judged by trace rules (first step in the step of the invocation, one step per time step, return without waiting "
        "when the last sub-scenario ends, terminate simulation handed up at once); compiler shape of wait / terminate / terminate simulation / do / do-for / do-until (contracts/dyn_compile.py)",
        note="simulator, scenarios, agents' behaviors and monitors are modelled objects whose methods log events and return every documented kind of result",
        assumptions=["A1: durations in seconds are N / timestep over the reals (float effects such as 1.1/0.1 > 11 are not seen)"],
        not_reached=["simulator back ends", "the stuck-behavior alarm", "compiler: visit_WaitFor / visit_WaitUntil / visit_TerminateAfter and the @context decorator (which statement is legal where; exercised by the replay drivers of contracts/dyn_compile.py only); visit_DoChoose / visit_DoShuffle are under contract for C19 (contracts/compiler_do.py)", "Simulation.updateObjects (read-back of every dynamic property of every object: not attempted -- needs models for set() over a table of type objects and isinstance against type values; the position of the call in the step is covered by Simulation._run)"],
    )
}
