"""Property fragment for C12 (see contracts/simulation_order.py)."""

PROPERTIES = {
    "C12": dict(
        modules=["simulation_order"],
        level="proof",
        claim="call-order automata over a ghost event trace, written from docs/reference/dynamic_scenarios.rst steps 1-10: one iteration of "
        "Simulation._run (loop invariant incl. trace clause; length relations of trajectory/actionSequence vs currentTime at the loop head and at "
        "every return); DynamicScenario._step / _runMonitors / _checkSimulationTerminationConditions; Behavior._step; counting contracts for "
        "`terminate after`, `do ... for` and maxSteps",
        note="simulator, scenarios, agents' behaviors and monitors are modelled objects whose methods log events and return every documented kind of result",
        assumptions=["A1: durations in seconds are N / timestep over the reals (float effects such as 1.1/0.1 > 11 are not seen)"],
        not_reached=["simulator back ends", "the stuck-behavior alarm", "compiler: visit_Wait* / visit_Terminate* and the plain visit_Do / visit_DoFor / visit_DoUntil (visit_DoChoose / visit_DoShuffle with makeDoLike and generateInvocation inlined are under contract for C19, contracts/compiler_do.py)", "DynamicScenario._invokeInner (sub-scenario stepping generator)", "Simulation.updateObjects (read-back order)"],
    )
}
