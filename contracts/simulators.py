"""Sidecar contracts for scenic.core.simulators (C18 divergence test; C12/C14 parts are added separately)."""
from pyvc import contracts as C

from .common import VectorT

M = "scenic.core.simulators"


def register(reg):
    register_replay(reg)
    sim = C.Obj(f"{M}:Simulation", divergenceTolerance=C.Real(lo=0))
    # scalar dynamic properties
    reg.add(
        C.Contract(
            f"{M}:Simulation.valuesHaveDiverged",
            params=dict(self=sim, obj=C.Const("obj"), prop=C.Const("speed"), expected=C.Real(), actual=C.Real()),
            inline_all=True,
            ensures={
                # "differs from the recording by more than the tolerance in either direction"
                "scalar_either_direction": "result == (abs(actual - expected) > self.divergenceTolerance)",
            },
            replay=replay_diverged_scalar,
            properties=("C18",),
        )
    )
    reg.add(
        C.Contract(
            f"{M}:Simulation.valuesHaveDiverged",
            params=dict(self=sim, obj=C.Const("obj"), prop=C.Const("position"), expected=VectorT(), actual=VectorT()),
            inline_all=True,
            ensures={
                "vector_distance": "(result == True or result == False) and"
                " result == (dist2(actual, expected) > self.divergenceTolerance * self.divergenceTolerance)",
            },
            replay=replay_diverged_vector,
            properties=("C18",),
        ),
        key=f"{M}:Simulation.valuesHaveDiverged[vector]",
    )

    @reg.spec
    def dist2(a, b):
        ca, cb = a.fields["coordinates"], b.fields["coordinates"]
        s = 0
        for x, y in zip(ca, cb):
            s = s + (x - y) * (x - y)
        return s


def _sim(tol):
    from scenic.core.simulators import Simulation

    class S(Simulation):
        def __init__(self):
            self.divergenceTolerance = tol

        def createObjectInSimulator(self, obj):
            pass

        def step(self):
            pass

        def getProperties(self, obj, properties):
            return {}

    return S()


def replay_diverged_scalar(inputs, clause):
    tol = inputs["self"]["divergenceTolerance"]
    e, a = inputs["expected"], inputs["actual"]
    r = _sim(tol).valuesHaveDiverged(None, "speed", e, a)
    want = abs(a - e) > tol
    if bool(r) != want:
        return f"valuesHaveDiverged(expected={e}, actual={a}, tolerance={tol}) returned {r}, |difference| > tolerance is {want}"
    return None


def replay_diverged_vector(inputs, clause):
    from scenic.core.vectors import Vector

    tol = inputs["self"]["divergenceTolerance"]
    e, a = Vector(*inputs["expected"]), Vector(*inputs["actual"])
    r = _sim(tol).valuesHaveDiverged(None, "position", e, a)
    want = (a - e).norm() > tol
    if bool(r) != want:
        return f"valuesHaveDiverged(expected={e}, actual={a}, tolerance={tol}) returned {r}, distance > tolerance is {want}"
    return None


def register_replay(reg):
    """Recording / replaying of run-time random values (C18: "including random choices made during the run")."""
    from pyvc.interp import BuiltinFn
    from pyvc.values import Opaque, PObj

    def setup_rec(I, env):
        eng = I.eng
        log = []
        dist = PObj("Dist", tag="dist")
        dist.fields["serializeValue"] = BuiltinFn("serializeValue", lambda values, ser: log.append(("serialize", values, ser)))
        dist.fields["deserializeValue"] = BuiltinFn("deserializeValue", lambda ser, values: (log.append(("deserialize", ser, values)), Opaque("decoded"))[1])
        has_out = eng.choose(2, "recording enabled?") == 1
        out = PObj("Serializer", tag="replayOut") if has_out else None
        self = env.vars["self"]
        self.fields.update(_replayOut=out, _replayIn=PObj("Serializer", tag="replayIn"), replaying=eng.fresh_bool("replaying"), verbosity=0, currentTime=0)
        env.vars.update(dist=dist, values=Opaque("values"), _log=log, _out=out)

    def post_rec(I, env, outcome):
        eng, log, out = I.eng, env.vars["_log"], env.vars["_out"]
        name = "simulators.Simulation.recordSampledValue"
        if outcome[0] != "return":
            return
        if out is None:
            eng.check(f"{name}#ensures.nothing_written_without_a_recording", log == [])
        else:
            # every value drawn during the run is recorded -- also while an earlier recording is being replayed
            eng.check(f"{name}#ensures.value_recorded_once_whenever_recording_is_on", len(log) == 1 and log[0][0] == "serialize" and log[0][1] is env.vars["values"] and log[0][2] is out)

    reg.add(
        C.Contract(
            f"{M}:Simulation.recordSampledValue",
            params=dict(self=C.Obj(f"{M}:Simulation"), dist=C.Const(None), values=C.Const(None)),
            setup=setup_rec,
            post=post_rec,
            replay=replay_record,
            properties=("C18",),
        )
    )

    def post_rep(I, env, outcome):
        eng, log = I.eng, env.vars["_log"]
        name = "simulators.Simulation.replaySampledValue"
        if outcome[0] != "return":
            return
        eng.check(f"{name}#ensures.value_decoded_from_the_replay_input", len(log) == 1 and log[0][0] == "deserialize" and log[0][1] is env.vars["self"].fields["_replayIn"] and log[0][2] is env.vars["values"])

    reg.add(
        C.Contract(
            f"{M}:Simulation.replaySampledValue",
            params=dict(self=C.Obj(f"{M}:Simulation"), dist=C.Const(None), values=C.Const(None)),
            setup=setup_rec,
            post=post_rep,
            properties=("C18",),
        )
    )

    def setup_can(I, env):
        eng = I.eng
        self = env.vars["self"]
        at_end = eng.fresh_bool("replay_data_exhausted")
        rin = PObj("Serializer", tag="replayIn")
        rin.fields["atEnd"] = BuiltinFn("atEnd", lambda: at_end)
        rep = eng.fresh_bool("replaying")
        self.fields.update(_replayIn=rin, replaying=rep, verbosity=0, currentTime=0)
        env.vars.update(_at_end=at_end, _rep=rep)

    def post_can(I, env, outcome):
        from pyvc.values import sv_and, sv_not, tobool
        import z3

        eng = I.eng
        name = "simulators.Simulation.replayCanContinue"
        if outcome[0] != "return":
            return
        want = z3.And(tobool(env.vars["_rep"]), z3.Not(tobool(env.vars["_at_end"])))
        eng.check(f"{name}#ensures.true_iff_replaying_and_data_left", tobool(I.truth(outcome[1])) == want)
        eng.check(f"{name}#ensures.replaying_flag_updated", tobool(I.truth(env.vars["self"].fields["replaying"])) == want)

    reg.add(
        C.Contract(
            f"{M}:Simulation.replayCanContinue",
            params=dict(self=C.Obj(f"{M}:Simulation")),
            setup=setup_can,
            post=post_can,
            inline=["Simulation.detectReplayEnd"],
            properties=("C18",),
        )
    )


def replay_record(inputs, clause):
    """Real Simulation.recordSampledValue with a recording in progress, while replaying and while not."""
    for replaying in (False, True):
        sim = _sim(0)
        sim._replayOut = object()
        sim.replaying = replaying
        calls = []

        class Dist:
            def serializeValue(self, values, ser):
                calls.append((values, ser))

        sim.recordSampledValue(Dist(), "values")
        if len(calls) != 1 or calls[0][1] is not sim._replayOut:
            return f"recordSampledValue wrote {len(calls)} values to the recording (replaying={replaying}, recording on): a random value drawn during the run is missing from the saved replay"
    return None
