"""Sidecar contracts for scenic.core.simulators (C18 divergence test; C12/C14 parts are added separately)."""
from pyvc import contracts as C

from .common import VectorT

M = "scenic.core.simulators"


def register(reg):
    sim = C.Obj(f"{M}:Simulation", divergenceTolerance=C.Real(lo=0))
    # scalar dynamic properties
    reg.add(
        C.Contract(
            f"{M}:Simulation.valuesHaveDiverged",
            params=dict(self=sim, obj=C.Const("obj"), prop=C.Const("speed"), expected=C.Real(), actual=C.Real()),
            inline_all=True,
            ensures={
                # "differs from the recording by more than the tolerance in either direction"
                "scalar_either_direction": "result == (abs(actual - expected) > self.divergenceTolerance)",
            },
            replay=replay_diverged_scalar,
            properties=("C18",),
        )
    )
    reg.add(
        C.Contract(
            f"{M}:Simulation.valuesHaveDiverged",
            params=dict(self=sim, obj=C.Const("obj"), prop=C.Const("position"), expected=VectorT(), actual=VectorT()),
            inline_all=True,
            ensures={
                "vector_distance": "(result == True or result == False) and"
                " result == (dist2(actual, expected) > self.divergenceTolerance * self.divergenceTolerance)",
            },
            replay=replay_diverged_vector,
            properties=("C18",),
        ),
        key=f"{M}:Simulation.valuesHaveDiverged[vector]",
    )

    @reg.spec
    def dist2(a, b):
        ca, cb = a.fields["coordinates"], b.fields["coordinates"]
        s = 0
        for x, y in zip(ca, cb):
            s = s + (x - y) * (x - y)
        return s


def _sim(tol):
    from scenic.core.simulators import Simulation

    class S(Simulation):
        def __init__(self):
            self.divergenceTolerance = tol

        def createObjectInSimulator(self, obj):
            pass

        def step(self):
            pass

        def getProperties(self, obj, properties):
            return {}

    return S()


def replay_diverged_scalar(inputs, clause):
    tol = inputs["self"]["divergenceTolerance"]
    e, a = inputs["expected"], inputs["actual"]
    r = _sim(tol).valuesHaveDiverged(None, "speed", e, a)
    want = abs(a - e) > tol
    if bool(r) != want:
        return f"valuesHaveDiverged(expected={e}, actual={a}, tolerance={tol}) returned {r}, |difference| > tolerance is {want}"
    return None


def replay_diverged_vector(inputs, clause):
    from scenic.core.vectors import Vector

    tol = inputs["self"]["divergenceTolerance"]
    e, a = Vector(*inputs["expected"]), Vector(*inputs["actual"])
    r = _sim(tol).valuesHaveDiverged(None, "position", e, a)
    want = (a - e).norm() > tol
    if bool(r) != want:
        return f"valuesHaveDiverged(expected={e}, actual={a}, tolerance={tol}) returned {r}, distance > tolerance is {want}"
    return None
