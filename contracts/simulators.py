"""Sidecar contracts for scenic.core.simulators (C18 divergence test; C12/C14 parts are added separately)."""
from pyvc import contracts as C

from .common import VectorT

M = "scenic.core.simulators"


def register(reg):
    register_replay(reg)
    register_initialize_replay(reg)
    sim = C.Obj(f"{M}:Simulation", divergenceTolerance=C.Real(lo=0))
    # scalar dynamic properties
    reg.add(
        C.Contract(
            f"{M}:Simulation.valuesHaveDiverged",
            params=dict(self=sim, obj=C.Const("obj"), prop=C.Const("speed"), expected=C.Real(), actual=C.Real()),
            inline_all=True,
            ensures={
                # "differs from the recording by more than the tolerance in either direction"
                "scalar_either_direction": "result == (abs(actual - expected) > self.divergenceTolerance)",
            },
            replay=replay_diverged_scalar,
            properties=("C18",),
        )
    )
    reg.add(
        C.Contract(
            f"{M}:Simulation.valuesHaveDiverged",
            params=dict(self=sim, obj=C.Const("obj"), prop=C.Const("position"), expected=VectorT(), actual=VectorT()),
            inline_all=True,
            ensures={
                "vector_distance": "(result == True or result == False) and"
                " result == (dist2(actual, expected) > self.divergenceTolerance * self.divergenceTolerance)",
            },
            replay=replay_diverged_vector,
            properties=("C18",),
        ),
        key=f"{M}:Simulation.valuesHaveDiverged[vector]",
    )

    @reg.spec
    def dist2(a, b):
        ca, cb = a.fields["coordinates"], b.fields["coordinates"]
        s = 0
        for x, y in zip(ca, cb):
            s = s + (x - y) * (x - y)
        return s


def _sim(tol):
    from scenic.core.simulators import Simulation

    class S(Simulation):
        def __init__(self):
            self.divergenceTolerance = tol

        def createObjectInSimulator(self, obj):
            pass

        def step(self):
            pass

        def getProperties(self, obj, properties):
            return {}

    return S()


def replay_diverged_scalar(inputs, clause):
    tol = inputs["self"]["divergenceTolerance"]
    e, a = inputs["expected"], inputs["actual"]
    r = _sim(tol).valuesHaveDiverged(None, "speed", e, a)
    want = abs(a - e) > tol
    if bool(r) != want:
        return f"valuesHaveDiverged(expected={e}, actual={a}, tolerance={tol}) returned {r}, |difference| > tolerance is {want}"
    return None


def replay_diverged_vector(inputs, clause):
    from scenic.core.vectors import Vector

    tol = inputs["self"]["divergenceTolerance"]
    e, a = Vector(*inputs["expected"]), Vector(*inputs["actual"])
    r = _sim(tol).valuesHaveDiverged(None, "position", e, a)
    want = (a - e).norm() > tol
    if bool(r) != want:
        return f"valuesHaveDiverged(expected={e}, actual={a}, tolerance={tol}) returned {r}, distance > tolerance is {want}"
    return None


def register_replay(reg):
    """Recording / replaying of run-time random values (C18: "including random choices made during the run")."""
    from pyvc.interp import BuiltinFn
    from pyvc.values import Opaque, PObj

    def setup_rec(I, env):
        eng = I.eng
        log = []
        dist = PObj("Dist", tag="dist")
        dist.fields["serializeValue"] = BuiltinFn("serializeValue", lambda values, ser: log.append(("serialize", values, ser)))
        dist.fields["deserializeValue"] = BuiltinFn("deserializeValue", lambda ser, values: (log.append(("deserialize", ser, values)), Opaque("decoded"))[1])
        has_out = eng.choose(2, "recording enabled?") == 1
        out = PObj("Serializer", tag="replayOut") if has_out else None
        self = env.vars["self"]
        self.fields.update(_replayOut=out, _replayIn=PObj("Serializer", tag="replayIn"), replaying=eng.fresh_bool("replaying"), verbosity=0, currentTime=0)
        env.vars.update(dist=dist, values=Opaque("values"), _log=log, _out=out)

    def post_rec(I, env, outcome):
        eng, log, out = I.eng, env.vars["_log"], env.vars["_out"]
        name = "simulators.Simulation.recordSampledValue"
        if outcome[0] != "return":
            return
        if out is None:
            eng.check(f"{name}#ensures.nothing_written_without_a_recording", log == [])
        else:
            # every value drawn during the run is recorded -- also while an earlier recording is being replayed
            eng.check(f"{name}#ensures.value_recorded_once_whenever_recording_is_on", len(log) == 1 and log[0][0] == "serialize" and log[0][1] is env.vars["values"] and log[0][2] is out)

    reg.add(
        C.Contract(
            f"{M}:Simulation.recordSampledValue",
            params=dict(self=C.Obj(f"{M}:Simulation"), dist=C.Const(None), values=C.Const(None)),
            setup=setup_rec,
            post=post_rec,
            replay=replay_record,
            properties=("C18",),
        )
    )

    def post_rep(I, env, outcome):
        eng, log = I.eng, env.vars["_log"]
        name = "simulators.Simulation.replaySampledValue"
        if outcome[0] != "return":
            return
        eng.check(f"{name}#ensures.value_decoded_from_the_replay_input", len(log) == 1 and log[0][0] == "deserialize" and log[0][1] is env.vars["self"].fields["_replayIn"] and log[0][2] is env.vars["values"])

    reg.add(
        C.Contract(
            f"{M}:Simulation.replaySampledValue",
            params=dict(self=C.Obj(f"{M}:Simulation"), dist=C.Const(None), values=C.Const(None)),
            setup=setup_rec,
            post=post_rep,
            properties=("C18",),
        )
    )

    def setup_can(I, env):
        eng = I.eng
        self = env.vars["self"]
        at_end = eng.fresh_bool("replay_data_exhausted")
        rin = PObj("Serializer", tag="replayIn")
        rin.fields["atEnd"] = BuiltinFn("atEnd", lambda: at_end)
        rep = eng.fresh_bool("replaying")
        self.fields.update(_replayIn=rin, replaying=rep, verbosity=0, currentTime=0)
        env.vars.update(_at_end=at_end, _rep=rep)

    def post_can(I, env, outcome):
        from pyvc.values import sv_and, sv_not, tobool
        import z3

        eng = I.eng
        name = "simulators.Simulation.replayCanContinue"
        if outcome[0] != "return":
            return
        want = z3.And(tobool(env.vars["_rep"]), z3.Not(tobool(env.vars["_at_end"])))
        eng.check(f"{name}#ensures.true_iff_replaying_and_data_left", tobool(I.truth(outcome[1])) == want)
        eng.check(f"{name}#ensures.replaying_flag_updated", tobool(I.truth(env.vars["self"].fields["replaying"])) == want)

    reg.add(
        C.Contract(
            f"{M}:Simulation.replayCanContinue",
            params=dict(self=C.Obj(f"{M}:Simulation")),
            setup=setup_can,
            post=post_can,
            inline=["Simulation.detectReplayEnd"],
            properties=("C18",),
        )
    )


def replay_record(inputs, clause):
    """Real Simulation.recordSampledValue with a recording in progress, while replaying and while not."""
    for replaying in (False, True):
        sim = _sim(0)
        sim._replayOut = object()
        sim.replaying = replaying
        calls = []

        class Dist:
            def serializeValue(self, values, ser):
                calls.append((values, ser))

        sim.recordSampledValue(Dist(), "values")
        if len(calls) != 1 or calls[0][1] is not sim._replayOut:
            return f"recordSampledValue wrote {len(calls)} values to the recording (replaying={replaying}, recording on): a random value drawn during the run is missing from the saved replay"
    return None


# ===================================================================================================
# Simulation.initializeReplay: what the recording's header says is decided by THIS run's options only


def register_initialize_replay(reg):
    """C18: an encoded simulation replays to the same thing.  The header of the recording announces whether per-step
    divergence data follow; it must agree with what this run writes (`_writeDivergenceData`), whatever the header of a
    replay that is being played back at the same time says."""
    import z3

    from pyvc.interp import BuiltinFn
    from pyvc.values import PObj, SV, compare, tobool

    from .common import repo_class

    def setup(I, env):
        eng = I.eng
        made = []

        def serializer(*args, **kw):
            s = PObj("Serializer", tag=f"serializer{len(made)}")
            s.fields["_args"], s.fields["_kw"] = args, kw
            s.fields["_header_written"] = []
            in_flags = eng.fresh_int("flags_in_the_header_of_the_replay_being_played")
            eng.assume(compare(">=", in_flags, 0))
            eng.assume(compare("<=", in_flags, 1))
            s.fields["_in_flags"] = in_flags
            s.fields["readReplayHeader"] = BuiltinFn("readReplayHeader", lambda: in_flags)
            s.fields["writeReplayHeader"] = BuiltinFn("writeReplayHeader", lambda flags: s.fields["_header_written"].append(flags))
            made.append(s)
            return s

        reg.constructors[f"scenic.core.serialization:Serializer"] = lambda I_, cls, args, kw: serializer(*args, **kw)
        install_replay_mode(reg)
        has_replay = eng.choose(2, "a replay is played back?") == 1
        enable = eng.choose(2, "recording enabled?") == 1
        check = eng.choose(2, "divergence checking enabled for the recording?") == 1
        eng.input_syms.append(("options", C.Const(None), dict(replay=has_replay, enableReplay=enable, enableDivergenceCheck=check)))
        self = PObj(repo_class(f"{M}:Simulation"), tag="simulation")
        env.vars.update(self=self, replay=(b"recorded" if has_replay else None), enableReplay=enable, enableDivergenceCheck=check, allowPickle=False, _made=made, _opts=(has_replay, enable, check))

    def install_replay_mode(reg):
        """ReplayMode(enum.IntFlag) with the single member checkDivergence = 1: flag sets are the integers themselves."""
        from pyvc import builtins_model as bm
        from pyvc.values import PyvcError, arith, sv_ite

        xm = reg.extra_modules = getattr(reg, "extra_modules", None) or {}
        xm["enum"] = bm.NativeModule("enum", {"auto": BuiltinFn("auto", lambda: 1), "IntFlag": object, "Enum": object})
        reg.constructors[f"{M}:ReplayMode"] = lambda I_, cls, args, kw: args[0]
        is_int = lambda v: (isinstance(v, int) and not isinstance(v, bool)) or (isinstance(v, SV) and z3.is_int(v.e))

        def flag_contains(I_, container, x):
            if is_int(container) and x == 1:
                return compare("==", arith("%", container, 2), 1)
            raise PyvcError("`in` not modelled")

        def flag_or(I_, sym, a, b):
            if sym is None and is_int(a) and b == 1:  # a | checkDivergence
                return sv_ite(compare("==", arith("%", a, 2), 1), a, arith("+", a, 1))
            raise PyvcError("binary operator not modelled")

        reg.contains_fallback = flag_contains
        reg.binop_fallback = flag_or

    def post(I, env, outcome):
        eng = I.eng
        name = "simulators.Simulation.initializeReplay"
        if outcome[0] != "return":
            eng.check(f"{name}#no_exception", False)
            return
        self, made = env.vars["self"], env.vars["_made"]
        has_replay, enable, check = env.vars["_opts"]
        f = self.fields
        eng.check(f"{name}#ensures.replaying_iff_a_replay_was_given", f.get("replaying") is has_replay)
        ins = [s for s in made if s is f.get("_replayIn")]
        outs = [s for s in made if s is f.get("_replayOut")]
        if has_replay:
            ok = len(ins) == 1 and ins[0].fields["_args"][:1] == (b"recorded",)
            eng.check(f"{name}#ensures.input_serializer_reads_the_given_replay", ok)
            if ok:
                want = ins[0].fields["_in_flags"]
                got = f.get("_checkDivergence")
                eng.check(f"{name}#ensures.divergence_checked_iff_the_played_replay_carries_divergence_data", tobool(I.truth(got)) == tobool(compare("==", want, 1)))
        if enable:
            ok = len(outs) == 1 and outs[0].fields["_args"] == () and len(outs[0].fields["_header_written"]) == 1
            eng.check(f"{name}#ensures.one_header_written_to_a_fresh_output_serializer", ok)
            eng.check(f"{name}#ensures.divergence_data_written_iff_enabled", f.get("_writeDivergenceData") is check)
            if ok:
                flags = outs[0].fields["_header_written"][0]
                # the header announces divergence data exactly when this run writes them
                eng.check(f"{name}#ensures.header_of_the_recording_announces_divergence_data_iff_this_run_writes_them", compare("==", flags, 1 if check else 0))
        else:
            eng.check(f"{name}#ensures.no_recording_without_enableReplay", f.get("_replayOut") is None and all(not s.fields["_header_written"] for s in made))

    def replay(inputs, clause):
        """Three generations on the real DummySimulator: record with divergence data, play that back while recording
        WITHOUT divergence data, then play the second recording back: it must replay to the same result."""
        import scenic
        from scenic.core.simulators import DummySimulator

        src = "behavior B():\n    while True:\n        take 1\n        x = Range(0, 1)\nego = new Object with behavior B\nterminate after 3 steps\n"
        for first_check, second_check in ((True, False), (False, True), (True, True), (False, False)):
            sc = scenic.scenarioFromString(src, mode2D=True)
            scene, _ = sc.generate()
            simr = DummySimulator(drift=1)
            s1 = simr.simulate(scene, maxSteps=5, enableReplay=True, enableDivergenceCheck=first_check)
            try:
                s2 = simr.replay(scene, s1.getReplay(), maxSteps=5, enableReplay=True, enableDivergenceCheck=second_check)
                s3 = simr.replay(scene, s2.getReplay(), maxSteps=5)
            except Exception as e:
                return f"recording made with enableDivergenceCheck={first_check}, played back while recording with enableDivergenceCheck={second_check}: replaying the second recording raised {type(e).__name__}: {e}"
            t1, t3 = s1.result.trajectory, s3.result.trajectory
            if s3.result.terminationReason != s1.result.terminationReason or len(t1) != len(t3) or any(a != b for a, b in zip(t1, t3)):
                return f"recording made with enableDivergenceCheck={first_check}, re-recorded with {second_check}: the second recording does not replay to the same trajectory"
        return None

    reg.add(
        C.Contract(
            f"{M}:Simulation.initializeReplay",
            params=dict(self=C.Const(None), replay=C.Const(None), enableReplay=C.Const(None), enableDivergenceCheck=C.Const(None), allowPickle=C.Const(None)),
            setup=setup,
            post=post,
            replay=replay,
            properties=("C18",),
        )
    )
    reg.trust("Serializer (constructed inside initializeReplay)", "record of its constructor arguments; readReplayHeader returns the flags of the replay being played (0 or 1: the only flag is checkDivergence), writeReplayHeader is logged; the header codecs have their own contracts")
