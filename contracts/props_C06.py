"""Property fragment for C06 (see pyvc/GUIDE.md)."""

PROPERTIES = {
    "C06": dict(
        modules=["specifiers"],
        level="proof",
        claim="specifier resolution: an ORDER-INDEPENDENT postcondition taken from the property statement and the reference "
        "(winner = unique minimum priority number, altered by the modifying specifier iff it does not win and may modify, class "
        "default otherwise; SpecifierError iff tie among non-modifying specifiers / final property specified / cyclic dependencies / "
        "dependency without provider; every specifier evaluated at most once and only when its dependencies already have their final "
        "value) is checked on the real Constructible._resolveSpecifiers for EVERY permutation of the input list on bounded worlds with "
        "symbolic integer priorities, plus a relational instance running two orders in one path; topological-order contract of the "
        "nested dfs for arbitrary consistent initial colourings; Specifier / ModifyingSpecifier constructors, PropertyDefault.resolveFor "
        "and the default merging of Constructible.__init_subclass__ (inherited / additive / dynamic / final); every built-in specifier "
        "constructor of veneer.py, per kind of argument, against the entry parsed mechanically from docs/reference/specifiers.rst at "
        "registration time (properties, priorities, dependencies, modifies)",
        note="bounded in the number of specifiers/properties (stated per contract), exact in the priorities; property values are identity "
        "tokens (their geometric meaning is C07); before the fix commits two defects failed obligations and replayed: tie detection depended "
        "on the order (F6) and a modifying specifier could specify a final property; the reference-table contracts include lazily evaluated "
        "arguments (directly, or as a component of a tuple/list) for Facing, With and At: the specifier must depend on every property its argument needs",
        assumptions=[
            "at most one modifying specifier per object (the reference: `on` is the only one; the same specifier twice is rejected by name)",
            "reference-table contracts: coercions (toVector/toType/...), ego, RelativeTo/OffsetAlong, Region.uniformPointIn, Orientation.fromEuler "
            "and all operations on abstract geometric argument values are trusted total stubs; isA/canCoerce/underlyingType decide by the declared "
            "kind of the abstract argument using the real class hierarchy",
            "Constructible.__init_subclass__: classes are heap models (issubclass / super(cls, cls) / cls._resolveSpecifiers(()) for type inference of "
            "dynamic properties are modelled in the contract)",
            "library models: collections.Counter / defaultdict, types.SimpleNamespace, object.__setattr__ (pyvc/models_spec.py)",
        ],
        bounded=[
            "_resolveSpecifiers priority worlds: 3 non-modifying specifiers | 2 + one modifying | 1 + one modifying with a final property; properties p, q (+ defaults p, q, d, final f); all permutations",
            "_resolveSpecifiers dependency worlds: 3 non-modifying + 1 modifying specifier, 4 properties + one without provider, every subset of 7 candidate dependency edges, all 24 permutations",
            "dfs: 4 specifiers, every subset of 7 candidate dependencies, optional modified property, three families of initial colourings",
            "Specifier/ModifyingSpecifier.__init__: 2 properties, 3 forms of value, dependency subsets; resolveFor: 0-2 overridden defaults; __init_subclass__: 3-level hierarchy + mixin",
        ],
        not_reached=[
            "2-D mode class swapping and OrientedPoint2D._prepareSpecifiers (With(heading) -> Facing), covered by C14's global-state contracts",
            "unbounded (symbolic-length) version of the phase-1 loop with a loop invariant (Appendix B sketch): not done; the bounded worlds are exhaustive in priorities and orders only up to 3 non-modifying specifiers",
            "more than one modifying specifier (not expressible with built-in specifiers); note: 'modified twice' would raise NameError (undefined `name` in the message), observed on the real code",
            "internal properties (leading underscore: _observingEntity, _nonObservingEntity) are not part of the reference and are excluded from the table comparison",
            "lazily evaluated arguments of the other constructors: on the real code FacingToward / FacingAwayFrom / FacingDirectly* / ApparentlyFacing / left of ... below "
            "do NOT add the dependencies of a lazily evaluated vector/heading argument to the specifier (observed with a DelayedArgument requiring `width`); "
            "OffsetBy / Beyond / Following / OffsetAlongSpec with such arguments need the lazy-operator layer (C05) and are not modelled here",
        ],
    ),
}
