"""Property fragment for C06 (see pyvc/GUIDE.md)."""

PROPERTIES = {
    "C06": dict(
        modules=["specifiers"],
        level="proof",
        claim="specifier resolution: order-independent postcondition (winner = unique minimum priority number, at most one "
        "modifying specifier, class default otherwise, SpecifierError iff tie / final property / cycle / missing dependency, "
        "every specifier evaluated once and only after its dependencies are final) proved for every permutation of the input "
        "list on bounded worlds with symbolic priorities; topological order of the nested dfs; Specifier / ModifyingSpecifier / "
        "PropertyDefault constructors and default merging; every built-in specifier constructor agrees with the entry parsed "
        "from docs/reference/specifiers.rst",
        note="bounded in the number of specifiers/properties (stated per contract), exact in the priorities; values are identity tokens",
        assumptions=[],
        not_reached=["2-D mode class swapping (C14)"],
    ),
}
