"""Sidecar contracts for the region samplers of scenic.core.regions (C03): points drawn in/on a region lie in it.

Oracle (property statement): a drawn point is a member of the region (all three coordinates); for composed regions
a member of every operand (intersection), of A and not of B (difference), of the chosen operand (union, with the
multiplicity rejection `u >= 1 - 1/k`, k = number of operands containing the point); discrete regions draw
`points[i]` with i = randrange(0, n); every `circumcircle` used to pre-filter candidate points encloses its region.

Form: RNG-trace contracts (which primitives are drawn with which arguments, result as a function of the draws) +
membership of the result in the point set denoted by the region (see contracts/regions.py: mem3).
Uniformity of the continuous samplers is the classical change-of-variables fact for these traces and is NOT proved."""
import math

import z3

from pyvc import contracts as C
from pyvc import models_shapely as MS
from pyvc.engine import PathEnd
from pyvc.interp import BuiltinFn, SymRaise
from pyvc.values import PExc, PList, PObj, SSeq, SV, arith, compare, sv_and, sv_implies, sv_ite, sv_not, sv_or, tobool, toz3

from .common import make_vector, repo_class
from .regions import RC, RG, dist3sq, iff, init_samplable, install_stubs, mk_circular, mk_polygonal, mk_rectangular, sq

_R = z3.RealSort()
PI = math.pi


def coords(v):
    return v.fields["coordinates"]


def ensure_choice(I):
    """random.choice(seq): one draw of an index in [0, len(seq)) (A3), logged as ('choice', (seq,), index)."""
    rnd = I.modules["random"]
    if "choice" in rnd.attrs:
        return
    eng = I.eng

    def choice(seq):
        items = I.iterate(seq)
        if not items:
            I.raise_("IndexError", "Cannot choose from an empty sequence")
        idx = eng.fresh_int("choice")
        eng.assume(sv_and(compare("<=", 0, idx), compare("<", idx, len(items))))
        eng.rng_trace.append(("choice", (tuple(items),), idx))
        for i in range(len(items)):
            if eng.branch(tobool(compare("==", idx, i))):
                return items[i]
        raise PathEnd()

    rnd.attrs["choice"] = BuiltinFn("random.choice", choice)


def register(reg):
    install_stubs(reg)
    reg.trust("A3", "laws of the library RNG primitives: random() in [0,1), uniform(a,b) in [a,b], triangular(lo,hi,mode) in [lo,hi], randrange(a,b) uniform on a..b-1, choices(pop, weights) proportional to the weights, choice(seq) uniform on seq")
    register_circumcircles(reg)
    register_pointset(reg)
    register_primitive_samplers(reg)
    register_generic_samplers(reg)
    register_grid(reg)
    register_polygon_sampling(reg)
    register_line_samplers(reg)
    register_grid_membership(reg)


# ===================================================================================================
# circumcircles enclose their regions


def check_encloses(I, oname, circ, member, p):
    eng = I.eng
    ok = isinstance(circ, tuple) and len(circ) == 2 and isinstance(circ[0], PObj) and "coordinates" in circ[0].fields
    eng.check(f"{oname}#ensures.circumcircle_is_a_centre_and_a_radius", ok)
    if ok:
        c, r = coords(circ[0]), circ[1]
        eng.check(f"{oname}#ensures.circumcircle_encloses_every_member", sv_implies(member, sv_and(compare(">=", r, 0), compare("<=", dist3sq(p, c), sq(r)))))
    return ok


def direction(I, theta):
    """Unit vector with Scenic heading theta (0 = +Y, counter-clockwise): (-sin theta, cos theta)."""
    return (arith("-", 0, MS.sin(I, theta)), MS.cos(I, theta))


def register_circumcircles(reg):
    # the polygons built by the constructors are not needed for the circumcircle obligations
    reg.models[f"{RG}:CircularRegion._makePolygons"] = lambda I, center, radius, resolution=32: MS.disc_geom(I, coords(center)[0], coords(center)[1], radius)
    reg.models[f"{RG}:SectorRegion._makePolygons"] = lambda I, *a, **k: MS.make_geom(I, "Polygon", empty=False, tag="sector")
    reg.models[f"{RG}:RectangularRegion._makePolygons"] = lambda I, *a, **k: MS.make_geom(I, "Polygon", empty=False, tag="rectangle")
    reg.trust("_makePolygons", "stubs: the shapely polygons built by Circular/Sector/RectangularRegion.__init__ approximate the disc / sector / rectangle (not used by the circumcircle obligations)")

    def fresh_vec(I, name):
        eng = I.eng
        c = tuple(eng.fresh_real(f"{name}.{k}") for k in "xyz")
        eng.input_syms.append((name, C.TupleOf(C.Real(), C.Real(), C.Real()), c))
        return make_vector(*c), c

    def fresh_pos(I, name, lo=None):
        v = I.eng.fresh_real(name)
        if lo is not None:
            I.eng.assume(compare(">", v, lo))
        I.eng.input_syms.append((name, C.Real(), v))
        return v

    # ---------------------------------------------------------------- CircularRegion
    def setup_c(I, env):
        eng = I.eng
        center, c = fresh_vec(I, "center")
        radius = fresh_pos(I, "radius", 0)
        S = PObj(RC("CircularRegion"), tag="self")
        p = tuple(eng.fresh_real(f"p.{k}") for k in "xyz")
        eng.input_syms.append(("p", C.TupleOf(C.Real(), C.Real(), C.Real()), p))
        member = sv_and(compare("<=", arith("+", sq(arith("-", p[0], c[0])), sq(arith("-", p[1], c[1]))), sq(radius)), compare("==", p[2], c[2]))
        env.vars.update(self=S, center=center, radius=radius, _p=p, _member=member)

    def post_circ(oname):
        def post(I, env, outcome):
            if outcome[0] != "return":
                return
            S = env.vars["self"]
            check_encloses(I, oname, S.fields.get("circumcircle"), env.vars["_member"], env.vars["_p"])

        return post

    reg.add(C.Contract(f"{RG}:CircularRegion.__init__", params=dict(self=C.Const(None), center=C.Const(None), radius=C.Const(None)), setup=setup_c, post=post_circ("regions.CircularRegion.__init__"), inline_all=True, properties=("C03",)))

    # ---------------------------------------------------------------- SectorRegion (F18)
    def setup_s(I, env):
        eng = I.eng
        center, c = fresh_vec(I, "center")
        radius = fresh_pos(I, "radius", 0)
        heading = fresh_pos(I, "heading")
        angle = fresh_pos(I, "angle", 0)
        eng.assume(compare("<=", angle, math.tau))
        S = PObj(RC("SectorRegion"), tag="self")
        # a member in polar form: centre + rho * dir(heading + u), 0 <= rho <= radius, |u| <= angle/2, at the centre's height
        which = eng.choose(2, "member: generic / arc midpoint")
        rho, u = eng.fresh_real("rho"), eng.fresh_real("u")
        if which == 1:
            eng.assume(sv_and(compare("==", rho, radius), compare("==", u, 0)))
        elif which == 2:
            eng.assume(sv_and(compare("==", rho, 0), compare("==", u, 0)))
        eng.input_syms.append(("rho", C.Real(), rho))
        eng.input_syms.append(("u", C.Real(), u))
        half = arith("/", angle, 2)
        d = direction(I, arith("+", heading, u) if which == 0 else heading)
        p = (arith("+", c[0], arith("*", rho, d[0])), arith("+", c[1], arith("*", rho, d[1])), c[2])
        member = sv_and(compare("<=", 0, rho), compare("<=", rho, radius), compare("<=", arith("-", 0, half), u), compare("<=", u, half))
        env.vars.update(self=S, center=center, radius=radius, heading=heading, angle=angle, _p=p, _member=member, _which=which)

    def post_s(I, env, outcome):
        if outcome[0] != "return":
            return
        S = env.vars["self"]
        suffix = {0: "", 1: "[arc midpoint]", 2: "[apex]"}[env.vars["_which"]]
        eng = I.eng
        circ = S.fields.get("circumcircle")
        ok = isinstance(circ, tuple) and len(circ) == 2 and isinstance(circ[0], PObj) and "coordinates" in circ[0].fields
        eng.check("regions.SectorRegion.__init__#ensures.circumcircle_is_a_centre_and_a_radius", ok)
        if ok:
            c, r = coords(circ[0]), circ[1]
            p = env.vars["_p"]
            eng.check(f"regions.SectorRegion.__init__#ensures.circumcircle_encloses_every_member{suffix}", sv_implies(env.vars["_member"], sv_and(compare(">=", r, 0), compare("<=", dist3sq(p, c), sq(r)))))

    def replay_s(inputs, clause):
        import warnings

        warnings.filterwarnings("ignore")
        from scenic.core.regions import SectorRegion
        from scenic.core.vectors import Vector

        c = [float(x) for x in inputs["center"]]
        R, h, a = float(inputs["radius"]), float(inputs["heading"]), float(inputs["angle"])
        S = SectorRegion(Vector(*c), R, h, a)
        cc, rr = S.circumcircle
        for rho, u in ((R, 0.0), (R, a / 2 * 0.999), (R / 2, -a / 4), (float(inputs.get("rho", R)), float(inputs.get("u", 0.0)))):
            if not (0 <= rho <= R and abs(u) <= a / 2):
                continue
            p = Vector(c[0] - rho * math.sin(h + u), c[1] + rho * math.cos(h + u), c[2])
            if rho < R * 0.999 and abs(u) < a / 2 * 0.99 and rho > 1e-9 and not S.containsPoint(p):
                continue
            d = p.distanceTo(cc)
            if d > rr + 1e-9:
                return f"SectorRegion(centre {tuple(c)}, radius {R}, heading {h}, angle {a}): member {tuple(p)} is at distance {d:.6g} from the circumcircle centre {tuple(cc)} but the circumcircle radius is {rr:.6g}"
        return None

    reg.add(C.Contract(f"{RG}:SectorRegion.__init__", params=dict(self=C.Const(None), center=C.Const(None), radius=C.Const(None), heading=C.Const(None), angle=C.Const(None)), setup=setup_s, post=post_s, inline_all=True, replay=replay_s, properties=("C03",)))

    # ---------------------------------------------------------------- RectangularRegion
    def setup_r(I, env):
        eng = I.eng
        position, c = fresh_vec(I, "position")
        heading = fresh_pos(I, "heading")
        width, length = fresh_pos(I, "width", 0), fresh_pos(I, "length", 0)
        S = PObj(RC("RectangularRegion"), tag="self")
        rx, ry = eng.fresh_real("rx"), eng.fresh_real("ry")
        eng.input_syms.append(("local", C.TupleOf(C.Real(), C.Real()), (rx, ry)))
        cs, sn = MS.cos(I, heading), MS.sin(I, heading)
        rot = lambda x, y: (arith("+", c[0], arith("-", arith("*", cs, x), arith("*", sn, y))), arith("+", c[1], arith("+", arith("*", sn, x), arith("*", cs, y))), c[2])
        hw, hl = arith("/", width, 2), arith("/", length, 2)
        member = sv_and(compare("<=", arith("-", 0, hw), rx), compare("<=", rx, hw), compare("<=", arith("-", 0, hl), ry), compare("<=", ry, hl))
        env.vars.update(self=S, position=position, heading=heading, width=width, length=length, _p=rot(rx, ry), _member=member, _rot=rot, _h=(hw, hl))

    def post_r(I, env, outcome):
        eng = I.eng
        if outcome[0] != "return":
            return
        S = env.vars["self"]
        oname = "regions.RectangularRegion.__init__"
        check_encloses(I, oname, S.fields.get("circumcircle"), env.vars["_member"], env.vars["_p"])
        # the stored corners are position + Rot(heading) (+-hw, +-hl) (used by AABB)
        corners = S.fields.get("corners")
        hw, hl = env.vars["_h"]
        rot = env.vars["_rot"]
        ok = isinstance(corners, tuple) and len(corners) == 4
        eng.check(f"{oname}#ensures.four_corners", ok)
        if ok:
            want = [rot(a, b) for a, b in ((hw, hl), (arith("-", 0, hw), hl), (arith("-", 0, hw), arith("-", 0, hl)), (hw, arith("-", 0, hl)))]
            eng.check(f"{oname}#ensures.corners_are_position_plus_rotated_half_extents", sv_and(*[compare("==", a, b) for cr, w in zip(corners, want) for a, b in zip(coords(cr), w)]))
        eng.check(f"{oname}#ensures.half_extents", sv_and(compare("==", S.fields.get("hw"), hw), compare("==", S.fields.get("hl"), hl)))

    reg.add(C.Contract(f"{RG}:RectangularRegion.__init__", params=dict(self=C.Const(None), position=C.Const(None), heading=C.Const(None), width=C.Const(None), length=C.Const(None)), setup=setup_r, post=post_r, inline_all=True, properties=("C03", "C16")))

    # ---------------------------------------------------------------- MeshRegion.circumcircle
    def setup_m(I, env):
        eng = I.eng
        S = PObj(RC("MeshVolumeRegion"), tag="self")
        init_samplable(S)
        mesh = MS.make_mesh(I, "mesh")
        S.fields.update(mesh=mesh, orientation=None, name=None)
        p = tuple(eng.fresh_real(f"p.{k}") for k in "xyz")
        eng.input_syms.append(("p", C.TupleOf(C.Real(), C.Real(), C.Real()), p))
        env.vars.update(self=S, _p=p, _member=mesh.fields["_mem3"](*p))

    def post_m(I, env, outcome):
        if outcome[0] != "return":
            return
        eng = I.eng
        oname = "regions.MeshRegion.circumcircle"
        circ, p, member = outcome[1], env.vars["_p"], env.vars["_member"]
        mesh = env.vars["self"].fields["mesh"]
        if isinstance(circ, tuple) and len(circ) == 2 and isinstance(circ[0], PObj) and "coordinates" in circ[0].fields:
            # per-axis lemma (proved, then used): a member deviates from the centre by at most half the extent
            for k, ax in enumerate("xyz"):
                h = arith("/", arith("-", mesh.fields["_hi"][k], mesh.fields["_lo"][k]), 2)
                lem = sv_implies(member, compare("<=", sq(arith("-", p[k], coords(circ[0])[k])), sq(h)))
                eng.check(f"{oname}#lemma.member_within_half_extent_of_the_centre_along_{ax}", lem)
                eng.assume(lem)
        check_encloses(I, oname, circ, member, p)

    reg.add(C.Contract(f"{RG}:MeshRegion.circumcircle", params=dict(self=C.Const(None)), setup=setup_m, post=post_m, inline_all=True, properties=("C03",)))


# ===================================================================================================
# PointSetRegion: discrete law, point-set x region sampler


def register_pointset(reg):
    # ---------------------------------------------------------------- uniformPointInner
    def setup_u(I, env):
        eng = I.eng
        n = eng.fresh_int("n")
        eng.assume(compare(">=", n, 1))  # class invariant: the constructor rejects an empty point list
        eng.input_syms.append(("n", C.Int(), n))
        fx, fy, fz = (z3.Function(f"points.{k}", z3.IntSort(), _R) for k in "xyz")
        elem = lambda i: tuple(SV(f(toz3(i)), True) for f in (fx, fy, fz))
        S = PObj(RC("PointSetRegion"), tag="self")
        init_samplable(S)
        S.fields.update(points=SSeq(n, elem, "list", "points"), orientation=None, name="ps")
        env.vars.update(self=S, _n=n, _elem=elem)

    def post_u(I, env, outcome):
        eng = I.eng
        oname = "regions.PointSetRegion.uniformPointInner"
        if outcome[0] != "return":
            return
        tr = eng.rng_trace
        ok = len(tr) == 1 and tr[0][0] == "randrange"
        eng.check(f"{oname}#rng.exactly_one_randrange", ok)
        if not ok:
            return
        lo, hi = tr[0][1]
        eng.check(f"{oname}#rng.randrange_over_all_indices_0_to_n", sv_and(compare("==", lo, 0), compare("==", hi, env.vars["_n"])))
        res = outcome[1]
        okv = isinstance(res, PObj) and "coordinates" in res.fields
        eng.check(f"{oname}#ensures.returns_a_vector", okv)
        if okv:
            want = env.vars["_elem"](tr[0][2])
            eng.check(f"{oname}#ensures.result_is_the_drawn_point", sv_and(*[compare("==", a, b) for a, b in zip(coords(res), want)]))

    reg.add(C.Contract(f"{RG}:PointSetRegion.uniformPointInner", params=dict(self=C.Const(None)), setup=setup_u, post=post_u, inline_all=True, raises=[], properties=("C03",)))

    # ---------------------------------------------------------------- the sampler closure of PointSetRegion.intersect
    N = 2

    def mk_world(I):
        eng = I.eng
        ensure_choice(I)
        pts = [[eng.fresh_real(f"pt{i}.{k}") for k in "xyz"] for i in range(N)]
        for i, pt in enumerate(pts):
            eng.input_syms.append((f"pt{i}", C.TupleOf(C.Real(), C.Real(), C.Real()), tuple(pt)))
        S = PObj(RC("PointSetRegion"), tag="self")
        init_samplable(S)
        tree = PObj("KDTree", tag="kdTree")
        tree.fields["data"] = MS.NDArr((N, 3), pts)
        ball_calls = []

        def query_ball_point(center, radius):
            c = coords(center) if isinstance(center, PObj) else tuple(I.iterate(center))
            ball_calls.append((c, radius))
            out = []
            for i, pt in enumerate(pts):
                if eng.branch(tobool(compare("<=", dist3sq(pt, c), sq(radius)))):
                    out.append(i)
            return PList(out)

        tree.fields["query_ball_point"] = BuiltinFn("query_ball_point", query_ball_point)
        S.fields.update(kdTree=tree, orientation=None, name="ps")
        return S, pts

    reg.trust("scipy.spatial.KDTree.query_ball_point", "query_ball_point(c, r) returns exactly the indices of the tree's points within distance r of c (radius >= 0)")

    def setup_s(I, env):
        eng = I.eng
        S, pts = env.vars["_S"], env.vars["_pts"]
        kind = ["region with a circumcircle", "plain PolygonalRegion"][eng.choose(2, "class of the other region")]
        eng.input_syms.append(("other", C.Const(None), kind))
        inside = [eng.fresh_bool(f"pt{i}_in_other") for i in range(N)]
        if kind.startswith("plain"):
            o = mk_polygonal(I, "other")
        else:
            o = PObj("AbstractRegion", tag="other")
            init_samplable(o)
            cc = tuple(eng.fresh_real(f"cc.{k}") for k in "xyz")
            rr = eng.fresh_real("cc.radius")
            o.fields["circumcircle"] = (make_vector(*cc), rr)
            # precondition of the sampler, discharged at every class that defines `circumcircle` (contracts above):
            for i, pt in enumerate(pts):
                eng.assume(sv_implies(inside[i], sv_and(compare(">=", rr, 0), compare("<=", dist3sq(pt, cc), sq(rr)))))

        def contains(pt):
            c = coords(pt)
            for i, q in enumerate(pts):
                if all(a is b for a, b in zip(c, q)):
                    return inside[i]
            raise Exception("containsPoint asked for a point that is not in the set")

        o.fields["containsPoint"] = BuiltinFn("containsPoint", contains)
        o.fields.setdefault("orientation", None)
        inter = PObj(RC("IntersectionRegion"), tag="intRegion")
        init_samplable(inter)
        inter.fields.update(regions=(S, o), orientation=None, name=None)
        env.vars.update(intRegion=inter, _inside=inside, _kind=kind)

    def closure_env(I):
        S, pts = mk_world(I)
        closure_env.last = (S, pts)
        return dict(self=S, _S=S, _pts=pts)

    def setup_s_outer(I, env):
        S, pts = closure_env.last
        env.vars["_S"], env.vars["_pts"] = S, pts
        setup_s(I, env)

    def post_s(I, env, outcome):
        eng = I.eng
        oname = "regions.PointSetRegion.intersect.sampler"
        inside, pts = env.vars["_inside"], env.vars["_pts"]
        # on this path every `inside[i]` has been decided (or the point was filtered out by the ball query)
        if outcome[0] == "raise":
            if getattr(outcome[1].cls, "name", "") == "RejectionException":
                eng.check(f"{oname}#raises.RejectionException.only_if_no_point_of_the_set_lies_in_the_other_region", sv_and(*[sv_not(b) for b in inside]))
            return
        res = outcome[1]
        tr = eng.rng_trace
        ok = len(tr) == 1 and tr[0][0] == "choice"
        eng.check(f"{oname}#rng.exactly_one_choice", ok)
        if not ok:
            return
        cands = tr[0][1][0]
        # candidates = exactly the points of the set that lie in the other region, in index order
        member_idx = []
        for c in cands:
            k = [i for i, q in enumerate(pts) if all(a is b for a, b in zip(coords(c), q))]
            member_idx.append(k[0] if k else None)
        eng.check(f"{oname}#rng.candidates_are_points_of_the_set_in_the_other_region", all(k is not None for k in member_idx) and sv_and(*[inside[k] for k in member_idx if k is not None]))
        eng.check(f"{oname}#rng.every_point_of_the_set_in_the_other_region_is_a_candidate", sv_and(*[sv_not(inside[i]) for i in range(N) if i not in member_idx]))
        eng.check(f"{oname}#ensures.result_is_the_chosen_candidate", any(res is c for c in cands))

    def replay_s(inputs, clause):
        import warnings

        warnings.filterwarnings("ignore")
        from scenic.core.regions import PointSetRegion, PolygonalRegion

        ps = PointSetRegion("ps", [(x, y, 0) for x in range(-10, 11, 2) for y in range(0, 11, 2)])
        P = PolygonalRegion([(0, 0), (4, 0), (4, 4), (0, 4)])
        ps.intersect(P).uniformPointInner()  # AttributeError: 'PolygonalRegion' object has no attribute 'circumcircle'
        return None

    c = C.Contract(
        f"{RG}:PointSetRegion.intersect.sampler",
        params=dict(intRegion=C.Const(None)),
        setup=setup_s_outer,
        post=post_s,
        closure_env=closure_env,
        raises=[C.Raises("RejectionException", mode="may")],
        inline_all=True,
        replay=replay_s,
        bounded=True,
        note="bounded: point set of 2 points (symbolic coordinates and membership)",
        properties=("C03",),
    )
    reg.add(c)


# ===================================================================================================
# primitive planar samplers: rng trace + membership


def register_primitive_samplers(reg):
    # ---------------------------------------------------------------- RectangularRegion
    def setup_r(I, env):
        A, (p, member) = mk_rectangular(I)
        A.fields["orientation"] = None
        env.vars.update(self=A)

    def post_r(I, env, outcome):
        eng = I.eng
        oname = "regions.RectangularRegion.uniformPointInner"
        if outcome[0] != "return":
            return
        A, res = env.vars["self"], outcome[1]
        tr = eng.rng_trace
        ok = len(tr) == 2 and all(t[0] == "uniform" for t in tr)
        eng.check(f"{oname}#rng.two_uniform_draws", ok)
        if not ok:
            return
        hw, hl = A.fields["hw"], A.fields["hl"]
        eng.check(f"{oname}#rng.draws_span_the_half_extents", sv_and(compare("==", tr[0][1][0], arith("-", 0, hw)), compare("==", tr[0][1][1], hw), compare("==", tr[1][1][0], arith("-", 0, hl)), compare("==", tr[1][1][1], hl)))
        rx, ry = tr[0][2], tr[1][2]
        pos, h = coords(A.fields["position"]), A.fields["heading"]
        c, s = MS.cos(I, h), MS.sin(I, h)
        want = (arith("+", pos[0], arith("-", arith("*", c, rx), arith("*", s, ry))), arith("+", pos[1], arith("+", arith("*", s, rx), arith("*", c, ry))), pos[2])
        okv = isinstance(res, PObj) and "coordinates" in res.fields
        eng.check(f"{oname}#ensures.returns_a_vector", okv)
        if okv:
            # member: position + Rot(heading)(rx, ry) with |rx| <= hw, |ry| <= hl, at the rectangle's height
            eng.check(f"{oname}#ensures.point_is_position_plus_rotated_local_offset", sv_and(*[compare("==", a, b) for a, b in zip(coords(res), want)]))
            eng.check(f"{oname}#ensures.local_offset_within_half_extents", sv_and(compare("<=", arith("-", 0, hw), rx), compare("<=", rx, hw), compare("<=", arith("-", 0, hl), ry), compare("<=", ry, hl)))
            eng.check(f"{oname}#ensures.point_at_the_height_of_the_region", compare("==", coords(res)[2], A.fields["z"]))

    reg.add(C.Contract(f"{RG}:RectangularRegion.uniformPointInner", params=dict(self=C.Const(None)), setup=setup_r, post=post_r, inline_all=True, properties=("C03",)))

    # ---------------------------------------------------------------- CircularRegion / SectorRegion
    def setup_c(sector):
        def setup(I, env):
            eng = I.eng
            A = mk_circular(I)
            A.fields["orientation"] = None
            if sector:
                A.cls = RC("SectorRegion")
                h, a = eng.fresh_real("self.heading"), eng.fresh_real("self.angle")
                eng.assume(sv_and(compare(">", a, 0), compare("<=", a, math.tau)))
                A.fields.update(heading=h, angle=a)
            env.vars.update(self=A)

        return setup

    def post_c(sector):
        oname = f"regions.{'SectorRegion' if sector else 'CircularRegion'}.uniformPointInner"

        def post(I, env, outcome):
            eng = I.eng
            if outcome[0] != "return":
                return
            A, res = env.vars["self"], outcome[1]
            tr = eng.rng_trace
            ok = len(tr) == 2 and tr[0][0] == "triangular" and tr[1][0] == "uniform"
            eng.check(f"{oname}#rng.triangular_then_uniform", ok)
            if not ok:
                return
            R = A.fields["radius"]
            lo, hi, mode = tr[0][1]
            eng.check(f"{oname}#rng.radius_drawn_triangular_0_R_mode_R", sv_and(compare("==", lo, 0), compare("==", hi, R), compare("==", mode, R)))
            a0, a1 = tr[1][1]
            if sector:
                half = arith("/", A.fields["angle"], 2)
                eng.check(f"{oname}#rng.angle_drawn_uniform_over_the_sector", sv_and(compare("==", a0, arith("-", 0, half)), compare("==", a1, half)))
            else:
                eng.check(f"{oname}#rng.angle_drawn_uniform_over_the_full_turn", sv_and(compare("==", a0, -PI), compare("==", a1, PI)))
            r, u = tr[0][2], tr[1][2]
            okv = isinstance(res, PObj) and "coordinates" in res.fields
            eng.check(f"{oname}#ensures.returns_a_vector", okv)
            if not okv:
                return
            c = coords(A.fields["center"])
            x, y, z = coords(res)
            if sector:
                # polar form about the heading: centre + r * dir(heading + u), 0 <= r <= R, |u| <= angle/2
                d = (arith("-", 0, MS.sin(I, arith("+", A.fields["heading"], u))), MS.cos(I, arith("+", A.fields["heading"], u)))
                eng.check(f"{oname}#ensures.point_is_centre_plus_r_times_direction_heading_plus_u", sv_and(compare("==", x, arith("+", c[0], arith("*", r, d[0]))), compare("==", y, arith("+", c[1], arith("*", r, d[1])))))
                half = arith("/", A.fields["angle"], 2)
                eng.check(f"{oname}#ensures.polar_coordinates_within_the_sector", sv_and(compare("<=", 0, r), compare("<=", r, R), compare("<=", arith("-", 0, half), u), compare("<=", u, half)))
            eng.check(f"{oname}#ensures.point_within_radius_of_the_centre", compare("<=", arith("+", sq(arith("-", x, c[0])), sq(arith("-", y, c[1]))), sq(R)))
            eng.check(f"{oname}#ensures.point_at_the_height_of_the_region", compare("==", z, A.fields["z"]))

        return post

    reg.add(C.Contract(f"{RG}:CircularRegion.uniformPointInner", params=dict(self=C.Const(None)), setup=setup_c(False), post=post_c(False), inline_all=True, properties=("C03",)))
    reg.add(C.Contract(f"{RG}:SectorRegion.uniformPointInner", params=dict(self=C.Const(None)), setup=setup_c(True), post=post_c(True), inline_all=True, properties=("C03",)))


# ===================================================================================================
# generic samplers of composed regions


def mk_sampled_operand(I, tag, answers, dims=True):
    """An operand region: `uniformPointInner` returns a fresh point / rejects / is undefined; `_trueContainsPoint(p)`
    is an unknown Boolean per (operand, point).  An operand's own sampler returns one of its members (this property, assumed
    for the operands: assume-guarantee)."""
    eng = I.eng
    o = PObj("AbstractRegion", tag=tag)
    init_samplable(o)
    o.fields.update(orientation=None, name=tag)
    draws = []
    o.fields["_draws"] = draws

    def sample():
        k = eng.choose(3, f"{tag}.uniformPointInner: point / rejection / undefined")
        if k == 1:
            raise SymRaise(PExc(repo_class("scenic.core.distributions:RejectionException"), ("rejected",)))
        if k == 2:
            raise SymRaise(PExc(RC("UndefinedSamplingException"), ("undefined",)))
        pt = make_vector(*[eng.fresh_real(f"{tag}.sample.{c}") for c in "xyz"])
        pt.source = o
        draws.append(pt)
        eng.rng_trace.append(("operand-draw", (tag,), pt))
        answers[(tag, id(pt))] = True  # member of the operand it was drawn from
        return pt

    def contains(pt):
        key = (tag, id(pt))
        if key not in answers:
            answers[key] = eng.fresh_bool(f"{tag}.contains")
        return answers[key]

    o.fields["uniformPointInner"] = BuiltinFn("uniformPointInner", sample)
    o.fields["_trueContainsPoint"] = BuiltinFn("_trueContainsPoint", contains)
    return o


def register_generic_samplers(reg):
    def dim_of(I, tag, allow_none=True):
        eng = I.eng
        if allow_none and eng.choose(2, f"{tag}.dimensionality known?") == 0:
            return None
        d = eng.fresh_int(f"{tag}.dimensionality")
        eng.assume(sv_and(compare(">=", d, 0), compare("<=", d, 3)))
        return d

    # ---------------------------------------------------------------- IntersectionRegion.genericSampler
    def setup_i(I, env):
        ans = {}
        regs = [mk_sampled_operand(I, t, ans) for t in ("A", "B")]
        for r in regs:
            r.fields["dimensionality"] = dim_of(I, r.tag)
        S = PObj(RC("IntersectionRegion"), tag="intersection")
        init_samplable(S)
        S.fields.update(regions=tuple(regs), orientation=None, name=None, sampler=None)
        env.vars.update(intersection=S, _ans=ans, _regs=regs)

    def post_i(I, env, outcome):
        eng = I.eng
        oname = "regions.IntersectionRegion.genericSampler"
        regs, ans = env.vars["_regs"], env.vars["_ans"]
        if outcome[0] == "raise":
            return
        res = outcome[1]
        drawn = [p for r in regs for p in r.fields["_draws"]]
        ok = any(res is p for p in drawn)
        eng.check(f"{oname}#ensures.result_was_drawn_from_an_operand", ok)
        if ok:
            eng.check(f"{oname}#ensures.result_is_a_member_of_every_operand", sv_and(*[ans.get((r.tag, id(res)), False) for r in regs]))
            src = res.source
            d = src.fields["dimensionality"]
            others = [r.fields["dimensionality"] for r in regs if r.fields["dimensionality"] is not None]
            if d is not None:
                eng.check(f"{oname}#ensures.drawn_from_an_operand_of_minimal_known_dimension", sv_and(*[compare("<=", d, o) for o in others]))

    reg.add(
        C.Contract(
            f"{RG}:IntersectionRegion.genericSampler",
            params=dict(intersection=C.Const(None)),
            setup=setup_i,
            post=post_i,
            raises=[C.Raises("RejectionException", mode="may"), C.Raises("UndefinedSamplingException", mode="may")],
            inline_all=True,
            bounded=True,
            note="bounded: two operands",
            properties=("C03",),
        )
    )

    # ---------------------------------------------------------------- DifferenceRegion.genericSampler
    def setup_d(I, env):
        ans = {}
        A, B = mk_sampled_operand(I, "A", ans), mk_sampled_operand(I, "B", ans)
        S = PObj(RC("DifferenceRegion"), tag="difference")
        init_samplable(S)
        S.fields.update(regionA=A, regionB=B, orientation=None, name=None, sampler=None)
        env.vars.update(difference=S, _ans=ans, _A=A, _B=B)

    def post_d(I, env, outcome):
        eng = I.eng
        oname = "regions.DifferenceRegion.genericSampler"
        A, B, ans = env.vars["_A"], env.vars["_B"], env.vars["_ans"]
        if outcome[0] == "raise":
            if getattr(outcome[1].cls, "name", "") == "RejectionException" and A.fields["_draws"]:
                p = A.fields["_draws"][0]
                eng.check(f"{oname}#raises.RejectionException.only_if_the_drawn_point_lies_in_B", ans.get(("B", id(p)), False))
            return
        res = outcome[1]
        ok = len(A.fields["_draws"]) == 1 and res is A.fields["_draws"][0] and not B.fields["_draws"]
        eng.check(f"{oname}#ensures.result_is_the_single_draw_from_A", ok)
        if ok:
            eng.check(f"{oname}#ensures.result_is_in_A_and_not_in_B", sv_and(ans[("A", id(res))], sv_not(ans.get(("B", id(res)), True))))

    reg.add(C.Contract(f"{RG}:DifferenceRegion.genericSampler", params=dict(difference=C.Const(None)), setup=setup_d, post=post_d, raises=[C.Raises("RejectionException", mode="may"), C.Raises("UndefinedSamplingException", mode="may")], inline_all=True, properties=("C03",)))

    # ---------------------------------------------------------------- UnionRegion.genericSampler
    def setup_un(I, env):
        eng = I.eng
        ans = {}
        n = 2 + eng.choose(2, "two or three operands")
        regs = [mk_sampled_operand(I, t, ans) for t in ("A", "B", "C")[:n]]
        for r in regs:
            r.fields["dimensionality"] = dim_of(I, r.tag, allow_none=False)
            k = eng.choose(3, f"{r.tag}.size: finite / None / inf")
            if k == 0:
                s = eng.fresh_real(f"{r.tag}.size")
                eng.assume(compare(">", s, 0))
                r.fields["size"] = s
            else:
                from pyvc.values import Infinity

                r.fields["size"] = None if k == 1 else Infinity(1)
        S = PObj(RC("UnionRegion"), tag="union")
        init_samplable(S)
        S.fields.update(regions=tuple(regs), orientation=None, name=None, sampler=None)
        env.vars.update(union=S, _ans=ans, _regs=regs)

    def post_un(I, env, outcome):
        eng = I.eng
        oname = "regions.UnionRegion.genericSampler"
        regs, ans = env.vars["_regs"], env.vars["_ans"]
        tr = eng.rng_trace
        dims = [r.fields["dimensionality"] for r in regs]
        if outcome[0] == "raise":
            cn = getattr(outcome[1].cls, "name", "")
            if cn == "RejectionException" and len(tr) == 3:
                pt = tr[1][2]
                eng.check(f"{oname}#ensures.containment_of_the_point_is_asked_of_every_operand", all((r.tag, id(pt)) in ans for r in regs))
                k = count_containing(regs, ans, pt)
                u = tr[2][2]
                eng.check(f"{oname}#raises.RejectionException.only_if_u_below_1_minus_1_over_multiplicity", compare("<", arith("*", u, k), arith("-", k, 1)))
            return
        res = outcome[1]
        ok = len(tr) == 3 and tr[0][0] == "choices" and tr[1][0] == "operand-draw" and tr[2][0] == "random"
        eng.check(f"{oname}#rng.choices_then_operand_draw_then_random", ok)
        if not ok:
            return
        pop, cum = tr[0][1]
        idx = tr[0][2]
        # the population: exactly the operands of maximal dimension, weighted by their sizes
        is_large = lambda r: sv_and(*[compare(">=", r.fields["dimensionality"], d) for d in dims])
        eng.check(f"{oname}#rng.population_is_the_operands_of_maximal_dimension", sv_and(*[(is_large(r) if any(r is q for q in pop) else sv_not(is_large(r))) for r in regs]))
        pref, acc = [], 0
        for r in pop:
            acc = arith("+", acc, r.fields["size"])
            pref.append(acc)
        eng.check(f"{oname}#rng.weights_are_the_operand_sizes", len(cum) == len(pop) and sv_and(*[compare("==", a, b) for a, b in zip(cum, pref)]))
        pt = tr[1][2]
        chosen = [i for i, r in enumerate(pop) if r is pt.source]
        eng.check(f"{oname}#ensures.point_drawn_from_the_chosen_operand", len(chosen) == 1 and compare("==", idx, chosen[0]))
        eng.check(f"{oname}#ensures.result_is_the_drawn_point", res is pt)
        # the multiplicity is taken over ALL operands (not only those of maximal dimension): each one is asked
        eng.check(f"{oname}#ensures.containment_of_the_point_is_asked_of_every_operand", all((r.tag, id(pt)) in ans for r in regs))
        k = count_containing(regs, ans, pt)
        u = tr[2][2]
        # accepted iff u >= 1 - 1/k, k = number of operands (all of them, not only the large ones) containing the point
        eng.check(f"{oname}#ensures.accepted_only_if_u_at_least_1_minus_1_over_multiplicity", compare(">=", arith("*", u, k), arith("-", k, 1)))
        eng.check(f"{oname}#ensures.multiplicity_counts_every_operand", sv_and(compare(">=", k, 1), compare("<=", k, len(regs))))

    def count_containing(regs, ans, pt):
        k = 0
        for r in regs:
            b = ans.get((r.tag, id(pt)))
            if b is True:
                k = arith("+", k, 1)
            elif b is not None and b is not False:
                k = arith("+", k, SV(z3.If(tobool(b), z3.IntVal(1), z3.IntVal(0))))
        return k

    def replay_un(inputs, clause):
        """The real UnionRegion.genericSampler on unions of real polygons (same plane / different planes / three operands)
        with the acceptance draw scripted; the multiplicity of each drawn point is recomputed with shapely at the
        operand's own height (a point can be produced by an operand only if it lies in that operand's plane)."""
        import random

        import shapely.geometry as sg

        from scenic.core.distributions import RejectionException
        from scenic.core.regions import PolygonalRegion, UnionRegion

        sq = lambda x0, y0, x1, y1: [(x0, y0), (x1, y0), (x1, y1), (x0, y1)]
        cases = [
            ("two overlapping squares in the plane z = 0", [(sq(0, 0, 2, 2), 0), (sq(1, 0, 3, 2), 0)]),
            ("the same square at z = 0 and at z = 5", [(sq(0, 0, 2, 2), 0), (sq(0, 0, 2, 2), 5)]),
            ("three squares, two in the plane z = 0 and one at z = 3", [(sq(0, 0, 2, 2), 0), (sq(1, 1, 3, 3), 0), (sq(0, 0, 3, 3), 3)]),
        ]
        real_random = random.random
        try:
            for name, ops in cases:
                regs = [PolygonalRegion(pts, z=z) for pts, z in ops]
                polys = [(sg.Polygon(pts), z) for pts, z in ops]
                U = UnionRegion(*regs)
                for i in range(60):
                    u = (0.25, 0.75, 0.6, 0.4)[i % 4]
                    random.seed(1000 + i)
                    random.random = lambda u=u: u
                    try:
                        pt = UnionRegion.genericSampler(U)
                        rejected = False
                    except RejectionException:
                        rejected = True
                    finally:
                        random.random = real_random
                    # recompute the drawn point (same seed, no scripted value needed before the acceptance draw)
                    random.seed(1000 + i)
                    target = random.choices(tuple(regs), weights=tuple(r.size for r in regs))[0]
                    p = target.uniformPointInner()
                    k = sum(1 for poly, z in polys if abs(p.z - z) < 1e-9 and poly.buffer(1e-9).contains(sg.Point(p.x, p.y)))
                    want = u < 1 - 1 / k
                    if rejected != want:
                        return f"union of {name}: point {tuple(round(c, 4) for c in p)} can be produced by {k} operand(s), acceptance draw u = {u}: the sample was {'rejected' if rejected else 'accepted'}, but it is rejected exactly when u < 1 - 1/{k}"
        finally:
            random.random = real_random
        return None

    reg.add(
        C.Contract(
            f"{RG}:UnionRegion.genericSampler",
            params=dict(union=C.Const(None)),
            setup=setup_un,
            post=post_un,
            replay=replay_un,
            raises=[C.Raises("RejectionException", mode="may"), C.Raises("UndefinedSamplingException", mode="may")],
            inline_all=True,
            bounded=True,
            note="bounded: two or three operands (symbolic dimensions, sizes, containment answers)",
            properties=("C03",),
        )
    )


# ===================================================================================================
# GridRegion: affine map between grid indices and points


def py_round(I):
    """Python's round(x) for reals: nearest integer, ties to even."""

    def rnd(x, nd=None):
        if nd is not None:
            raise Exception("round(x, n) not modelled")
        if not isinstance(x, SV):
            return round(x)
        xr = toz3(x, want_real=True)
        f = z3.ToInt(xr)
        d = xr - z3.ToReal(f)
        half = z3.RealVal("1/2")
        return SV(z3.If(d < half, f, z3.If(d > half, f + 1, z3.If(f % 2 == 0, f, f + 1))), False)

    return BuiltinFn("round", rnd)


def register_grid(reg):
    def mk_grid(I):
        eng = I.eng
        S = PObj(RC("GridRegion"), tag="self")
        init_samplable(S)
        v = {n: eng.fresh_real(n) for n in ("Ax", "Ay", "Bx", "By")}
        eng.assume(sv_and(compare(">", v["Ax"], 0), compare(">", v["Ay"], 0)))  # spacings
        sx, sy = eng.fresh_int("sizeX"), eng.fresh_int("sizeY")
        eng.assume(sv_and(compare(">=", sx, 1), compare(">=", sy, 1)))
        for n in v:
            eng.input_syms.append((n, C.Real(), v[n]))
        eng.input_syms.append(("sizeX", C.Int(), sx))
        eng.input_syms.append(("sizeY", C.Int(), sy))
        S.fields.update(sizeX=sx, sizeY=sy, orientation=None, name="grid", **v)
        return S, v, sx, sy

    def setup_g2p(I, env):
        eng = I.eng
        S, v, sx, sy = mk_grid(I)
        gx, gy = eng.fresh_int("gx"), eng.fresh_int("gy")
        env.vars.update(self=S, gp=(gx, gy), _v=v, _g=(gx, gy))

    def post_g2p(I, env, outcome):
        if outcome[0] != "return":
            return
        v, (gx, gy), res = env.vars["_v"], env.vars["_g"], outcome[1]
        ok = isinstance(res, tuple) and len(res) == 2
        I.eng.check("regions.GridRegion.gridToPoint#ensures.returns_a_pair", ok)
        if ok:
            I.eng.check("regions.GridRegion.gridToPoint#ensures.affine_map", sv_and(compare("==", res[0], arith("+", arith("*", v["Ax"], gx), v["Bx"])), compare("==", res[1], arith("+", arith("*", v["Ay"], gy), v["By"]))))

    reg.add(C.Contract(f"{RG}:GridRegion.gridToPoint", params=dict(self=C.Const(None), gp=C.Const(None)), setup=setup_g2p, post=post_g2p, inline_all=True, properties=("C03",)))

    def setup_p2g(roundtrip):
        def setup(I, env):
            eng = I.eng
            S, v, sx, sy = mk_grid(I)
            if roundtrip:
                gx, gy = eng.fresh_int("gx"), eng.fresh_int("gy")
                eng.assume(sv_and(compare("<=", 0, gx), compare("<", gx, sx), compare("<=", 0, gy), compare("<", gy, sy)))
                p = (arith("+", arith("*", v["Ax"], gx), v["Bx"]), arith("+", arith("*", v["Ay"], gy), v["By"]), eng.fresh_real("p.z"))
                env.vars["_g"] = (gx, gy)
            else:
                p = tuple(eng.fresh_real(f"p.{k}") for k in "xyz")
                eng.input_syms.append(("p", C.TupleOf(C.Real(), C.Real(), C.Real()), p))
            env.vars.update(self=S, point=make_vector(*p), _v=v, _p=p, _size=(sx, sy))

        return setup

    def post_p2g(roundtrip):
        oname = "regions.GridRegion.pointToGrid"

        def post(I, env, outcome):
            eng = I.eng
            if outcome[0] != "return":
                return
            res, v, p, (sx, sy) = outcome[1], env.vars["_v"], env.vars["_p"], env.vars["_size"]
            if roundtrip:
                gx, gy = env.vars["_g"]
                ok = isinstance(res, tuple) and len(res) == 2
                eng.check(f"{oname}#ensures.round_trip_pointToGrid_of_gridToPoint_is_identity", ok and sv_and(compare("==", res[0], gx), compare("==", res[1], gy)))
                return
            fx = arith("/", arith("-", p[0], v["Bx"]), v["Ax"])
            fy = arith("/", arith("-", p[1], v["By"]), v["Ay"])
            if res is None:
                # no grid cell: the nearest index is out of range in x or in y
                nx, ny = eng.fresh_int("nx"), eng.fresh_int("ny")
                near = lambda f, n: sv_and(compare("<=", arith("-", f, n), 0.5), compare("<=", arith("-", n, f), 0.5))
                inr = sv_and(compare("<=", 0, nx), compare("<", nx, sx), compare("<=", 0, ny), compare("<", ny, sy))
                strictly = lambda f, n: sv_and(compare("<", arith("-", f, n), 0.5), compare("<", arith("-", n, f), 0.5))
                eng.check(f"{oname}#ensures.none_only_if_no_cell_is_strictly_nearest", sv_not(sv_and(inr, strictly(fx, nx), strictly(fy, ny))))
                return
            ok = isinstance(res, tuple) and len(res) == 2
            eng.check(f"{oname}#ensures.returns_a_pair_or_none", ok)
            if ok:
                nx, ny = res
                eng.check(f"{oname}#ensures.index_in_range", sv_and(compare("<=", 0, nx), compare("<", nx, sx), compare("<=", 0, ny), compare("<", ny, sy)))
                eng.check(f"{oname}#ensures.index_is_the_nearest_grid_point", sv_and(compare("<=", arith("-", fx, nx), 0.5), compare("<=", arith("-", nx, fx), 0.5), compare("<=", arith("-", fy, ny), 0.5), compare("<=", arith("-", ny, fy), 0.5)))

        return post

    for rt in (False, True):
        c = C.Contract(f"{RG}:GridRegion.pointToGrid", params=dict(self=C.Const(None), point=C.Const(None)), setup=setup_p2g(rt), post=post_p2g(rt), inline_all=True, properties=("C03",))
        c.env = LazyEnv()
        reg.add(c, key=f"{RG}:GridRegion.pointToGrid" + ("[roundtrip]" if rt else ""))


class LazyEnv(dict):
    """contract-level name `round` -> model of Python's round (needs the interpreter: resolved at first use)."""

    def __contains__(self, k):
        return k == "round"

    def __getitem__(self, k):
        if k == "round":
            return py_round(None)
        raise KeyError(k)


# ===================================================================================================
# PolygonalRegion: triangulation, sampling data, sampler

GEO = "scenic.core.geometry"


def polygon_catalogue():
    """(group, name, exterior, holes) -- triangles, convex and concave quadrilaterals in every vertex rotation and both
    windings, larger concave polygons, polygons with holes."""
    out = []

    def variants(group, name, ext, holes=()):
        n = len(ext)
        for w, pts in (("ccw", list(ext)), ("cw", list(reversed(ext)))):
            for r in range(n):
                out.append((group, f"{name}/{w}/start{r}", pts[r:] + pts[:r], [list(h) for h in holes]))

    variants("triangle", "right triangle", [(0, 0), (4, 0), (0, 3)])
    variants("triangle", "sliver", [(0, 0), (10, 0.5), (5, 0.4)])
    variants("convex quadrilateral", "rectangle", [(0, 0), (4, 0), (4, 2), (0, 2)])
    variants("convex quadrilateral", "kite", [(0, 0), (3, -1), (7, 0), (3, 1)])
    variants("convex quadrilateral", "trapezoid", [(0, 0), (6, 0), (4, 3), (1, 3)])
    variants("concave quadrilateral", "dart", [(0, 0), (4, 2), (0, 4), (1.5, 2)])
    variants("concave quadrilateral", "chevron", [(0, 0), (5, 1), (10, 0), (5, 6)])
    variants("concave quadrilateral", "thin arrowhead", [(0, 0), (1, 5), (2, 0), (1, 4.5)])
    variants("larger polygon", "pentagon", [(0, 0), (4, 0), (5, 3), (2, 5), (-1, 3)])
    variants("larger polygon", "L-shape", [(0, 0), (4, 0), (4, 1), (1, 1), (1, 4), (0, 4)])
    variants("larger polygon", "star", [(0, 3), (1, 1), (3, 1), (1.5, -0.5), (2, -3), (0, -1.5), (-2, -3), (-1.5, -0.5), (-3, 1), (-1, 1)])
    variants("polygon with holes", "square with a square hole", [(0, 0), (6, 0), (6, 6), (0, 6)], [[(2, 2), (2, 4), (4, 4), (4, 2)]])
    variants("polygon with holes", "square with two holes", [(0, 0), (8, 0), (8, 8), (0, 8)], [[(1, 1), (1, 3), (3, 3), (3, 1)], [(5, 4), (5, 7), (7, 7), (6, 4)]])
    variants("polygon with holes", "dart with a triangular hole", [(0, 0), (8, 4), (0, 8), (3, 4)], [[(4, 3.5), (4, 4.5), (5, 4)]])
    return out


def check_real_polygon(ext, holes, z=2.5, samples=120, seed=7):
    """Exact checks (shapely) of the REAL triangulatePolygon / PolygonalRegion._samplingData / uniformPointInner on one
    polygon.  Returns {clause: None | text}."""
    import itertools
    import random

    import shapely
    import shapely.geometry

    from scenic.core.geometry import triangulatePolygon
    from scenic.core.regions import PolygonalRegion

    P = shapely.geometry.Polygon(ext, holes)
    res = dict.fromkeys(("triangles_inside_the_polygon", "triangle_areas_sum_to_the_polygon_area", "cumulative_weights_are_prefix_sums_of_the_triangle_areas", "sampled_points_lie_in_the_polygon_at_height_z"))
    tol = 1e-9 * max(1.0, P.area)
    tris = list(triangulatePolygon(P))
    out = [t for t in tris if t.difference(P).area > tol]
    if out:
        res["triangles_inside_the_polygon"] = f"triangle {list(out[0].exterior.coords)[:-1]} sticks out of the polygon by area {out[0].difference(P).area:.6g}"
    total = sum(t.area for t in tris)
    if abs(total - P.area) > tol:
        res["triangle_areas_sum_to_the_polygon_area"] = f"{len(tris)} triangles of total area {total:.6g}, polygon area {P.area:.6g}"
    R = PolygonalRegion(polygon=P, z=z)
    tb, cum = R._samplingData
    pref = list(itertools.accumulate(t.area for t, _ in tb))
    if len(tb) != len(cum) or any(abs(a - b) > tol for a, b in zip(cum, pref)) or any(tuple(b) != tuple(t.bounds) for t, b in tb) or abs((cum[-1] if cum else 0) - P.area) > tol:
        res["cumulative_weights_are_prefix_sums_of_the_triangle_areas"] = f"cumulative weights {list(cum)}, prefix sums of the triangle areas {pref}, total must be the polygon area {P.area:.6g}"
    random.seed(seed)
    grown = P.buffer(1e-9)
    for _ in range(samples):
        pt = R.uniformPointInner()
        if pt.z != z or not grown.contains(shapely.geometry.Point(pt.x, pt.y)):
            res["sampled_points_lie_in_the_polygon_at_height_z"] = f"drew {tuple(pt)} from the region at z={z}: outside the polygon by {P.distance(shapely.geometry.Point(pt.x, pt.y)):.4g}"
            break
    return res


def register_polygon_sampling(reg):
    # ---------------------------------------------------------------- triangulatePolygon (+ triangulatePolygon_mapbox, inlined)
    def setup_t(I, env):
        eng = I.eng
        n = 3 + eng.choose(3, "exterior ring: 3 / 4 / 5 vertices")
        h = eng.choose(2, "no hole / one triangular hole")
        ext = [(eng.fresh_real(f"v{i}.x"), eng.fresh_real(f"v{i}.y")) for i in range(n)]
        holes = [[(eng.fresh_real(f"hole.v{i}.x"), eng.fresh_real(f"hole.v{i}.y")) for i in range(3)]] if h else []
        eng.input_syms.append(("vertices", C.Const(None), n))
        eng.input_syms.append(("holes", C.Const(None), h))
        P = MS.ring_polygon(I, ext, holes)
        env.vars.update(polygon=P, _ext=ext, _holes=holes)

    def select(rows, idx, col):
        out = rows[0][col]
        for k in range(1, len(rows)):
            out = sv_ite(compare("==", idx, k), rows[k][col], out)
        return out

    def post_t(I, env, outcome):
        eng = I.eng
        oname = "geometry.triangulatePolygon"
        if outcome[0] != "return":
            return
        res = outcome[1]
        ext, holes = env.vars["_ext"], env.vars["_holes"]
        tris = I.iterate(res) if not isinstance(res, (int, float, SV, type(None))) else None
        ok = tris is not None and all(MS.is_geom(t) and "_tri" in t.fields for t in tris)
        eng.check(f"{oname}#ensures.returns_triangles", ok)
        if not ok:
            return
        calls = getattr(MS.world(I), "earcut_calls", [])
        # Only the trusted kernel (E-earcut) is known to cut a polygon into triangles that lie inside it and tile it:
        # the triangles returned must be exactly its answer for exactly this polygon.
        allv = list(ext) + [p for hl in holes for p in hl]
        offs, acc = [], len(ext)
        offs.append(acc)
        for hl in holes:
            acc += len(hl)
            offs.append(acc)
        good_call = len(calls) == 1 and calls[0]["vertices"].shape == (len(allv), 2) and calls[0]["rings"].shape == (len(offs),)
        if good_call:
            V, R = calls[0]["vertices"], calls[0]["rings"]
            enc = sv_and(*[compare("==", V.data[i][c], allv[i][c]) for i in range(len(allv)) for c in (0, 1)], *[compare("==", R.data[i], offs[i]) for i in range(len(offs))])
        else:
            enc = False
        eng.check(f"{oname}#ensures.polygon_is_handed_to_the_triangulator_ring_by_ring_exterior_first", enc)
        if good_call:
            idx = calls[0]["result"].data
            k = len(idx) // 3
            same = len(tris) == k and sv_and(*[compare("==", tris[j].fields["_tri"][i][c], select(allv, idx[3 * j + i], c)) for j in range(min(k, len(tris))) for i in range(3) for c in (0, 1)])
        else:
            same = False
        eng.check(f"{oname}#ensures.triangles_lie_inside_the_polygon_and_tile_it(they_are_the_trusted_triangulation_of_it)", same)

    def replay_t(inputs, clause):
        import warnings

        warnings.filterwarnings("ignore")
        n, h = int(inputs.get("vertices", 4)), int(inputs.get("holes", 0))
        for group, name, ext, holes in polygon_catalogue():
            if len(ext) != n or bool(holes) != bool(h):
                continue
            r = check_real_polygon(ext, holes, samples=40)
            for c in ("triangles_inside_the_polygon", "triangle_areas_sum_to_the_polygon_area"):
                if r[c]:
                    return f"triangulatePolygon({name} {ext}{' with holes ' + str(holes) if holes else ''}): {r[c]}"
        return None

    reg.add(
        C.Contract(
            f"{GEO}:triangulatePolygon",
            params=dict(polygon=C.Const(None)),
            setup=setup_t,
            post=post_t,
            raises=[C.Raises("RuntimeError", mode="may")],
            inline_all=True,
            replay=replay_t,
            bounded=True,
            note="relative to E-earcut (trusted); ring sizes 3..5 with 0..1 triangular hole, symbolic coordinates; the repository code around the kernel (ring assembly, offsets, index gathering, splitting, polygon construction) is interpreted",
            properties=("C03",),
        )
    )

    # ---------------------------------------------------------------- PolygonalRegion._samplingData
    def tri_stub(I, polygon):
        """triangulatePolygon at a call site: its contract above (triangles of the polygon, E-earcut): abstract triangles"""
        eng = I.eng
        k = polygon.fields.get("_ntris", 2)
        tris = [MS.tri_geom(I, [(eng.fresh_real(f"{polygon.tag}.t{j}.v{i}.x"), eng.fresh_real(f"{polygon.tag}.t{j}.v{i}.y")) for i in range(3)]) for j in range(k)]
        polygon.fields["_tris"] = tris
        return PList(tris)

    reg.models[f"{GEO}:triangulatePolygon"] = tri_stub
    reg.trust("triangulatePolygon (call sites)", "at call sites triangulatePolygon returns the triangles of its contract (verified in this module relative to E-earcut): abstract triangles with symbolic vertices")

    def setup_d(I, env):
        eng = I.eng
        A = mk_polygonal(I, "self")
        npoly = 1 + eng.choose(2, "one or two polygons")
        polys = []
        for i in range(npoly):
            p = MS.make_geom(I, "Polygon", empty=False, tag=f"poly{i}")
            p.fields["_ntris"] = 1 + (i + eng.choose(2, f"poly{i}: one or two triangles")) % 2
            polys.append(p)
        A.fields["_polygons"].fields["geoms"] = PList(polys)
        env.vars.update(self=A, _polys=polys)

    def post_d(I, env, outcome):
        eng = I.eng
        oname = "regions.PolygonalRegion._samplingData"
        if outcome[0] != "return":
            return
        res = outcome[1]
        tris = [t for p in env.vars["_polys"] for t in p.fields.get("_tris", [])]
        ok = isinstance(res, tuple) and len(res) == 2 and isinstance(res[0], tuple) and isinstance(res[1], tuple)
        eng.check(f"{oname}#ensures.returns_triangles_with_bounds_and_cumulative_areas", ok)
        if not ok:
            return
        tb, cum = res
        eng.check(f"{oname}#ensures.every_polygon_is_triangulated_once", all("_tris" in p.fields for p in env.vars["_polys"]))
        eng.check(f"{oname}#ensures.all_triangles_of_all_polygons_in_order_with_their_bounds", len(tb) == len(tris) and all(isinstance(e, tuple) and len(e) == 2 and e[0] is t and e[1] is t.fields["bounds"] for e, t in zip(tb, tris)))
        pref, acc = [], 0
        for t in tris:
            acc = arith("+", acc, t.fields["area"])
            pref.append(acc)
        eng.check(f"{oname}#ensures.cumulative_weights_are_the_prefix_sums_of_the_triangle_areas", len(cum) == len(tris) and sv_and(*[compare("==", a, b) for a, b in zip(cum, pref)]))

    reg.add(C.Contract(f"{RG}:PolygonalRegion._samplingData", params=dict(self=C.Const(None)), setup=setup_d, post=post_d, raises=[C.Raises("AssertionError", mode="may")], inline_all=True, bounded=True, note="bounded: 1..2 polygons of 1..2 triangles each (symbolic)", properties=("C03",)))

    # ---------------------------------------------------------------- PolygonalRegion.uniformPointInner
    def setup_u(I, env):
        eng = I.eng
        A = mk_polygonal(I, "self")
        A.fields["orientation"] = None
        k = 1 + eng.choose(3, "number of triangles")
        tris = [MS.tri_geom(I, [(eng.fresh_real(f"t{j}.v{i}.x"), eng.fresh_real(f"t{j}.v{i}.y")) for i in range(3)]) for j in range(k)]
        cum, acc = [], 0
        for t in tris:
            eng.assume(compare(">", t.fields["area"], 0))
            acc = arith("+", acc, t.fields["area"])
            cum.append(acc)
        tb = tuple((t, t.fields["bounds"]) for t in tris)
        A.fields["_samplingData"] = (tb, tuple(cum))
        env.vars.update(self=A, _tb=tb, _cum=tuple(cum))

    def post_u(I, env, outcome):
        eng = I.eng
        oname = "regions.PolygonalRegion.uniformPointInner"
        if outcome[0] != "return":
            return
        A, res, tb, cum = env.vars["self"], outcome[1], env.vars["_tb"], env.vars["_cum"]
        tr = eng.rng_trace
        ok = len(tr) >= 3 and tr[0][0] == "choices" and all(t[0] == "uniform" for t in tr[1:]) and len(tr) % 2 == 1
        eng.check(f"{oname}#rng.one_choices_then_pairs_of_uniform_draws", ok)
        if not ok:
            return
        pop, cw = tr[0][1]
        eng.check(f"{oname}#rng.triangle_drawn_with_the_cumulative_area_weights", len(pop) == len(tb) and all(a is b for a, b in zip(pop, tb)) and len(cw) == len(cum) and sv_and(*[compare("==", a, b) for a, b in zip(cw, cum)]))
        chosen = [i for i in range(len(tb)) if not eng.feasible(tobool(sv_not(compare("==", tr[0][2], i))))]
        eng.check(f"{oname}#rng.chosen_index_decided", len(chosen) == 1)
        if len(chosen) != 1:
            return
        tri, (minx, miny, maxx, maxy) = tb[chosen[0]]
        (ax, ay), (bx, by) = tr[-2][1], tr[-1][1]
        eng.check(f"{oname}#rng.candidate_drawn_uniformly_in_the_bounding_box_of_the_chosen_triangle", sv_and(compare("==", ax, minx), compare("==", ay, maxx), compare("==", bx, miny), compare("==", by, maxy)))
        x, y = tr[-2][2], tr[-1][2]
        okv = isinstance(res, PObj) and "coordinates" in res.fields
        eng.check(f"{oname}#ensures.returns_a_vector", okv)
        if okv:
            cx, cy, cz = coords(res)
            eng.check(f"{oname}#ensures.point_is_the_accepted_candidate_at_the_height_of_the_region", sv_and(compare("==", cx, x), compare("==", cy, y), compare("==", cz, A.fields["z"])))
            # in the closed triangle = a convex combination of its three vertices (the triangles tile the polygon: _samplingData)
            eng.check(f"{oname}#ensures.point_is_a_convex_combination_of_the_vertices_of_the_chosen_triangle", MS.gmem(tri, cx, cy))

    reg.add(
        C.Contract(
            f"{RG}:PolygonalRegion.uniformPointInner",
            params=dict(self=C.Const(None)),
            setup=setup_u,
            post=post_u,
            loops={1: dict(invariants={})},
            inline_all=True,
            bounded=True,
            note="bounded: 1..3 triangles (symbolic vertices); the rejection loop is cut (an arbitrary iteration is verified): partial correctness, termination is almost sure only",
            properties=("C03",),
        )
    )

    # ---------------------------------------------------------------- BOUNDED stand-in: the real code on a catalogue of polygons
    def setup_cat(I, env):
        eng = I.eng
        env.vars["polygon"] = MS.ring_polygon(I, [(eng.fresh_real(f"v{i}.x"), eng.fresh_real(f"v{i}.y")) for i in range(3)])

    def post_cat(I, env, outcome):
        import warnings

        warnings.filterwarnings("ignore")
        eng = I.eng
        cat = polygon_catalogue()
        groups = {}
        for group, name, ext, holes in cat:
            try:
                r = check_real_polygon(ext, holes)
            except Exception as e:  # the real code crashed on a catalogue polygon
                r = {"triangles_inside_the_polygon": f"{type(e).__name__}: {e}"}
            for c, text in r.items():
                g = groups.setdefault((group, c), [0, None])
                g[0] += 1
                if text and g[1] is None:
                    g[1] = f"{name}: exterior {ext}{', holes ' + str(holes) if holes else ''}: {text}"
        for (group, c), (n, bad) in sorted(groups.items()):
            if bad:
                eng.input_syms.append(("polygon", C.Const(None), bad))
            eng.check(f"standin.polygon_catalogue#{group}.{c}", bad is None, detail=bad or f"{n} polygons", kind="bounded")
            if bad:
                del eng.input_syms[-1:]
        eng.check("standin.polygon_catalogue#catalogue_nonempty", len(cat) > 0, detail=f"{len(cat)} polygons", kind="bounded")

    reg.add(
        C.Contract(
            f"{GEO}:triangulatePolygon",
            params=dict(polygon=C.Const(None)),
            setup=setup_cat,
            post=post_cat,
            raises=[C.Raises("RuntimeError", mode="may")],
            inline_all=True,
            bounded=True,
            note="BOUNDED stand-in (never counted as proved): the REAL triangulatePolygon / PolygonalRegion._samplingData / uniformPointInner on a catalogue of polygons "
            "(triangles, convex and concave quadrilaterals in every vertex rotation and both windings, larger concave polygons, polygons with holes), exact checks with shapely, 120 seeded draws each",
            properties=("C03",),
        ),
        key=f"{GEO}:triangulatePolygon[catalogue]",
    )


# ===================================================================================================
# PolylineRegion / PathRegion: segment table, cumulative lengths, sampler (extension)
#
# Oracle (property statement): a point drawn on a polyline lies on it (all three coordinates: a PolylineRegion lies at
# z = 0, a PathRegion is a 3-D chain) and draws are uniform with respect to length: the segment is drawn with
# probability proportional to its Euclidean length (random.choices over the segments with the prefix sums of the
# lengths, A3) and the point is interpolated uniformly on the drawn segment (point = A + t (B - A), t drawn uniformly
# in [0, 1]).  Membership is stated in parametric form (the point is a convex combination of the end points of a
# segment of the chain), as for sectors (polar form) and triangles (convex combination).


def _hyp(eng, name, sqsum):
    d = eng.fresh_real(name)
    eng.assume(sv_and(compare(">=", d, 0), compare("==", sq(d), sqsum)))
    return d


def _lit(v):
    """Constant inputs (lists) come back from a counter-model as their repr."""
    import ast

    return ast.literal_eval(v) if isinstance(v, str) else v


def _is_vec(v):
    return isinstance(v, PObj) and "coordinates" in v.fields


def _decided_index(eng, idx, n):
    return [i for i in range(n) if not eng.feasible(tobool(sv_not(compare("==", idx, i))))]


def _spy_rng(random, log):
    """Wrap random.choices / random.random / random.uniform so that their arguments and results are recorded (replay drivers)."""
    real = dict(choices=random.choices, random=random.random, uniform=random.uniform)

    def choices(population, weights=None, *, cum_weights=None, k=1):
        r = real["choices"](population, weights, cum_weights=cum_weights, k=k)
        log.append(("choices", list(population), None if weights is None else list(weights), None if cum_weights is None else list(cum_weights), r))
        return r

    def rnd():
        r = real["random"]()
        log.append(("random", r))
        return r

    def uniform(a, b):
        r = real["uniform"](a, b)
        log.append(("uniform", a, b, r))
        return r

    random.choices, random.random, random.uniform = choices, rnd, uniform

    def restore():
        random.choices, random.random, random.uniform = real["choices"], real["random"], real["uniform"]

    return restore


def _check_real_line_sampler(R, segs3, name, draws=40, seed=11):
    """The REAL sampler of a PolylineRegion / PathRegion `R` whose segments (pairs of 3-D end points, in the order of the
    chain) are `segs3`: weights of the segment draw, interpolation, membership.  -> None | text."""
    import itertools
    import random

    lens = [math.dist(a, b) for a, b in segs3]
    pref = list(itertools.accumulate(lens))
    tol = 1e-9 * max(1.0, pref[-1])
    random.seed(seed)
    for _ in range(draws):
        log = []
        restore = _spy_rng(random, log)
        try:
            pt = R.uniformPointInner()
        finally:
            restore()
        ch = [e for e in log if e[0] == "choices"]
        us = [e for e in log if e[0] in ("random", "uniform")]
        if len(ch) != 1 or len(us) != 1:
            return f"{name}: expected one random.choices and one interpolation draw, observed {[e[0] for e in log]}"
        _, pop, w, cw, res = ch[0]
        if len(pop) != len(segs3):
            return f"{name}: {len(segs3)} segments but the population of the segment draw has {len(pop)} entries"
        eff = list(cw) if cw is not None else list(itertools.accumulate(w if w is not None else [1] * len(pop)))
        if len(eff) != len(pref) or any(abs(a - b) > tol for a, b in zip(eff, pref)):
            return f"{name}: segment lengths {[round(x, 6) for x in lens]} (prefix sums {[round(x, 6) for x in pref]}) but the segment is drawn with cumulative weights {[round(float(x), 6) for x in eff]}: not proportional to length"
        k = [i for i, s in enumerate(pop) if s is res[0]]
        if len(k) != 1:
            return f"{name}: the drawn segment is not one entry of the population"
        a, b = segs3[k[0]]
        t = us[0][-1]
        if us[0][0] == "uniform" and (us[0][1], us[0][2]) != (0, 1):
            return f"{name}: interpolation parameter drawn with uniform({us[0][1]}, {us[0][2]}) instead of over [0, 1]"
        want = tuple(a[c] + t * (b[c] - a[c]) for c in range(3))
        got = tuple(float(x) for x in pt)
        if any(abs(g - w_) > 1e-9 * max(1.0, abs(w_)) for g, w_ in zip(got, want)):
            return f"{name}: segment {k[0]} = {a} -> {b} drawn with interpolation parameter t = {t:.6g}: returned {tuple(round(x, 6) for x in got)}, the point of the segment at t is {tuple(round(x, 6) for x in want)}"
        # membership in the chain, independently of the parametrisation
        dmin = min(_dist_point_segment(got, a_, b_) for a_, b_ in segs3)
        if dmin > 1e-7 * max(1.0, pref[-1]):
            return f"{name}: drew {tuple(round(x, 6) for x in got)}, which is {dmin:.4g} away from the chain"
    return None


def _dist_point_segment(p, a, b):
    ab = [b[i] - a[i] for i in range(3)]
    ap = [p[i] - a[i] for i in range(3)]
    L2 = sum(x * x for x in ab)
    t = 0.0 if L2 == 0 else max(0.0, min(1.0, sum(x * y for x, y in zip(ab, ap)) / L2))
    return math.dist(p, [a[i] + t * ab[i] for i in range(3)])


LINE_CATALOGUE = [
    ("two unequal segments", [(0, 0), (1, 0), (1, 5)]),
    ("three segments, short-long-short", [(0, 0), (0.5, 0), (0.5, 10), (1.5, 10)]),
    ("one diagonal segment", [(-2, -1), (4, 7)]),
    ("zig-zag", [(0, 0), (3, 4), (6, 0), (9, 4)]),
]


def register_line_samplers(reg):
    reg.models[f"{GEO}:headingOfSegment"] = lambda I, a, b: I.eng.fresh_real("headingOfSegment")
    reg.trust("headingOfSegment", "stub: the preferred heading attached to a point drawn on a PolylineRegion (direction of its segment) is an unconstrained number: orientation is not part of the membership / uniformity law")

    # ---------------------------------------------------------------- PolylineRegion.__init__ (points arm and LineString arm)
    def setup_init(I, env):
        eng = I.eng
        arm = ["points", "polyline"][eng.choose(2, "points / polyline argument")]
        n = 2 + eng.choose(3, "number of vertices: 2 / 3 / 4")
        eng.input_syms.append(("arm", C.Const(None), arm))
        eng.input_syms.append(("n", C.Const(None), n))
        pts = [(eng.fresh_real(f"p{i}.x"), eng.fresh_real(f"p{i}.y")) for i in range(n)]
        for i, p in enumerate(pts):
            eng.input_syms.append((f"p{i}", C.TupleOf(C.Real(), C.Real()), p))
        S = PObj(RC("PolylineRegion"), tag="self")
        env.vars.update(self=S, orientation=None, name=None, _pts=pts, _arm=arm)
        if arm == "points":
            env.vars.update(points=PList([p for p in pts]), polyline=None)
        else:
            env.vars.update(points=None, polyline=MS.line_geom(I, [p for p in pts]))

    def post_init(I, env, outcome):
        eng = I.eng
        oname = "regions.PolylineRegion.__init__"
        if outcome[0] != "return":
            return
        S, pts, arm = env.vars["self"], env.vars["_pts"], env.vars["_arm"]
        n = len(pts)
        segs = S.fields.get("segments")
        segs = list(I.iterate(segs)) if isinstance(segs, (PList, tuple, list)) else None
        ok = segs is not None and len(segs) == n - 1 and all(isinstance(s, tuple) and len(s) == 2 and all(isinstance(e, tuple) and len(e) >= 2 for e in s) for s in segs)
        eng.check(f"{oname}#ensures.one_segment_per_consecutive_pair_of_vertices", ok)
        if not ok:
            return
        eng.check(f"{oname}#ensures.segment_i_joins_vertex_i_to_vertex_i_plus_1", sv_and(*[compare("==", segs[i][e][c], pts[i + e][c]) for i in range(n - 1) for e in (0, 1) for c in (0, 1)]))
        eng.check(f"{oname}#ensures.segments_lie_at_z_0", sv_and(*[compare("==", e[2], 0) for s in segs for e in s if len(e) > 2]))
        cum = S.fields.get("cumulativeLengths")
        cum = list(I.iterate(cum)) if isinstance(cum, (PList, tuple, list)) else None
        okc = cum is not None and len(cum) == n - 1
        eng.check(f"{oname}#ensures.one_cumulative_length_per_segment", okc)
        if okc:
            prev = 0
            acc = []
            for i in range(n - 1):
                d = arith("-", cum[i], prev)
                dx, dy = arith("-", pts[i][0], pts[i + 1][0]), arith("-", pts[i][1], pts[i + 1][1])
                acc.append(sv_and(compare(">=", d, 0), compare("==", sq(d), arith("+", sq(dx), sq(dy)))))
                prev = cum[i]
            eng.check(f"{oname}#ensures.cumulative_lengths_are_the_prefix_sums_of_the_euclidean_segment_lengths", sv_and(*acc))
        ls = S.fields.get("lineString")
        okl = MS.is_geom(ls) and ls.fields.get("_kind") == "LineString" and isinstance(ls.fields.get("coords"), tuple) and len(ls.fields["coords"]) == n
        eng.check(f"{oname}#ensures.lineString_is_the_chain_through_the_vertices", okl and sv_and(*[compare("==", ls.fields["coords"][i][c], pts[i][c]) for i in range(n) for c in (0, 1)]))
        pf = S.fields.get("points")
        okp = isinstance(pf, tuple) and len(pf) == n and all(isinstance(p, tuple) and len(p) == 3 for p in pf)
        eng.check(f"{oname}#ensures.points_are_the_vertices_at_z_0", okp and sv_and(*[compare("==", pf[i][c], (pts[i] + (0,))[c]) for i in range(n) for c in range(3)]))

    def replay_init(inputs, clause):
        import warnings

        warnings.filterwarnings("ignore")
        import itertools

        import shapely.geometry

        from scenic.core.regions import PolylineRegion

        cases = list(LINE_CATALOGUE)
        try:
            n = int(inputs.get("n", 0))
            mine = [tuple(float(x) for x in inputs[f"p{i}"]) for i in range(n)]
            if n >= 2 and all(math.dist(a, b) > 1e-9 for a, b in zip(mine, mine[1:])):
                cases.insert(0, ("counter-model", mine))
        except Exception:
            pass
        for name, pts in cases:
            for arm in ("points", "polyline"):
                R = PolylineRegion(points=pts) if arm == "points" else PolylineRegion(polyline=shapely.geometry.LineString(pts))
                what = f"PolylineRegion({arm}={pts})"
                if len(R.segments) != len(pts) - 1:
                    return f"{what}: {len(R.segments)} segments for {len(pts)} vertices"
                for i, (a, b) in enumerate(R.segments):
                    if tuple(a[:2]) != tuple(map(float, pts[i])) or tuple(b[:2]) != tuple(map(float, pts[i + 1])):
                        return f"{what}: segment {i} is {a} -> {b}, expected {pts[i]} -> {pts[i + 1]}"
                pref = list(itertools.accumulate(math.dist(a, b) for a, b in zip(pts, pts[1:])))
                if len(R.cumulativeLengths) != len(pref) or any(abs(x - y) > 1e-9 * max(1, y) for x, y in zip(R.cumulativeLengths, pref)):
                    return f"{what}: cumulativeLengths = {list(R.cumulativeLengths)}, prefix sums of the segment lengths = {pref}"
                if [tuple(map(float, p)) for p in R.points] != [tuple(map(float, p)) + (0.0,) for p in pts]:
                    return f"{what}: points = {R.points}"
        return None

    reg.add(
        C.Contract(
            f"{RG}:PolylineRegion.__init__",
            params=dict(self=C.Const(None), points=C.Const(None), polyline=C.Const(None), orientation=C.Const(None), name=C.Const(None)),
            setup=setup_init,
            post=post_init,
            raises=[C.Raises("ValueError", mode="may")],
            inline_all=True,
            replay=replay_init,
            bounded=True,
            note="bounded: one chain of 2..4 vertices (symbolic coordinates), given as points or as a LineString; segmentsOf (LineString arm) inlined; the MultiLineString arm is covered by segmentsOf[multi]",
            properties=("C03",),
        )
    )

    # ---------------------------------------------------------------- PolylineRegion.segmentsOf on a MultiLineString
    def setup_seg(I, env):
        eng = I.eng
        sizes = [(2, 2), (2, 3), (3, 2)][eng.choose(3, "vertices of the two chains")]
        eng.input_syms.append(("sizes", C.Const(None), sizes))
        chains = [[(eng.fresh_real(f"c{k}.p{i}.x"), eng.fresh_real(f"c{k}.p{i}.y")) for i in range(m)] for k, m in enumerate(sizes)]
        for k, ch in enumerate(chains):
            for i, p in enumerate(ch):
                eng.input_syms.append((f"c{k}.p{i}", C.TupleOf(C.Real(), C.Real()), p))
        lines = [MS.line_geom(I, ch) for ch in chains]
        multi = MS.g_union(I, lines)
        multi.fields["_kind"] = "MultiLineString"
        multi.fields["geoms"] = PList(lines)
        env.vars.update(cls=RC("PolylineRegion"), lineString=multi, _chains=chains)

    def post_seg(I, env, outcome):
        eng = I.eng
        oname = "regions.PolylineRegion.segmentsOf"
        if outcome[0] != "return":
            return
        chains = env.vars["_chains"]
        want = [(ch[i], ch[i + 1]) for ch in chains for i in range(len(ch) - 1)]
        segs = list(I.iterate(outcome[1])) if isinstance(outcome[1], (PList, tuple, list)) else None
        ok = segs is not None and len(segs) == len(want) and all(isinstance(s, tuple) and len(s) == 2 and all(isinstance(e, tuple) and len(e) >= 2 for e in s) for s in segs)
        eng.check(f"{oname}#ensures.segments_of_every_chain_in_order_and_no_segment_between_chains", ok and sv_and(*[compare("==", s[e][c], w[e][c]) for s, w in zip(segs, want) for e in (0, 1) for c in (0, 1)]))

    def replay_seg(inputs, clause):
        import shapely.geometry

        from scenic.core.regions import PolylineRegion

        chains = [[(0, 0), (1, 0)], [(5, 5), (5, 7), (9, 7)]]
        got = PolylineRegion.segmentsOf(shapely.geometry.MultiLineString(chains))
        want = [((0.0, 0.0), (1.0, 0.0)), ((5.0, 5.0), (5.0, 7.0)), ((5.0, 7.0), (9.0, 7.0))]
        if [(tuple(a[:2]), tuple(b[:2])) for a, b in got] != want:
            return f"segmentsOf(MultiLineString({chains})) = {got}, expected {want}"
        return None

    reg.add(
        C.Contract(
            f"{RG}:PolylineRegion.segmentsOf",
            params=dict(cls=C.Const(None), lineString=C.Const(None)),
            setup=setup_seg,
            post=post_seg,
            raises=[C.Raises("ValueError", mode="may")],
            inline_all=True,
            replay=replay_seg,
            bounded=True,
            note="bounded: MultiLineString of two chains with 2+2 / 2+3 / 3+2 vertices (symbolic coordinates)",
            properties=("C03",),
        ),
        key=f"{RG}:PolylineRegion.segmentsOf[multi]",
    )

    # ---------------------------------------------------------------- PolylineRegion.uniformPointInner
    def setup_pl(I, env):
        eng = I.eng
        n = 1 + eng.choose(3, "number of segments: 1 / 2 / 3")
        default = eng.choose(2, "orientation: along the polyline (default) / none") == 0
        eng.input_syms.append(("n", C.Const(None), n + 1))
        eng.input_syms.append(("default_orientation", C.Const(None), default))
        pts = [(eng.fresh_real(f"p{i}.x"), eng.fresh_real(f"p{i}.y")) for i in range(n + 1)]
        for i, p in enumerate(pts):
            eng.input_syms.append((f"p{i}", C.TupleOf(C.Real(), C.Real()), p))
        # class invariant established by __init__ (contract above): segment i joins vertex i to vertex i+1 (the first end point
        # as a pair, the others with z = 0.0 appended), cumulativeLengths = prefix sums of the Euclidean lengths; a valid
        # LineString has positive length
        segs, cum, acc = [], [], 0
        for i in range(n):
            a = pts[i] if i == 0 else pts[i] + (0.0,)
            segs.append((a, pts[i + 1] + (0.0,)))
            ln = _hyp(eng, f"len{i}", arith("+", sq(arith("-", pts[i][0], pts[i + 1][0])), sq(arith("-", pts[i][1], pts[i + 1][1]))))
            acc = arith("+", acc, ln)
            cum.append(acc)
        eng.assume(compare(">", acc, 0))
        S = PObj(RC("PolylineRegion"), tag="self")
        init_samplable(S)
        S.fields.update(segments=PList(segs), cumulativeLengths=PList(cum), lineString=MS.line_geom(I, [p + (0.0,) for p in pts]), points=tuple(p + (0,) for p in pts), orientation=None, name=None, _usingDefaultOrientation=default)
        env.vars.update(self=S, _segs=segs, _cum=cum, _pts=pts)

    def post_pl(I, env, outcome):
        eng = I.eng
        oname = "regions.PolylineRegion.uniformPointInner"
        if outcome[0] != "return":
            return
        segs, cum, pts, res = env.vars["_segs"], env.vars["_cum"], env.vars["_pts"], outcome[1]
        tr = eng.rng_trace
        ok = len(tr) == 2 and tr[0][0] == "choices" and tr[1][0] == "random"
        eng.check(f"{oname}#rng.one_choices_then_one_random", ok)
        if not ok:
            return
        pop, cw = tr[0][1]
        eng.check(f"{oname}#rng.population_is_the_segments_in_order", len(pop) == len(segs) and all(a is b for a, b in zip(pop, segs)))
        prev, acc = 0, []
        for i in range(min(len(cw), len(segs))):
            d = arith("-", cw[i], prev)
            acc.append(sv_and(compare(">=", d, 0), compare("==", sq(d), arith("+", sq(arith("-", pts[i][0], pts[i + 1][0])), sq(arith("-", pts[i][1], pts[i + 1][1]))))))
            prev = cw[i]
        eng.check(f"{oname}#rng.segment_drawn_with_probability_proportional_to_its_length", len(cw) == len(segs) and sv_and(*acc))
        chosen = _decided_index(eng, tr[0][2], len(segs))
        eng.check(f"{oname}#rng.chosen_index_decided", len(chosen) == 1)
        if len(chosen) != 1:
            return
        k, t = chosen[0], tr[1][2]
        okv = _is_vec(res)
        eng.check(f"{oname}#ensures.returns_a_vector", okv)
        if not okv:
            return
        x, y, z = coords(res)
        (ax, ay), (bx, by) = pts[k], pts[k + 1]
        eng.check(f"{oname}#ensures.point_is_A_plus_t_times_B_minus_A_on_the_drawn_segment", sv_and(compare("==", x, arith("+", ax, arith("*", t, arith("-", bx, ax)))), compare("==", y, arith("+", ay, arith("*", t, arith("-", by, ay))))))
        eng.check(f"{oname}#ensures.interpolation_parameter_is_the_uniform_draw_in_0_1", sv_and(compare("<=", 0, t), compare("<=", t, 1)))
        eng.check(f"{oname}#ensures.point_at_the_height_of_the_region_z_0", compare("==", z, 0))

    def replay_pl(inputs, clause):
        import warnings

        warnings.filterwarnings("ignore")
        from scenic.core.regions import PolylineRegion

        cases = list(LINE_CATALOGUE)
        try:
            n = int(inputs.get("n", 0))
            mine = [tuple(float(x) for x in inputs[f"p{i}"]) for i in range(n)]
            if n >= 2 and all(math.dist(a, b) > 1e-9 for a, b in zip(mine, mine[1:])):
                cases.insert(0, ("counter-model", mine))
        except Exception:
            pass
        for name, pts in cases:
            for orient in (True, None):
                R = PolylineRegion(points=pts, orientation=orient)
                segs3 = [(tuple(map(float, a)) + (0.0,), tuple(map(float, b)) + (0.0,)) for a, b in zip(pts, pts[1:])]
                r = _check_real_line_sampler(R, segs3, f"PolylineRegion(points={pts}{'' if orient else ', orientation=None'})")
                if r:
                    return r
        return None

    reg.add(
        C.Contract(
            f"{RG}:PolylineRegion.uniformPointInner",
            params=dict(self=C.Const(None)),
            setup=setup_pl,
            post=post_pl,
            inline_all=True,
            replay=replay_pl,
            bounded=True,
            note="bounded: chain of 1..3 segments (symbolic vertices), with and without the default orientation; class invariant of __init__ (segments, cumulative lengths) assumed as established by the contract on __init__",
            properties=("C03",),
        )
    )

    # ---------------------------------------------------------------- PathRegion.uniformPointInner
    def setup_pa(I, env):
        eng = I.eng
        shape = [("chain of 1 edge", [(0, 1)]), ("chain of 2 edges", [(0, 1), (1, 2)]), ("chain of 3 edges", [(0, 1), (1, 2), (2, 3)]), ("two chains sharing a vertex", [(0, 1), (2, 1)]), ("closed triangle", [(0, 1), (1, 2), (2, 0)])]
        name, edges = shape[eng.choose(len(shape), "edge table")]
        nv = 1 + max(max(e) for e in edges)
        eng.input_syms.append(("edges", C.Const(None), [list(e) for e in edges]))
        vs = [tuple(eng.fresh_real(f"v{i}.{c}") for c in "xyz") for i in range(nv)]
        for i, v in enumerate(vs):
            eng.input_syms.append((f"v{i}", C.TupleOf(C.Real(), C.Real(), C.Real()), v))
        # class invariant established by __init__: edge_lengths[i] = |vert_to_vec[a] - vert_to_vec[b]| > 0 (zero-length segments are dropped)
        lens = []
        for i, (a, b) in enumerate(edges):
            ln = _hyp(eng, f"len{i}", dist3sq(vs[a], vs[b]))
            eng.assume(compare(">", ln, 0))
            lens.append(ln)
        S = PObj(RC("PathRegion"), tag="self")
        init_samplable(S)
        S.fields.update(vert_to_vec=tuple(make_vector(*v) for v in vs), edges=PList(list(edges)), edge_lengths=PList(lens), orientation=None, name=None, tolerance=1e-8, _usingDefaultOrientation=False)
        env.vars.update(self=S, _edges=edges, _vs=vs, _lens=lens)

    def post_pa(I, env, outcome):
        eng = I.eng
        oname = "regions.PathRegion.uniformPointInner"
        if outcome[0] != "return":
            return
        edges, vs, res = env.vars["_edges"], env.vars["_vs"], outcome[1]
        tr = eng.rng_trace
        ok = len(tr) == 2 and tr[0][0] == "choices" and tr[1][0] == "uniform"
        eng.check(f"{oname}#rng.one_choices_then_one_uniform", ok)
        if not ok:
            return
        pop, cw = tr[0][1]
        eng.check(f"{oname}#rng.population_is_the_edges_in_order", len(pop) == len(edges) and all(tuple(a) == tuple(b) for a, b in zip(pop, edges)))
        prev, acc = 0, []
        for i in range(min(len(cw), len(edges))):
            d = arith("-", cw[i], prev)
            a, b = edges[i]
            acc.append(sv_and(compare(">=", d, 0), compare("==", sq(d), dist3sq(vs[a], vs[b]))))
            prev = cw[i]
        eng.check(f"{oname}#rng.edge_drawn_with_probability_proportional_to_its_length", len(cw) == len(edges) and sv_and(*acc))
        lo, hi = tr[1][1]
        eng.check(f"{oname}#rng.interpolation_parameter_drawn_uniformly_over_0_1", sv_and(compare("==", lo, 0), compare("==", hi, 1)))
        chosen = _decided_index(eng, tr[0][2], len(edges))
        eng.check(f"{oname}#rng.chosen_index_decided", len(chosen) == 1)
        if len(chosen) != 1:
            return
        t = tr[1][2]
        a, b = edges[chosen[0]]
        okv = _is_vec(res)
        eng.check(f"{oname}#ensures.returns_a_vector", okv)
        if okv:
            eng.check(f"{oname}#ensures.point_is_A_plus_t_times_B_minus_A_on_the_drawn_edge_in_all_three_coordinates", sv_and(*[compare("==", coords(res)[c], arith("+", vs[a][c], arith("*", t, arith("-", vs[b][c], vs[a][c])))) for c in range(3)]))
            eng.check(f"{oname}#ensures.interpolation_parameter_within_0_1", sv_and(compare("<=", 0, t), compare("<=", t, 1)))

    PATH_CATALOGUE = [
        ("two unequal edges in space", dict(points=[(0, 0, 0), (1, 0, 0), (1, 5, 2)])),
        ("steep edge", dict(points=[(0, 0, 0), (0, 0, 10), (1, 0, 10)])),
        ("two polylines sharing a vertex", dict(polylines=[[(0, 0, 0), (3, 4, 0)], [(3, 4, 12), (3, 4, 0)]])),
        ("closed triangle", dict(points=[(0, 0, 0), (4, 0, 0), (4, 3, 1), (0, 0, 0)])),
    ]

    def replay_pa(inputs, clause):
        import warnings

        warnings.filterwarnings("ignore")
        from scenic.core.regions import PathRegion

        cases = list(PATH_CATALOGUE)
        try:
            edges = [tuple(e) for e in _lit(inputs["edges"])]
            nv = 1 + max(max(e) for e in edges)
            vs = [tuple(float(x) for x in inputs[f"v{i}"]) for i in range(nv)]
            if len(set(vs)) == nv:
                cases.insert(0, ("counter-model", dict(polylines=[[vs[a], vs[b]] for a, b in edges])))
        except Exception:
            pass
        for name, kw in cases:
            R = PathRegion(**kw)
            chains = [kw["points"]] if "points" in kw else kw["polylines"]
            segs3 = [(tuple(map(float, a)), tuple(map(float, b))) for ch in chains for a, b in zip(ch, ch[1:]) if tuple(a) != tuple(b)]
            r = _check_real_line_sampler(R, segs3, f"PathRegion({kw})")
            if r:
                return r
        return None

    reg.add(
        C.Contract(
            f"{RG}:PathRegion.uniformPointInner",
            params=dict(self=C.Const(None)),
            setup=setup_pa,
            post=post_pa,
            inline_all=True,
            replay=replay_pa,
            bounded=True,
            note="bounded: edge tables of 1..3 edges over 2..4 vertices (symbolic 3-D coordinates): chains, two chains sharing a vertex, a closed triangle; class invariant of __init__ (edge_lengths[i] = distance of the edge's end points > 0) assumed",
            properties=("C03",),
        )
    )


# ===================================================================================================
# GridRegion: membership and the point table, relative to the index maps verified above (extension)
#
# Oracle (class documentation + property statement): a point is in a GridRegion exactly when its nearest grid point is a
# free cell (grid[ny][nx] == 0); the points that can be drawn are exactly the grid points of the free cells (each once, so
# that the randrange law of PointSetRegion.uniformPointInner is uniform over the free cells), and every such point is a member.

GRID_SHAPES = [(1, 1), (2, 2), (2, 3)]  # (sizeY, sizeX)


def _real_grid_check(grid, Ax, Ay, Bx, By, probes, what_for="both"):
    """The REAL GridRegion on a concrete grid: point table and membership of probes.  -> None | text"""
    import warnings

    warnings.filterwarnings("ignore")
    from scenic.core.regions import GridRegion
    from scenic.core.vectors import Vector

    if not any(v == 0 for row in grid for v in row):
        return None
    G = GridRegion("grid", grid, Ax, Ay, Bx, By)
    what = f"GridRegion(grid={grid}, Ax={Ax}, Ay={Ay}, Bx={Bx}, By={By})"
    free = sorted((Ax * i + Bx, Ay * j + By, 0.0) for j, row in enumerate(grid) for i, v in enumerate(row) if v == 0)
    got = sorted(tuple(float(c) for c in p) for p in G.points)
    if what_for != "member" and (len(got) != len(free) or any(math.dist(a, b) > 1e-9 for a, b in zip(got, free))):
        return f"{what}: points that can be drawn = {got}, grid points of the free cells = {free}"
    if what_for == "table":
        return None
    for p in free:
        if not G.containsPoint(Vector(*p)):
            return f"{what}: the grid point {p} of a free cell can be drawn but containsPoint says it is not in the region"
    sy, sx = len(grid), len(grid[0])
    for x, y in probes:
        fx, fy = (x - Bx) / Ax, (y - By) / Ay
        if min(abs(fx - math.floor(fx) - 0.5), abs(fy - math.floor(fy) - 0.5)) < 1e-6:
            continue  # equidistant from two grid points
        nx, ny = math.floor(fx + 0.5), math.floor(fy + 0.5)
        want = 0 <= nx < sx and 0 <= ny < sy and grid[ny][nx] == 0
        res = bool(G.containsPoint(Vector(x, y, 0)))
        if res != want:
            return f"{what}: containsPoint(({x}, {y}, 0)) = {res}; the nearest grid index is ({nx}, {ny}), {'a free cell' if want else 'an obstacle or outside the grid'}"
    return None


def register_grid_membership(reg):
    def pointset_init(I, self, name, points, kdTree=None, orientation=None, tolerance=1e-6):
        pts = [tuple(I.iterate(p)) for p in I.iterate(points)]
        if not pts:
            I.raise_("IndexError", "tuple index out of range")
        init_samplable(self)
        rows = [list(p) + [0.0] if len(p) == 2 else list(p) for p in pts]
        self.fields.update(name=name, orientation=orientation, tolerance=tolerance, points=MS.NDArr((len(rows), 3), rows))
        return None

    reg.models[f"{RG}:PointSetRegion.__init__"] = pointset_init
    reg.trust("PointSetRegion.__init__ (super call)", "stub: PointSetRegion.__init__(name, points) stores the points as an (n, 3) array in the order given, appending z = 0 to 2-D points; an empty list is rejected with IndexError (KD-tree set-up not modelled)")

    def mk(I, with_point=True):
        eng = I.eng
        sy, sx = GRID_SHAPES[eng.choose(len(GRID_SHAPES), "grid shape")]
        eng.input_syms.append(("shape", C.Const(None), [sy, sx]))
        cells = [[eng.fresh_int(f"grid.{j}.{i}") for i in range(sx)] for j in range(sy)]
        for row in cells:
            for v in row:
                eng.assume(sv_or(compare("==", v, 0), compare("==", v, 1)))  # documented: 0s and 1s
        for j in range(sy):
            for i in range(sx):
                eng.input_syms.append((f"grid.{j}.{i}", C.Int(), cells[j][i]))
        v = {n: eng.fresh_real(n) for n in ("Ax", "Ay", "Bx", "By")}
        eng.assume(sv_and(compare(">", v["Ax"], 0), compare(">", v["Ay"], 0)))
        for n in v:
            eng.input_syms.append((n, C.Real(), v[n]))
        return sy, sx, cells, v

    near = lambda f, n: sv_and(compare("<=", arith("-", f, n), 0.5), compare("<=", arith("-", n, f), 0.5))
    strictly = lambda f, n: sv_and(compare("<", arith("-", f, n), 0.5), compare("<", arith("-", n, f), 0.5))

    # ---------------------------------------------------------------- containsPoint
    def setup_c(sampled):
        def setup(I, env):
            eng = I.eng
            sy, sx, cells, v = mk(I)
            S = PObj(RC("GridRegion"), tag="self")
            init_samplable(S)
            S.fields.update(grid=MS.NDArr((sy, sx), [list(r) for r in cells]), sizeX=sx, sizeY=sy, orientation=None, name="grid", **v)
            if sampled:
                # a point that can be drawn: the grid point of a free cell (contract of __init__ below), at the height of the point table
                k = eng.choose(sy * sx, "free cell whose grid point was drawn")  # one fork per cell: keeps the arithmetic linear
                gx, gy = k % sx, k // sx
                eng.assume(compare("==", cells[gy][gx], 0))
                eng.input_syms.append(("cell", C.Const(None), [gx, gy]))
                p = (arith("+", arith("*", v["Ax"], gx), v["Bx"]), arith("+", arith("*", v["Ay"], gy), v["By"]), 0.0)
            else:
                p = tuple(eng.fresh_real(f"p.{k}") for k in "xyz")
                eng.input_syms.append(("p", C.TupleOf(C.Real(), C.Real(), C.Real()), p))
            env.vars.update(self=S, point=make_vector(*p), _p=p, _cells=cells, _v=v, _shape=(sy, sx))

        return setup

    def post_c(sampled):
        oname = "regions.GridRegion.containsPoint"

        def post(I, env, outcome):
            eng = I.eng
            if outcome[0] != "return":
                return
            res, p, cells, v, (sy, sx) = outcome[1], env.vars["_p"], env.vars["_cells"], env.vars["_v"], env.vars["_shape"]
            ok = isinstance(res, (bool, SV))
            eng.check(f"{oname}#ensures.returns_a_truth_value", ok)
            if not ok:
                return
            if sampled:
                eng.check(f"{oname}#ensures.the_grid_point_of_a_free_cell_is_a_member", res)
                return
            fx = arith("/", arith("-", p[0], v["Bx"]), v["Ax"])
            fy = arith("/", arith("-", p[1], v["By"]), v["Ay"])
            free_near = sv_or(*[sv_and(near(fx, i), near(fy, j), compare("==", cells[j][i], 0)) for j in range(sy) for i in range(sx)])
            eng.check(f"{oname}#ensures.member_only_if_a_nearest_grid_point_is_a_free_cell", sv_implies(res, free_near))
            free_strict = sv_or(*[sv_and(strictly(fx, i), strictly(fy, j), compare("==", cells[j][i], 0)) for j in range(sy) for i in range(sx)])
            eng.check(f"{oname}#ensures.member_if_the_strictly_nearest_grid_point_is_a_free_cell", sv_implies(free_strict, res))

        return post

    def replay_c(inputs, clause, what_for="member"):
        try:
            sy, sx = _lit(inputs["shape"])
            grid = [[int(inputs[f"grid.{j}.{i}"]) for i in range(sx)] for j in range(sy)]
            Ax, Ay, Bx, By = (float(inputs[k]) for k in ("Ax", "Ay", "Bx", "By"))
        except Exception:
            grid, (Ax, Ay, Bx, By) = [[0, 1, 0], [1, 0, 0]], (2.0, 0.5, -1.0, 3.0)
        sy, sx = len(grid), len(grid[0])
        probes = [(Ax * (i + dx) + Bx, Ay * (j + dy) + By) for i in range(-1, sx + 1) for j in range(-1, sy + 1) for dx, dy in ((0, 0), (0.3, -0.4), (-0.45, 0.45), (0.49, 0.1))]
        if "p" in inputs:
            try:
                probes.insert(0, (float(inputs["p"][0]), float(inputs["p"][1])))
            except Exception:
                pass
        for g, a in ((grid, (Ax, Ay, Bx, By)), ([[0, 1, 0], [1, 0, 0]], (2.0, 0.5, -1.0, 3.0))):
            if len(g[0]) != sx or len(g) != sy:
                pr = [(a[0] * (i + dx) + a[2], a[1] * (j + dy) + a[3]) for i in range(-1, 4) for j in range(-1, 3) for dx, dy in ((0, 0), (0.3, -0.4), (-0.45, 0.45))]
            else:
                pr = probes
            r = _real_grid_check(g, *a, pr, what_for=what_for)
            if r:
                return r
        return None

    replay_i = lambda inputs, clause: replay_c(inputs, clause, what_for="table")

    for sampled in (False, True):
        c = C.Contract(
            f"{RG}:GridRegion.containsPoint",
            params=dict(self=C.Const(None), point=C.Const(None)),
            setup=setup_c(sampled),
            post=post_c(sampled),
            inline_all=True,
            replay=replay_c,
            bounded=True,
            note="bounded: grids of 1x1, 2x2 and 2x3 cells (symbolic 0/1 entries, spacings, offsets, probe point); pointToGrid inlined (its own contract covers symbolic sizes)",
            properties=("C03",),
        )
        c.env = LazyEnv()
        reg.add(c, key=f"{RG}:GridRegion.containsPoint" + ("[drawn point]" if sampled else ""))

    # ---------------------------------------------------------------- __init__: the point table
    def setup_i(I, env):
        sy, sx, cells, v = mk(I)
        S = PObj(RC("GridRegion"), tag="self")
        env.vars.update(self=S, name="grid", grid=PList([PList(list(r)) for r in cells]), orientation=None, _cells=cells, _v=v, _shape=(sy, sx), **v)

    def post_i(I, env, outcome):
        eng = I.eng
        oname = "regions.GridRegion.__init__"
        cells, v, (sy, sx) = env.vars["_cells"], env.vars["_v"], env.vars["_shape"]
        # on this path every cell has been decided by numpy.where (or the grid is all obstacles)
        if outcome[0] == "raise":
            eng.check(f"{oname}#raises.only_if_the_grid_has_no_free_cell", sv_and(*[sv_not(compare("==", cells[j][i], 0)) for j in range(sy) for i in range(sx)]))
            return
        S = env.vars["self"]
        pts = S.fields.get("points")
        ok = isinstance(pts, MS.NDArr) and len(pts.shape) == 2 and pts.shape[1] == 3
        eng.check(f"{oname}#ensures.point_table_is_an_array_of_3d_points", ok)
        if not ok:
            return
        eng.check(f"{oname}#ensures.sizes_are_the_grid_shape", S.fields.get("sizeX") == sx and S.fields.get("sizeY") == sy)
        gp = lambda i, j: (arith("+", arith("*", v["Ax"], i), v["Bx"]), arith("+", arith("*", v["Ay"], j), v["By"]), 0.0)
        is_pt = lambda row, i, j: sv_and(*[compare("==", a, b) for a, b in zip(row, gp(i, j))])
        # every drawable point is the grid point of a free cell ...
        eng.check(f"{oname}#ensures.every_point_is_the_grid_point_of_a_free_cell", sv_and(*[sv_or(*[sv_and(is_pt(row, i, j), compare("==", cells[j][i], 0)) for j in range(sy) for i in range(sx)]) for row in pts.data]))
        # ... and every free cell contributes exactly one point (uniform over the free cells under the randrange law)
        nfree = 0
        for j in range(sy):
            for i in range(sx):
                nfree = arith("+", nfree, SV(z3.If(tobool(compare("==", cells[j][i], 0)), z3.IntVal(1), z3.IntVal(0))))
        eng.check(f"{oname}#ensures.one_point_per_free_cell", compare("==", nfree, pts.shape[0]))
        eng.check(f"{oname}#ensures.every_free_cell_has_its_grid_point_in_the_table", sv_and(*[sv_implies(compare("==", cells[j][i], 0), sv_or(*[is_pt(row, i, j) for row in pts.data])) for j in range(sy) for i in range(sx)]))

    reg.add(
        C.Contract(
            f"{RG}:GridRegion.__init__",
            params=dict(self=C.Const(None), name=C.Const(None), grid=C.Const(None), Ax=C.Const(None), Ay=C.Const(None), Bx=C.Const(None), By=C.Const(None), orientation=C.Const(None)),
            setup=setup_i,
            post=post_i,
            raises=[C.Raises("IndexError", mode="may")],
            inline_all=True,
            replay=replay_i,
            bounded=True,
            note="bounded: grids of 1x1, 2x2 and 2x3 cells (symbolic 0/1 entries); relative to N-where and the PointSetRegion.__init__ stub; together with PointSetRegion.uniformPointInner (randrange over the table) the draw is uniform over the free cells",
            properties=("C03",),
        )
    )
