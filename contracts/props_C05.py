"""Property fragment for C05 (see pyvc/GUIDE.md)."""

PROPERTIES = {
    "C05": dict(
        modules=["lifting", "types_support"],
        level="proof",
        claim="support intervals reported for lifted operators / monotone functions / ranges contain every value the "
        "expression can take (all real operand intervals, all points inside them); the simplification shortcuts of the "
        "operator handlers are identities of Python arithmetic; OperatorDistribution / TupleDistribution / "
        "AttributeDistribution / FunctionDistribution / MethodDistribution sampling applies the Python operation to the "
        "sampled operands in order with keyword names preserved; evaluateInner rebuilds the node from the corresponding "
        "operands; the DelayedArgument layer applies the operation to the context values of its parts; vector operator lifting "
        "(handlers, helpers, zero shortcuts as identities of vector arithmetic at every decoration site, Vector*Distribution nodes); "
        "dispatch of distributionFunction / distributionMethod; toDistribution / toLazyValue; TypecheckedDistribution; "
        "yaw/pitch/roll normalised by Constructible._specify; type layer (contracts/types_support.py, catalogue-bounded): "
        "canCoerceType agrees with the documented coercion rules, coercion commutes with sampling for toType / toScalar / "
        "toHeading / toVector (coerce, coerceToAny, TypecheckedDistribution construction + sampling inlined), unifierOfTypes / "
        "unifyingType return a type every option can be used as, underlyingType, toDistribution on namedtuples and dicts; "
        "TruncatedNormal.supportInterval contains every sample (cdf / cdfinv uninterpreted monotone functions)",
        note="floats as reals (A1); getattr/call on sampled values are abstract (logged) operations; type inference is not a carrier",
        assumptions=[
            "A1: floats are mathematical reals (no rounding, no overflow, no NaN)",
            "types_support: types range over a fixed catalogue (bounded contracts); the oracle for coercibility is the rule table "
            "in the module documentation of type_support plus 'an Orientation used as a heading is its yaw'",
            "monotonicDistributionFunction.support is verified under the precondition 'method is non-decreasing in every "
            "argument'; that precondition is discharged as an obligation at every decoration site found in the tree",
        ],
        not_reached=[
            "inferType of OperatorDistribution / AttributeDistribution (still stubbed in the lifting contracts)",
            "toOrientation / Orientation._coerce (numeric arms build rotations: C07) and Behavior._coerce / _canCoerceType",
            "toTypes with several destination types; the lazy arm of toTypes (TypeChecker) and evaluateRequiringEqualTypes / TypeEqualityChecker",
            "coerce on a TupleDistribution (direct conversion to a Vector of random coordinates)",
            "object_types inradiusSupport / planarInradiusSupport (custom support functions over mesh geometry)",
            "Normal.cdf / cdfinv themselves (erf, erfinv: trusted monotone inverse pair inside TruncatedNormal.sampleGiven); TruncatedNormal.bucket",
            "toLazyValue on dicts and namedtuples",
            "rotation of the zero vector by an Orientation (rotation-group axiom, C07)",
        ],
    ),
}
