"""Property fragment for C05 (see pyvc/GUIDE.md)."""

PROPERTIES = {
    "C05": dict(
        modules=["lifting"],
        level="proof",
        claim="support intervals reported for lifted operators / monotone functions / ranges contain every value the "
        "expression can take (all real operand intervals, all points inside them); the simplification shortcuts of the "
        "operator handlers are identities of Python arithmetic; OperatorDistribution / TupleDistribution / "
        "AttributeDistribution / FunctionDistribution / MethodDistribution sampling applies the Python operation to the "
        "sampled operands in order with keyword names preserved; evaluateInner rebuilds the node from the corresponding "
        "operands; the DelayedArgument layer applies the operation to the context values of its parts; vector operator lifting "
        "(handlers, helpers, zero shortcuts as identities of vector arithmetic at every decoration site, Vector*Distribution nodes); "
        "dispatch of distributionFunction / distributionMethod; toDistribution / toLazyValue; TypecheckedDistribution; "
        "yaw/pitch/roll normalised by Constructible._specify",
        note="floats as reals (A1); getattr/call on sampled values are abstract (logged) operations; type inference is not a carrier",
        assumptions=[
            "A1: floats are mathematical reals (no rounding, no overflow, no NaN)",
            "monotonicDistributionFunction.support is verified under the precondition 'method is non-decreasing in every "
            "argument'; that precondition is discharged as an obligation at every decoration site found in the tree",
        ],
        not_reached=[
            "type inference (inferType/underlyingType/unifyingType) and the coercion rules (toScalar/toVector/canCoerceType): only affect inserted coercions",
            "object_types inradiusSupport / planarInradiusSupport (custom support functions over mesh geometry)",
            "TruncatedNormal.supportInterval / sampleGiven (erf, erfinv not modelled)",
            "toLazyValue on dicts and namedtuples; toDistribution on namedtuples",
            "rotation of the zero vector by an Orientation (rotation-group axiom, C07)",
        ],
    ),
}
