"""Property fragment for C17 (contracts/visibility.py, library model pyvc/models_geom.py)."""

PROPERTIES = {
    "C17": dict(
        modules=["visibility"],
        level="proof",
        claim="point/vector branch of canSee: visible iff inside the view volume and no in-range occluder hit lies on the segment to the target (exact characterisation, hence monotone in occluders); viewer wrappers pass camera position = position + R*cameraOffset, orientation, distance, angles and occluders through; veneer.CanSee passes exactly the occluding objects other than viewer and target",
        note="proof (partial): relative to the rotation-group axioms (L-rot.*) and trigonometric identities (A2.*); floats as reals; target at the camera position excluded (direction undefined, nan in the code)",
        assumptions=[
            "L-rot: scipy Rotation is a group acting on R^3 (models_geom)",
            "A2: trigonometric identities named A2.* (models_geom)",
            "trimesh ray.intersects_location modelled as an arbitrary finite set of hit locations per occluder (0..2 hits, symbolic positions)",
        ],
        not_reached=["visibility.canSee object branch (ray casting with numpy/trimesh): 'an object is seen whenever a substantial part of it is in view' is not proved", "Object.visibleRegion / ViewRegion geometry (C16/C04)", "VisibilityRequirement occluder sets (C02, F21)"],
    )
}
