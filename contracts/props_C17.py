"""Property fragment for C17 (contracts/visibility.py, library model pyvc/models_geom.py)."""

PROPERTIES = {
    "C17": dict(
        modules=["visibility"],
        borrow=dict(modules=["requirements"], match=["VisibilityRequirement"]),
        level="proof",
        claim=(
            "point/vector branch of visibility.canSee: with nothing occluding, visible <=> inside the view volume (distance, azimuth and altitude "
            "of R^-1 (t - p)); with occluders the verdict is the unoccluded verdict minus 'some in-range occluder is hit at or before the target' "
            "(hence monotone in occluders); the ray tested against occluders is the camera -> target ray; Point/OrientedPoint/Object.canSee pass "
            "camera position (= position + R * cameraOffset), orientation, distance, angles, ray parameters and occluders through unchanged; "
            "veneer.CanSee hands over exactly the occluding scene objects other than viewer and target"
        ),
        note="proof (partial): relative to L-rot.* / A2.* / A1.* axioms; floats as reals; a target exactly at the camera position is excluded (direction undefined: nan in the code)",
        assumptions=[
            "L-rot: scipy Rotation acts linearly (R R^-1 v = v, R 0 = 0, R (v / c) = (R v) / c)",
            "A2: atan2 range / positive homogeneity, asin(z/|v|) = atan2(z, hypot(x, y))",
            "trimesh ray.intersects_location modelled as an arbitrary finite list of hit locations per occluder (0..2 hits, symbolic positions); numpy arrays of concrete shape",
            "Vector.__truediv__ used through its C07 contract at call sites inside canSee",
        ],
        bounded=[
            "stand-in view_volume_catalogue (never counted as proved): the real Object.canSee on 3 viewer poses x 4 view settings x box targets (cube, beam, plate) placed in the viewer's frame at "
            "4 ranges x 5 azimuths x 2 altitudes x 2 yaws (2880 configurations in the thorough tier, every fifth in the quick tier), brute-force surface sampling as oracle: "
            "wholly outside the view volume => not visible; substantial part inside, nothing occluding => visible; a wall never adds visibility; a covering wall hides a compact target",
        ],
        not_reached=[
            "visibility.canSee object branch (ray casting with numpy/trimesh): not proved; covered only by the bounded stand-in view_volume_catalogue",
            "mesh geometry of ViewRegion / ViewSectionRegion / CylinderSectionRegion (only the parameters and the case split are under contract; C16/C04)",
            "VisibilityRequirement occluder sets (C02, F21)",
        ],
    )
}
