"""Sidecar contracts for the scenario life cycle around temporal requirements and guards:

* C11, `DynamicScenario._start[requirement monitors]`: "every temporal requirement registered by the scenario, and only
  those, becomes a monitor that is updated once per step from the step it was declared" -- at start one monitor per
  registered requirement (same order, each requirement asked exactly once), none for requirements of other scenarios,
  no monitor is stepped by the start itself, and the first REAL `_step` after the start steps every one exactly once.
* C11, `DynamicScenario._compileRequirements`: every pending requirement of the scenario (and only those) is compiled
  exactly once with the syntax tree registered under ITS id, and lands in the list of its kind -- `require` statements
  (the temporal ones among them) in `_requirements`, which is what `Scenario.generate` turns into the scene's
  temporal requirements -- in declaration order.
* C13, `DynamicScenario._prepare[guards]` followed by the REAL `_start`: "preconditions are checked when a behavior or
  scenario starts": exactly once over prepare + start (at prepare time normally, at start time for the top-level scenario
  whose check is delayed), preconditions before invariants, before the setup block / the compose block / the agents'
  behaviors run; a violation propagates, and a scenario whose delayed check fails is not left running.

The scenario is a heap object of the real class; requirements, monitors, agents' behaviors and the blocks are modelled
objects that log events.  The veneer module state is the mechanically extracted state vector (pyvc/models_dyn.py)."""
import ast

from pyvc import builtins_model as bm
from pyvc import contracts as C
from pyvc import models_dyn as MD
from pyvc.interp import BuiltinFn, SymRaise
from pyvc.values import Opaque, PDict, PExc, PList, PObj, PyvcError

from .common import repo_class

DS = "scenic.core.dynamics.scenarios"
BH = "scenic.core.dynamics.behaviors"
IV = "scenic.core.dynamics.invocables"
GD = "scenic.core.dynamics.guards"
RQ = "scenic.core.requirements"
V = "scenic.syntax.veneer"

NREQ = 3


def _exc_name(outcome):
    return getattr(outcome[1].cls, "name", getattr(outcome[1].cls, "__name__", "?")) if outcome[0] == "raise" else None


def register(reg):
    MD.install_veneer_state(reg)
    MD.install_iterators(reg)
    from pyvc import models_spec

    models_spec.install(reg)
    reg.models.setdefault(f"{V}:verbosePrint", lambda I, *a, **k: None)
    if "scenic.core.utils:alarm" not in reg.models:
        reg.models["scenic.core.utils:alarm"] = lambda I, *a, **k: bm.ContextManagerVal(lambda I_: None, lambda I_, exc: False)
        reg.trust("utils.alarm", "stub: the watchdog timer context manager does nothing observable")
    reg.extra_modules = getattr(reg, "extra_modules", None) or {}
    if "rv_ltl" not in reg.extra_modules:
        B4 = bm.NativeModule("rv_ltl.B4", {"TRUE": "B4.TRUE", "FALSE": "B4.FALSE", "PRESUMABLY_TRUE": "B4.PRESUMABLY_TRUE", "PRESUMABLY_FALSE": "B4.PRESUMABLY_FALSE"})
        reg.extra_modules["rv_ltl"] = bm.NativeModule("rv_ltl", {"B4": B4})
        reg.trust("rv_ltl.B4", "the four truth values are modelled as four distinct tokens")

    def dict_view(I, obj):
        # obj.__dict__ of a scenario instance: its attributes by name (a snapshot is enough: the carrier only reads it)
        if getattr(obj, "_dict_view", None) is None:
            obj._dict_view = PDict([(k, v) for k, v in obj.fields.items() if isinstance(k, str)])
        return obj._dict_view

    reg.attr_hooks[(f"{DS}:DynamicScenario", "__dict__")] = dict_view
    register_start(reg)
    register_compile_requirements(reg)
    register_prepare_guards(reg)


# ====================================================================================================
# the scenario world shared by the _start / _prepare contracts


def scenario_world(I, n_req, delayed, fail_at=None, has_compose=True, req_container="list"):
    """A DynamicScenario heap object ready to be started; everything it touches logs into eng.events."""
    eng = I.eng
    log = eng.events
    st = MD.current_state(I)
    sc = PObj(repo_class(f"{DS}:DynamicScenario"), tag="scenario")
    reqs, mons = [], []
    for k in range(n_req):
        r = PObj("DynamicRequirement", tag=f"temporal requirement {k}")
        m = PObj("RequirementMonitor", tag=f"monitor of temporal requirement {k}")

        def to_monitor(k=k, m=m):
            log.append(("toMonitor", k))
            return m

        def value(k=k):
            log.append(("monitor_value", k, sc.fields.get("_elapsedTime")))
            return "B4.PRESUMABLY_TRUE"

        r.fields["toMonitor"] = BuiltinFn("toMonitor", to_monitor)
        m.fields["value"] = BuiltinFn("value", value)
        reqs.append(r)
        mons.append(m)
    # a requirement of ANOTHER scenario (the parent): must not be monitored by this one
    foreign = PObj("DynamicRequirement", tag="temporal requirement of the parent scenario")
    foreign.fields["toMonitor"] = BuiltinFn("toMonitor", lambda: log.append(("toMonitor", "foreign")) or PObj("RequirementMonitor", tag="foreign monitor"))
    parent = PObj(repo_class(f"{DS}:DynamicScenario"), tag="parent scenario")
    parent.fields.update(_temporalRequirements=PList([foreign]), _requirementMonitors=PList([PObj("RequirementMonitor", tag="parent's monitor")]), _ego=Opaque("ego"), _workspace=Opaque("workspace"), _globalParameters=PDict())

    def guard(kind):
        def chk(agent, *a, **k):
            log.append((kind, sc.fields.get("_isRunning"), st.get("currentScenario")))
            if fail_at == kind:
                cls_ = repo_class(f"{GD}:PreconditionViolation" if kind == "preconditions" else f"{GD}:InvariantViolation")
                raise SymRaise(PExc(cls_, (sc, 1)))

        return BuiltinFn("check" + kind.capitalize(), chk)

    def compose(*a, **k):
        log.append(("compose generator created", st.get("currentScenario")))
        return MD.ScriptedIterator("compose block", lambda n: log.append(("compose resumed", n)) or ("yield", None))

    compose_fn = BuiltinFn("_compose", compose)
    compose_fn.is_generator_function = True
    agent = PObj("Object", tag="agent")
    beh = PObj(repo_class(f"{BH}:Behavior"), tag="behavior of the agent")
    beh.fields["_assignTo"] = BuiltinFn("_assignTo", lambda ag: log.append(("behavior started", ag)))
    agent.fields["behavior"] = beh
    mon = PObj(repo_class(f"{BH}:Monitor"), tag="monitor")
    mon.fields["_start"] = BuiltinFn("_start", lambda: log.append(("monitor started",)))
    sc.fields.update(
        _isRunning=False, _prepared=True, _delayingPreconditionCheck=delayed, _args=(), _kwargs=PDict(), _agent=None, _runningIterator=None,
        _timeLimit=None, _timeLimitIsInSeconds=False, _timeLimitInSteps=None, _elapsedTime=0,
        _temporalRequirements=PList(reqs) if req_container == "list" else tuple(reqs), _requirementMonitors=None,
        _compose=compose_fn if has_compose else None, _agents=PList([agent]), _monitors=PList([mon]), _recordedExprs=PList(),
        _globalParameters=PDict(), _ego=None, _workspace=None, _endWithBehaviors=False, _terminationConditions=PList(), _subScenarios=PList(), _overrides=PDict(),
    )
    sc.fields["checkPreconditions"] = guard("preconditions")
    sc.fields["checkInvariants"] = guard("invariants")
    sim = PObj("Simulation", tag="simulation")
    sim.fields.update(timestep=1, name="sim", currentTime=0)
    st.set("currentSimulation", sim)
    st.set("currentScenario", parent)
    st.get("runningScenarios").items.append(parent)
    return sc, parent, reqs, mons


# ====================================================================================================
# C11: DynamicScenario._start -- registered temporal requirements become monitors


def register_start(reg):
    tgt = f"{DS}:DynamicScenario._start"
    key = tgt + "[requirement monitors]"
    name = "scenarios.DynamicScenario._start[requirement monitors]"

    def setup(I, env):
        eng = I.eng
        n = MD.pick(I, NREQ + 1, "number of temporal requirements registered by the scenario (0-3)")
        container = ["list", "tuple"][MD.pick(I, 2, "requirements held in: a list (sub-scenario) / the scene's tuple (top-level scenario)")]
        has_compose = MD.pick(I, 2, "scenario has a compose block?") == 1
        eng.input_syms.append(("case", C.Const(None), repr((n, container, has_compose))))
        sc, parent, reqs, mons = scenario_world(I, n, delayed=False, has_compose=has_compose, req_container=container)
        env.vars.update(self=sc, _n=n, _mons=mons, _parent=parent)

    def post(I, env, outcome):
        eng = I.eng
        if outcome[0] != "return":
            return  # reported by #no-unexpected-exception
        sc, n, mons = env.vars["self"], env.vars["_n"], env.vars["_mons"]
        ev = list(eng.events)
        got = sc.fields.get("_requirementMonitors")
        items = list(got.items) if isinstance(got, PList) else None
        asked = [e[1] for e in ev if e[0] == "toMonitor"]
        eng.check(f"{name}#ensures.every_registered_temporal_requirement_is_turned_into_a_monitor_exactly_once", sorted(asked, key=str) == list(range(n)), detail=f"toMonitor asked of {asked}")
        ok = items is not None and len(items) == n and all(sum(1 for x in items if x is m) == 1 for m in mons)
        eng.check(f"{name}#ensures.the_scenario_monitors_exactly_its_own_requirements", ok, detail=f"monitors: {items}")
        eng.check(f"{name}#ensures.requirements_of_other_scenarios_are_not_monitored_by_this_one", "foreign" not in asked and (items is None or not any(getattr(m, "tag", "").startswith(("foreign", "parent")) for m in items)))
        eng.check(f"{name}#ensures.starting_does_not_step_any_monitor", not any(e[0] == "monitor_value" for e in ev))
        eng.check(f"{name}#ensures.the_parent_scenario_keeps_its_own_monitors", len(env.vars["_parent"].fields["_requirementMonitors"].items) == 1)
        if not ok:
            return
        # ... followed by the REAL first step: every monitor updated exactly once, in that step
        del eng.events[:]
        try:
            I.run_function(I.find_method(repo_class(f"{DS}:DynamicScenario"), "_step"), [sc], {}, reg.contracts[key].inline_view())
        except SymRaise as sr:
            eng.check(f"{name}#ensures.first_step_after_the_start_runs", False, detail=repr(sr.exc))
            return
        stepped = [e[1] for e in eng.events if e[0] == "monitor_value"]
        eng.check(f"{name}#ensures.first_step_after_the_start_updates_every_monitor_exactly_once", sorted(stepped) == list(range(n)), detail=f"monitors stepped: {stepped}")
        eng.check(f"{name}#ensures.monitors_are_updated_before_the_compose_block_runs_in_that_step", [e[0] for e in eng.events if e[0] in ("monitor_value", "compose resumed")] == ["monitor_value"] * n + (["compose resumed"] if sc.fields["_compose"] is not None else []))

    reg.add(
        C.Contract(
            tgt,
            params=dict(self=C.Const(None)),
            setup=setup,
            post=post,
            inline=["Invocable._start", "Invocable._finalizeArguments", "Invocable._checkAllPreconditions", "startScenario", "DynamicScenario._step", "Invocable._step", "DynamicScenario._stop", "Invocable._stop", "endScenario"],
            raises=[C.Raises("InvalidScenarioError", mode="may")],
            replay=replay_requirement_lifetimes,
            bounded=True,
            note="bounded: 0-3 registered temporal requirements (held in a list or in the scene's tuple), one requirement of another scenario, one agent, one monitor, with / without compose block",
            properties=("C11",),
        ),
        key=key,
    )


# ====================================================================================================
# C11: DynamicScenario._compileRequirements


KINDS = ["require", "monitor", "terminateWhen", "terminateSimulationWhen", "record", "recordInitial", "recordFinal"]
PLACE = {
    "require": "_requirements",
    "monitor": "_monitorRequirements",
    "terminateWhen": "_terminationConditions",
    "terminateSimulationWhen": "_terminateSimulationConditions",
    "record": "_recordedExprs",
    "recordInitial": "_recordedInitialExprs",
    "recordFinal": "_recordedFinalExprs",
}
# declaration orders explored: (kind, temporal?) per pending requirement; ids are deliberately not 0..n-1 in list order
COMPILE_WORLDS = [
    [("require", True), ("require", False), ("require", True)],
    [("require", True), ("terminateWhen", False), ("require", True), ("record", False)],
    [("monitor", False), ("require", True), ("terminateSimulationWhen", False)],
    [("recordInitial", False), ("recordFinal", False), ("require", True)],
    [],
]


def register_compile_requirements(reg):
    tgt = f"{DS}:DynamicScenario._compileRequirements"
    name = "scenarios.DynamicScenario._compileRequirements"

    def setup(I, env):
        eng = I.eng
        w = MD.pick(I, len(COMPILE_WORLDS), "declared requirement-like statements")
        world = COMPILE_WORLDS[w]
        top_level = MD.pick(I, 2, "scenario: modular / top-level (dummy namespace)") == 1
        eng.input_syms.append(("case", C.Const(None), repr((w, top_level))))
        RT = repo_class(f"{RQ}:RequirementType")
        sc = PObj(repo_class(f"{DS}:DynamicScenario"), tag="scenario")
        log = eng.events
        n = len(world)
        # the compiler numbers requirements per module: the ids of this scenario's statements need not start at 0
        ids = [2 * k + 1 for k in range(n)]
        syntax = PList([ast.Name(id=f"syntax_{j}", ctx=ast.Load()) for j in range(2 * n + 1)])
        pend, compiled = [], []
        for k, (kind, temporal) in enumerate(world):
            p = PObj("PendingRequirement", tag=f"pending {kind} #{k}")
            c = PObj("CompiledRequirement", tag=f"compiled {kind} #{k}")
            p.fields["ty"] = I.get_attr(RT, kind)
            c.fields.update(ty=I.get_attr(RT, kind), dependencies=PDict([(PObj("Dep", tag=f"dependency of #{k}"), None)]), temporal=temporal)

            def compile_(namespace, scenario, syn, k=k, c=c):
                log.append(("compile", k, namespace, scenario, syn))
                return c

            p.fields["compile"] = BuiltinFn("compile", compile_)
            pend.append(p)
            compiled.append(c)
        ns = PDict([("x", 1)])
        sc.fields.update(
            _dummyNamespace=ns if top_level else None, _requirementSyntax=syntax, _pendingRequirements=PList([(ids[k], pend[k]) for k in range(n)]),
            _requirementDeps=PDict(), **{place: PList() for place in PLACE.values()},
        )
        foreign = PObj("PendingRequirement", tag="pending requirement of another scenario")
        foreign.fields["compile"] = BuiltinFn("compile", lambda *a: log.append(("compile", "foreign")))
        env.vars.update(self=sc, _world=world, _ids=ids, _compiled=compiled, _syntax=syntax, _ns=ns, _top=top_level)

    def post(I, env, outcome):
        eng = I.eng
        if outcome[0] != "return":
            return
        sc, world, ids, compiled, syntax = (env.vars[k] for k in ("self", "_world", "_ids", "_compiled", "_syntax"))
        ev = [e for e in eng.events if e[0] == "compile"]
        n = len(world)
        eng.check(f"{name}#ensures.every_pending_requirement_compiled_exactly_once_in_declaration_order_and_no_other", [e[1] for e in ev] == list(range(n)))
        eng.check(f"{name}#ensures.each_compiled_with_the_syntax_tree_registered_under_its_own_id", all(e[4] is syntax.items[ids[e[1]]] for e in ev if isinstance(e[1], int)))
        eng.check(f"{name}#ensures.each_compiled_for_this_scenario", all(e[3] is sc for e in ev if isinstance(e[1], int)))
        if env.vars["_top"]:
            eng.check(f"{name}#ensures.top_level_requirements_compiled_in_the_module_namespace", all(e[2] is env.vars["_ns"] for e in ev if isinstance(e[1], int)))
        else:
            eng.check(f"{name}#ensures.requirements_of_a_modular_scenario_compiled_in_the_namespace_of_its_own_variables", all(e[2] is getattr(sc, "_dict_view", None) for e in ev if isinstance(e[1], int)))
        for kind, place in PLACE.items():
            want = [compiled[k] for k, (kd, _) in enumerate(world) if kd == kind]
            got = list(sc.fields[place].items)
            eng.check(f"{name}#ensures.{place}_holds_exactly_the_{kind}_statements_of_the_scenario_in_declaration_order", len(got) == len(want) and all(a is b for a, b in zip(got, want)), detail=f"{place}: {got}")
        # the temporal requirements are `require` statements: all of them (and only compiled requirements of this scenario) reach _requirements
        temporal = [compiled[k] for k, (kd, t) in enumerate(world) if t]
        eng.check(f"{name}#ensures.every_temporal_requirement_of_the_scenario_is_among_its_requirements", all(any(t is x for x in sc.fields["_requirements"].items) for t in temporal))
        deps = sc.fields["_requirementDeps"]
        eng.check(f"{name}#ensures.dependencies_of_every_requirement_collected", len(deps.keys) == n and all(any(k_ is d for k_ in deps.keys) for c in compiled for d in c.fields["dependencies"].keys))

    reg.add(
        C.Contract(
            tgt,
            params=dict(self=C.Const(None)),
            setup=setup,
            post=post,
            inline=["DynamicScenario._registerCompiledRequirement"],
            raises=[C.Raises("ScenicSyntaxError", mode="may")],
            replay=replay_compile_requirements,
            bounded=True,
            note=f"bounded: {len(COMPILE_WORLDS)} declaration lists of 0-4 requirement-like statements covering all 7 kinds; requirement ids 1,3,5,... into a syntax table of 2n+1 entries; modular and top-level scenario",
            properties=("C11",),
        )
    )


# ====================================================================================================
# C13: guard checks of a scenario: _prepare, then the REAL _start


def register_prepare_guards(reg):
    tgt = f"{DS}:DynamicScenario._prepare"
    key = tgt + "[guards]"
    name = "scenarios.DynamicScenario._prepare[guards]"

    def setup(I, env):
        eng = I.eng
        delayed = MD.pick(I, 2, "precondition check: at prepare time (sub-scenario) / delayed to the start (top-level scenario)") == 1
        fail_at = [None, "preconditions", "invariants"][MD.pick(I, 3, "guards: all hold / a precondition fails / an invariant fails")]
        eng.input_syms.append(("case", C.Const(None), repr((delayed, fail_at))))
        sc, parent, reqs, mons = scenario_world(I, 1, delayed=False, fail_at=fail_at)
        sc.fields.update(_prepared=False, _pendingRequirements=PList(), _requirementSyntax=PList(), _dummyNamespace=None, _requirementDeps=PDict())
        log = eng.events
        st = MD.current_state(I)
        sc.fields["_setup"] = BuiltinFn("_setup", lambda *a, **k: log.append(("setup block", st.get("currentScenario"))))
        env.vars.update(self=sc, delayPreconditionCheck=delayed, _fail=fail_at, _parent=parent)

    def post(I, env, outcome):
        eng = I.eng
        sc, delayed, fail_at, parent = env.vars["self"], env.vars["delayPreconditionCheck"], env.vars["_fail"], env.vars["_parent"]
        st = MD.current_state(I)
        ev = list(eng.events)
        ks = [e[0] for e in ev]
        guards = [e for e in ev if e[0] in ("preconditions", "invariants")]
        want = [] if delayed else ["preconditions"] if fail_at == "preconditions" else ["preconditions", "invariants"]
        eng.check(f"{name}#ensures.prepare_checks_preconditions_then_invariants_once_unless_delayed", [e[0] for e in guards] == want, detail=repr(ks))
        eng.check(f"{name}#ensures.guards_checked_before_the_setup_block_runs", "setup block" not in ks or all(i < ks.index("setup block") for i, k in enumerate(ks) if k in ("preconditions", "invariants")))
        eng.check(f"{name}#ensures.guards_and_setup_run_in_the_context_of_the_scenario", all(e[2] is sc for e in guards) and all(e[1] is sc for e in ev if e[0] == "setup block"))
        eng.check(f"{name}#ensures.context_of_the_invoking_scenario_restored", st.get("currentScenario") is parent)
        failed_now = fail_at is not None and not delayed
        eng.check(f"{name}#raises.violation_propagates_iff_a_guard_checked_now_fails", (outcome[0] == "raise") == failed_now, detail=repr(outcome))
        if outcome[0] == "raise":
            eng.check(f"{name}#ensures.setup_block_not_run_after_a_violated_guard", "setup block" not in ks)
            return
        eng.check(f"{name}#ensures.setup_block_run_exactly_once", ks.count("setup block") == 1)
        # ... followed by the REAL _start
        n_before = len(ev)
        started = ("return", None)
        try:
            I.run_function(I.find_method(repo_class(f"{DS}:DynamicScenario"), "_start"), [sc], {}, reg.contracts[key].inline_view())
        except SymRaise as sr:
            started = ("raise", sr.exc)
        ev2 = list(eng.events)[n_before:]
        ks2 = [e[0] for e in ev2]
        g2 = [e[0] for e in ev2 if e[0] in ("preconditions", "invariants")]
        want2 = [] if not delayed else ["preconditions"] if fail_at == "preconditions" else ["preconditions", "invariants"]
        eng.check(f"{name}#ensures.start_checks_the_guards_exactly_when_the_check_was_delayed", g2 == want2, detail=repr(ks2))
        total = [e[0] for e in list(eng.events) if e[0] in ("preconditions", "invariants")]
        eng.check(f"{name}#ensures.preconditions_checked_exactly_once_over_prepare_and_start", total.count("preconditions") == 1)
        eng.check(f"{name}#raises.start_fails_iff_a_delayed_guard_fails", (started[0] == "raise") == (delayed and fail_at is not None), detail=repr(started))
        first_run = min([i for i, k in enumerate(ks2) if k in ("compose generator created", "behavior started", "monitor started")] or [len(ks2)])
        eng.check(f"{name}#ensures.delayed_guards_checked_before_the_compose_block_behaviors_and_monitors_start", all(i < first_run for i, k in enumerate(ks2) if k in ("preconditions", "invariants")))
        if started[0] == "raise":
            eng.check(f"{name}#ensures.nothing_of_the_scenario_starts_after_a_violated_guard", first_run == len(ks2))
            eng.check(f"{name}#ensures.scenario_with_a_violated_guard_is_not_left_running", sc.fields["_isRunning"] is False and not any(x is sc for x in st.get("runningScenarios").items))
        else:
            eng.check(f"{name}#ensures.started_scenario_is_running_and_registered_once", sc.fields["_isRunning"] is True and sum(1 for x in st.get("runningScenarios").items if x is sc) == 1)
            eng.check(f"{name}#ensures.compose_block_created_not_resumed_behaviors_and_monitors_started_once", ks2.count("compose generator created") == 1 and "compose resumed" not in ks2 and ks2.count("behavior started") == 1 and ks2.count("monitor started") == 1)

    reg.add(
        C.Contract(
            tgt,
            params=dict(self=C.Const(None), delayPreconditionCheck=C.Const(None)),
            setup=setup,
            post=post,
            inline=[
                "Invocable._start", "Invocable._finalizeArguments", "Invocable._checkAllPreconditions", "startScenario", "prepareScenario", "finishScenarioSetup",
                "DynamicScenario._start", "DynamicScenario._compileRequirements", "needsLazyEvaluation",
            ],
            raises=[C.Raises("Exception", mode="may")],
            replay=replay_scenario_guards,
            bounded=True,
            note="bounded: one scenario with setup and compose block, one agent, one monitor, one temporal requirement; guards: all hold / a precondition fails / an invariant fails; check at prepare time or delayed to the start",
            properties=("C13",),
        ),
        key=key,
    )


# ----------------------------------------------------------------------------------------------------
# replay drivers (REAL code)

LIFETIME_PROGRAM = """
import builtins
log = builtins._pyvc_log
def T():
    import scenic.syntax.veneer as v
    return v.currentSimulation.currentTime if v.currentSimulation is not None else -1
def atom(name):
    log.append((name, T()))
    return True
scenario Sub():
    setup:
        require always atom("s0")
        require eventually atom("s1")
    compose:
        log.append(("sub-first", T()))
        wait
        require always atom("s2")
        wait
        wait
        log.append(("sub-last", T()))
scenario Main():
    setup:
        ego = new Object
        require always atom("m0")
        require (always atom("m1")) and (eventually atom("m2"))
    compose:
        wait
        do Sub()
        log.append(("back", T()))
        wait
        wait
"""


def _simulate(src, steps=12, scenario=None, **kw):
    import builtins

    import scenic
    from scenic.core.simulators import DummySimulator

    log = []
    builtins._pyvc_log = log
    try:
        sc = scenic.scenarioFromString(src, mode2D=True, **({"scenario": scenario} if scenario else {}))
        scene, _ = sc.generate(maxIterations=5)
        del log[:]
        try:
            sim = DummySimulator().simulate(scene, maxSteps=steps, maxIterations=1, **kw)
        except Exception as e:
            return f"raised {type(e).__name__}: {e}", list(log)
        return ("rejected" if sim is None else sim), list(log)
    finally:
        del builtins._pyvc_log


def replay_requirement_lifetimes(inputs, clause):
    """Top-level requirements and requirements of a sub-scenario (setup block and compose block): each atom is evaluated
    exactly once in every step from the step its requirement takes effect to the last step of its scenario, and never
    outside that interval."""
    sim, log = _simulate(LIFETIME_PROGRAM, scenario="Main")
    if isinstance(sim, str):
        return f"the program with temporal requirements in Main and Sub was {sim}"
    marks = {e[0]: e[1] for e in log if e[0] in ("sub-first", "sub-last", "back")}
    if marks.get("sub-first") != 1 or marks.get("sub-last") != 4 or marks.get("back") != 4:
        return f"unexpected schedule of the sub-scenario: {marks} (started in step 1, waits in steps 1-3, finishes in step 4)"
    end = sim.currentTime
    want = {"m0": list(range(0, end + 1)), "m1": list(range(0, end + 1)), "m2": list(range(0, end + 1)), "s0": [1, 2, 3, 4], "s1": [1, 2, 3, 4], "s2": [3, 4]}
    # s2 is declared in the compose block during step 2: it takes effect in the next update of the monitors (step 3)
    for a, steps in want.items():
        got = [t for (n, t) in log if n == a]
        if got != steps:
            return f"atom {a} of a temporal requirement was evaluated in steps {got}; its requirement is in effect in steps {steps} (one evaluation per step; Main runs steps 0..{end}, Sub runs steps 1..4)"
    # a requirement of the sub-scenario that is violated while it runs rejects; one violated after it has ended does not exist any more
    prog = (
        "def T():\n    import scenic.syntax.veneer as v\n    return v.currentSimulation.currentTime\n"
        "scenario Sub():\n    setup:\n        require always T() != {bad}\n    compose:\n        wait\n        wait\n"
        "scenario Main():\n    setup:\n        ego = new Object\n    compose:\n        wait\n        do Sub()\n        wait\n        wait\n        wait\n"
    )
    for bad, want_rej in ((0, False), (1, True), (2, True), (3, True), (4, False), (5, False)):
        sim, _ = _simulate(prog.format(bad=bad), scenario="Main")
        if isinstance(sim, str) and sim != "rejected":
            return f"`require always T() != {bad}` in the setup block of a sub-scenario running in steps 1..3: {sim}"
        if (sim == "rejected") != want_rej:
            return f"`require always T() != {bad}` in the setup block of a sub-scenario that runs in steps 1..3: simulation {'rejected' if sim == 'rejected' else 'accepted'}; the requirement is monitored exactly while the sub-scenario runs, so it must be {'rejected' if want_rej else 'accepted'}"
    return None


def replay_compile_requirements(inputs, clause):
    """Real programs declaring several requirement-like statements: each ends up in the scenario's list of its kind, in
    declaration order, compiled from its own syntax (checked through the line numbers and the behaviour of the closures)."""
    import scenic

    src = (
        "ego = new Object\n"
        "x = 1\n"
        "require always x > 0\n"
        "terminate when x > 5\n"
        "require x > 0 as second\n"
        "record x as rec\n"
        "require eventually x > 0\n"
        "terminate simulation when x > 7\n"
        "record initial x as ri\n"
        "record final x as rf\n"
    )
    sc = scenic.scenarioFromString(src, mode2D=True)
    dyn = sc.dynamicScenario
    got = {place: [(r.line, r.name) for r in getattr(dyn, place)] for place in PLACE.values()}
    want = {
        "_requirements": [3, 5, 7],
        "_monitorRequirements": [],
        "_terminationConditions": [4],
        "_terminateSimulationConditions": [8],
        "_recordedExprs": [6],
        "_recordedInitialExprs": [9],
        "_recordedFinalExprs": [10],
    }
    user = {k: [ln for ln, _ in v if ln is not None and ln >= 1] for k, v in got.items()}
    for place, lines in want.items():
        if [ln for ln in user[place]] != lines:
            return f"requirement-like statements on lines 3-10: {place} holds the statements of lines {user[place]}, declared: {lines}"
    scene, _ = sc.generate(maxIterations=5)
    lines = [r.line for r in scene.temporalRequirements]
    if [ln for ln in lines if ln in (3, 7)] != [3, 7] or any(ln not in (3, 5, 7) for ln in lines):
        return f"the temporal requirements of lines 3 and 7 reach the scene as the requirements of lines {lines} (each `require` of the scenario once, in declaration order, and nothing else)"
    # every requirement is compiled against ITS syntax: the monitor-keyword check looks at the syntax of the statement itself
    src2 = "monitor M():\n    wait\nego = new Object\nrequire always ego.x >= 0\nrequire monitor M()\n"
    try:
        scenic.scenarioFromString(src2, mode2D=True)
    except Exception as e:
        return f"`require always ...` followed by `require monitor M()`: {type(e).__name__}: {e} (each statement must be compiled with its own syntax tree)"
    return None


def replay_scenario_guards(inputs, clause):
    """Preconditions / invariants of scenarios: evaluated once when the scenario starts (top-level: at simulation start;
    sub-scenario: when invoked), a violation rejects (or raises when requested) and nothing of the scenario runs."""
    from scenic.core.dynamics.guards import GuardViolation

    head = "import builtins\nlog = builtins._pyvc_log\ndef T():\n    import scenic.syntax.veneer as v\n    return v.currentSimulation.currentTime if v.currentSimulation is not None else -1\ndef P(name, val=True):\n    log.append((name, T()))\n    return val\n"
    sub = (
        "behavior B():\n    log.append(('behavior', T()))\n    while True:\n        wait\n"
        "scenario Sub():\n    precondition: P('pre', {pre})\n    invariant: P('inv', {inv})\n    setup:\n        log.append(('setup', T()))\n        other = new Object at (10, 10), with behavior B\n"
        "    compose:\n        log.append(('compose', T()))\n        wait\n        wait\n"
    )
    main = "scenario Main():\n    setup:\n        ego = new Object\n    compose:\n        wait\n        do Sub()\n        wait\n"
    for pre, inv in ((True, True), (False, True), (True, False)):
        sim, log = _simulate(head + sub.format(pre=pre, inv=inv) + main, scenario="Main")
        pres = [t for n, t in log if n == "pre"]
        if pres != [1]:
            return f"sub-scenario invoked in step 1 (precondition {pre}, invariant {inv}): its precondition was evaluated in steps {pres}; documented: once, when the scenario starts"
        if pre and inv:
            if isinstance(sim, str):
                return f"sub-scenario with satisfied guards: simulation {sim}"
            order = [n for n, t in log if n in ("pre", "inv", "setup", "compose", "behavior")][:4]
            if order[:3] != ["pre", "inv", "setup"]:
                return f"sub-scenario with satisfied guards: order of events {order}; documented: preconditions and invariants are checked when the scenario starts, before its setup block runs"
        else:
            if sim != "rejected":
                return f"sub-scenario whose {'precondition' if not pre else 'invariant'} is false when it is invoked: simulation {sim if isinstance(sim, str) else 'accepted'} (must be rejected)"
            ran = [n for n, t in log if n in ("setup", "compose", "behavior")]
            if ran:
                return f"sub-scenario whose {'precondition' if not pre else 'invariant'} is false when it is invoked: {ran} of the scenario still ran"
            sim2, _ = _simulate(head + sub.format(pre=pre, inv=inv) + main, scenario="Main", raiseGuardViolations=True)
            if not (isinstance(sim2, str) and ("PreconditionViolation" if not pre else "InvariantViolation") in sim2):
                return f"violated {'precondition' if not pre else 'invariant'} of a sub-scenario with raiseGuardViolations=True: {sim2 if isinstance(sim2, str) else 'accepted'}"
    # top-level scenario: guards checked at simulation start (step 0), exactly once for the precondition
    top = (
        "scenario Main():\n    precondition: P('pre', {pre})\n    invariant: P('inv', True)\n    setup:\n        ego = new Object\n"
        "    compose:\n        log.append(('compose', T()))\n        wait\n        wait\n"
    )
    for pre in (True, False):
        sim, log = _simulate(head + top.format(pre=pre), scenario="Main")
        pres = [t for n, t in log if n == "pre"]
        if pres != [0]:
            return f"top-level scenario (precondition {pre}): its precondition was evaluated at simulation times {pres}; documented: once, when the scenario starts (time 0)"
        if pre and isinstance(sim, str):
            return f"top-level scenario with satisfied guards: simulation {sim}"
        if not pre and sim != "rejected":
            return f"top-level scenario whose precondition is false at the start: simulation {sim if isinstance(sim, str) else 'accepted'} (must be rejected)"
        if not pre and any(n == "compose" for n, t in log):
            return "top-level scenario whose precondition is false at the start: its compose block still ran"
    # a top-level scenario whose (delayed) guard check fails at the start is not left running: the scene can be simulated again
    import builtins

    import scenic
    from scenic.core.simulators import DummySimulator

    builtins._pyvc_log = []
    try:
        sc = scenic.scenarioFromString(head + top.format(pre="T() < -5"), mode2D=True, scenario="Main")
        scene, _ = sc.generate(maxIterations=5)
        for attempt in (1, 2):
            try:
                sim = DummySimulator().simulate(scene, maxSteps=3, maxIterations=1)
            except Exception as e:
                return f"top-level scenario whose precondition is false at the start, simulation attempt {attempt} on the same scene: {type(e).__name__}: {e} (must be a rejected simulation each time)"
            if sim is not None:
                return f"top-level scenario whose precondition is false at the start: attempt {attempt} was accepted"
            if scene.dynamicScenario._isRunning:
                return f"top-level scenario whose precondition is false at the start: after the rejected attempt {attempt} the scenario is still marked as running"
    finally:
        del builtins._pyvc_log
    return None
