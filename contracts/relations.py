"""Sidecar contracts for scenic.syntax.relations (C08): bound extraction from requirement syntax is SOUND.

Oracle: for a comparison `L op R` in which the matched quantity q occurs, if the matcher returns
(lo, hi, target) then every q that satisfies the comparison lies in [lo, hi] (None = unbounded).  The
comparison operator ranges over EVERY ast.cmpop class; the operand shapes over every form the matcher
looks at (constant, quantity, abs(quantity), abs(quantity +/- const), abs(const +/- quantity), other)."""
import ast

import z3

from pyvc import contracts as C
from pyvc.interp import BuiltinFn
from pyvc.values import PObj, SV, compare, sv_and, sv_ite, sv_not, sv_or, tobool, toz3

M = "scenic.syntax.relations"

CMPOPS = [ast.Eq, ast.NotEq, ast.Lt, ast.LtE, ast.Gt, ast.GtE, ast.Is, ast.IsNot, ast.In, ast.NotIn]
SHAPES = ["const", "atom", "abs(atom)", "abs(atom+c)", "abs(atom-c)", "abs(c+atom)", "abs(c-atom)", "other", "randomconst"]


class Node:
    """An operand: the real ast node handed to the matcher + its meaning as a function of q."""

    def __init__(self, node, value_of, shape, consts):
        self.node, self.value_of, self.shape, self.consts = node, value_of, shape, consts


def make_operand(eng, shape, side, target, qname="Q"):
    def const_node(v):
        n = ast.Constant(value=None)
        n.sym = v
        return n

    atom = lambda: ast.Name(id=qname, ctx=ast.Load())
    absof = lambda arg: ast.Call(func=ast.Name(id="abs", ctx=ast.Load()), args=[arg], keywords=[])
    absv = lambda x: sv_ite(compare(">=", x, 0), x, 0 - x)
    c = eng.fresh_real(f"{side}.c")
    c2 = eng.fresh_real(f"{side}.c2")
    if shape == "const":
        return Node(const_node(c), lambda q: c, shape, {"c": c})
    if shape == "randomconst":  # a value that needs sampling: never a constant bound
        n = const_node(c)
        n.random = True
        return Node(n, lambda q: c, shape, {"c": c})
    if shape == "atom":
        return Node(atom(), lambda q: q, shape, {})
    if shape == "abs(atom)":
        return Node(absof(atom()), lambda q: absv(q), shape, {})
    if shape == "abs(atom+c)":
        return Node(absof(ast.BinOp(left=atom(), op=ast.Add(), right=const_node(c2))), lambda q: absv(q + c2), shape, {"c2": c2})
    if shape == "abs(atom-c)":
        return Node(absof(ast.BinOp(left=atom(), op=ast.Sub(), right=const_node(c2))), lambda q: absv(q - c2), shape, {"c2": c2})
    if shape == "abs(c+atom)":
        return Node(absof(ast.BinOp(left=const_node(c2), op=ast.Add(), right=atom())), lambda q: absv(c2 + q), shape, {"c2": c2})
    if shape == "abs(c-atom)":
        return Node(absof(ast.BinOp(left=const_node(c2), op=ast.Sub(), right=atom())), lambda q: absv(c2 - q), shape, {"c2": c2})
    return Node(ast.Attribute(value=ast.Name(id="x", ctx=ast.Load()), attr="y", ctx=ast.Load()), None, "other", {})


def register(reg):
    register_rh(reg)
    register_relation_sources(reg)

    def match_constant(I, self, node):
        """matchConstant: the value of a node known before sampling, else None (model of eval in the namespace)."""
        if isinstance(node, ast.Constant) and hasattr(node, "sym") and not getattr(node, "random", False):
            return node.sym
        return None

    reg.models[f"{M}:RequirementMatcher.matchConstant"] = match_constant
    reg.trust("RequirementMatcher.matchConstant", "model: evaluates constant sub-expressions in the namespace (eval); returns None for values that need sampling")

    def setup(I, env):
        eng = I.eng
        target = PObj("Object", tag="target")
        ls = SHAPES[eng.choose(len(SHAPES), "left shape")]
        rs = SHAPES[eng.choose(len(SHAPES), "right shape")]
        op = CMPOPS[eng.choose(len(CMPOPS), "operator")]()
        L, R = make_operand(eng, ls, "L", target), make_operand(eng, rs, "R", target)
        for nd in (L.node, R.node):
            for sub in ast.walk(nd):
                sub.lineno = sub.end_lineno = 1
                sub.col_offset = sub.end_col_offset = 0
        env.vars.update(left=L.node, right=R.node, op=op, _L=L, _R=R, _target=target)
        env.vars["matchAtom"] = BuiltinFn("matchAtom", lambda node: target if isinstance(node, ast.Name) and node.id == "Q" else None)
        for side, nd in (("L", L), ("R", R)):
            for k, v in nd.consts.items():
                eng.input_syms.append((f"{side}.{k}", C.Real(), v))
        eng.input_syms.append(("shape", C.Const(None), f"{ls} {type(op).__name__} {rs}"))

    def holds(opnode, a, b):
        t = type(opnode)
        if t is ast.Eq:
            return compare("==", a, b)
        if t is ast.NotEq:
            return compare("!=", a, b)
        if t is ast.Lt:
            return compare("<", a, b)
        if t is ast.LtE:
            return compare("<=", a, b)
        if t is ast.Gt:
            return compare(">", a, b)
        if t is ast.GtE:
            return compare(">=", a, b)
        return None  # is / in: no arithmetic meaning

    def post(I, env, outcome):
        eng = I.eng
        name = "relations.RequirementMatcher.matchBoundsInner"
        L, R, op, target = env.vars["_L"], env.vars["_R"], env.vars["op"], env.vars["_target"]
        if outcome[0] == "raise":
            # the only legitimate error: abs(...) compared against a negative constant (unsatisfiable)
            cn = getattr(outcome[1].cls, "name", getattr(outcome[1].cls, "__name__", "?"))
            eng.check(f"{name}#raises.only_InconsistentScenarioError", cn == "InconsistentScenarioError")
            if L.value_of is not None and R.value_of is not None:
                q = eng.fresh_real("q")
                h = holds(op, L.value_of(q), R.value_of(q))
                if h is not None:
                    eng.check(f"{name}#raises.inconsistency_only_if_unsatisfiable", sv_not(h))
                else:
                    eng.check(f"{name}#raises.inconsistency_only_for_arithmetic_comparisons", False)
            return
        lo, hi, tgt = outcome[1]
        eng.check(f"{name}#ensures.no_match_is_silent", (tgt is not None) or (lo is None and hi is None))
        if tgt is None:
            return
        eng.check(f"{name}#ensures.target_is_the_matched_quantity", tgt is target)
        if L.value_of is None or R.value_of is None:
            eng.check(f"{name}#ensures.no_bound_from_an_unrecognised_operand", lo is None and hi is None)
            return
        q = eng.fresh_real("q")
        h = holds(op, L.value_of(q), R.value_of(q))
        if h is None:
            eng.check(f"{name}#ensures.no_bound_from_is_or_in", lo is None and hi is None)
            return
        eng.input_syms.append(("q", C.Real(), q))
        if lo is not None:
            eng.check(f"{name}#ensures.sound_lower", z3.Implies(tobool(h), tobool(compare("<=", lo, q))))
        if hi is not None:
            eng.check(f"{name}#ensures.sound_upper", z3.Implies(tobool(h), tobool(compare("<=", q, hi))))

    reg.add(
        C.Contract(
            f"{M}:RequirementMatcher.matchBoundsInner",
            params=dict(self=C.Obj(f"{M}:RequirementMatcher"), left=C.Const(None), right=C.Const(None), op=C.Const(None), matchAtom=C.Const(None)),
            setup=setup,
            post=post,
            raises=[C.Raises("InconsistentScenarioError", mode="may")],
            inline=["RequirementMatcher.matchBoundsInner", "RequirementMatcher.matchAbsBounds", "RequirementMatcher.inconsistencyError"],
            replay=replay_bounds,
            properties=("C08",),
        )
    )


def replay_bounds(inputs, clause):
    """Real matcher on real syntax: `require <L> <op> <R>` with `distance to`-style quantity Q."""
    import ast as A

    from scenic.syntax.relations import RequirementMatcher

    shape = inputs.get("shape", "")
    parts = shape.split(" ")
    if len(parts) != 3:
        return None
    ls, opn, rs = parts
    ops = {"Eq": "==", "NotEq": "!=", "Lt": "<", "LtE": "<=", "Gt": ">", "GtE": ">=", "Is": "is", "IsNot": "is not", "In": "in", "NotIn": "not in"}

    def src(shape, side):
        c = inputs.get(f"{side}.c", 1.0)
        c2 = inputs.get(f"{side}.c2", 1.0)
        return {"const": repr(float(c)), "atom": "Q", "abs(atom)": "abs(Q)", "abs(atom+c)": f"abs(Q + {float(c2)!r})", "abs(atom-c)": f"abs(Q - {float(c2)!r})", "abs(c+atom)": f"abs({float(c2)!r} + Q)", "abs(c-atom)": f"abs({float(c2)!r} - Q)", "other": "x.y", "randomconst": "R"}[shape]

    text = f"{src(ls, 'L')} {ops[opn]} {src(rs, 'R')}"
    node = A.parse(text.replace("(-", "(0-"), mode="eval").body
    if not isinstance(node, A.Compare):
        return None

    class Target:
        pass

    tgt = Target()
    m = RequirementMatcher({"abs": abs})
    atom = lambda n: tgt if isinstance(n, A.Name) and n.id == "Q" else None
    try:
        lo, hi, t = m.matchBoundsInner(node.left, node.comparators[0], node.ops[0], atom)
    except Exception as e:
        if type(e).__name__ == "InconsistentScenarioError":
            return None
        raise
    if t is None:
        return None
    # search for a value of Q satisfying the comparison but outside the reported bounds
    import itertools

    cands = set()
    for side in ("L", "R"):
        for k in ("c", "c2"):
            v = inputs.get(f"{side}.{k}")
            if isinstance(v, (int, float)):
                for d in (-1.5, -1, -0.25, 0, 0.25, 1, 1.5):
                    cands.update({v + d, -v + d})
    q0 = inputs.get("q")
    if isinstance(q0, (int, float)):
        cands.add(q0)
    for q in sorted(cands):
        try:
            ok = eval(compile(A.Expression(node), "<replay>", "eval"), {"abs": abs, "Q": q})
        except Exception:
            continue
        if ok and ((lo is not None and q < lo) or (hi is not None and q > hi)):
            return f"`{text}` holds for Q = {q} but the matcher reports bounds ({lo}, {hi}) on Q"
    return None


# =================================================================================================
# relative-heading pruning (scenic.core.pruning / scenic.core.geometry)

import math as _math

P = "scenic.core.pruning"
G = "scenic.core.geometry"


def register_rh(reg):
    from pyvc.values import PList, arith

    PI, TAU = _math.pi, _math.tau

    # ---------------------------------------------------------------- normalizeAngle
    @reg.spec
    def is_turns(x):
        """x is an integer multiple of tau"""
        xr = toz3(x, want_real=True)
        t = xr / z3.RealVal(str(__import__("fractions").Fraction(repr(TAU))))
        return SV(t == z3.ToReal(z3.ToInt(t)))

    @reg.spec
    def turns_above(x):
        """number of whole turns needed to bring x to at most pi (integer measure for termination)"""
        xr = toz3(x, want_real=True)
        tau = z3.RealVal(str(__import__("fractions").Fraction(repr(TAU))))
        pi = z3.RealVal(str(__import__("fractions").Fraction(repr(PI))))
        return SV(z3.If(xr > pi, z3.ToInt((xr - pi) / tau) + 1, 0))

    @reg.spec
    def turns_below(x):
        xr = toz3(x, want_real=True)
        tau = z3.RealVal(str(__import__("fractions").Fraction(repr(TAU))))
        pi = z3.RealVal(str(__import__("fractions").Fraction(repr(PI))))
        return SV(z3.If(xr < -pi, z3.ToInt((-pi - xr) / tau) + 1, 0))

    def norm_result(I, env):
        eng = I.eng
        a = env.lookup("angle")
        r = eng.fresh_real("normalized")
        w = eng.fresh_int("winding")
        eng.assume(compare("==", r, a - TAU * w))
        return r

    reg.add(
        C.Contract(
            f"{G}:normalizeAngle",
            params=dict(angle=C.Real()),
            ensures={
                "in_range": "-math.pi <= result and result <= math.pi",
                "same_direction": "is_turns(angle - result)",
                "identity_in_range": "implies(-math.pi <= angle and angle <= math.pi, result == angle)",
            },
            result=norm_result,
            assert_mode="prove",
            loops={
                1: dict(invariants={"congruent": "is_turns(old(angle) - angle)", "untouched_in_range": "implies(old(angle) <= math.pi, angle == old(angle))"}, decreases="turns_above(angle)", modifies={"angle": None}),
                2: dict(invariants={"congruent": "is_turns(old(angle) - angle) and angle <= math.pi", "untouched_in_range": "implies(-math.pi <= old(angle) and old(angle) <= math.pi, angle == old(angle))"}, decreases="turns_below(angle)", modifies={"angle": None}),
            },
            properties=("C08", "C05", "C07"),
        )
    )


    # ---------------------------------------------------------------- feasibleRHPolygon (+ relativeHeadingRange inlined)
    class Poly(PObj):
        pass

    def setup_rh(I, env):
        eng = I.eng

        def poly(tag):
            p = PObj("Polygon", tag=tag)
            p.fields["buffer"] = BuiltinFn("buffer", lambda d, p=p: buffered(p))
            return p

        def buffered(p):
            b = PObj("Polygon", tag=p.tag + ".buffer")
            b.base = p
            return b

        inter_nonempty = eng.fresh_bool("cells_within_maxDist")

        def intersect(a, b):
            r = PObj("Polygon", tag=f"{a.tag}&{b.tag}")
            r.fields["is_empty"] = SV(z3.Not(tobool(inter_nonempty)))
            r.parts = (a, b)
            return r

        reg_binop[0] = intersect
        baseCell, targetCell = poly("baseCell"), poly("targetCell")
        names = "baseHeading offsetL offsetR targetHeading tOffsetL tOffsetR lowerBound upperBound".split()
        v = {n: eng.fresh_real(n) for n in names}
        for n in names:
            eng.input_syms.append((n, C.Real(), v[n]))
        # documented domains: disturbances are intervals, bounds are a sub-interval of [-pi, pi]
        eng.assume(sv_and(compare("<=", v["offsetL"], v["offsetR"]), compare("<=", v["tOffsetL"], v["tOffsetR"])))
        eng.assume(sv_and(compare("<=", -PI, v["lowerBound"]), compare("<=", v["lowerBound"], v["upperBound"]), compare("<=", v["upperBound"], PI)))
        eng.assume(sv_and(compare("<=", -PI, v["baseHeading"]), compare("<=", v["baseHeading"], PI), compare("<=", -PI, v["targetHeading"]), compare("<=", v["targetHeading"], PI)))
        eng.assume(sv_and(compare("<=", -TAU, v["offsetL"]), compare("<=", v["offsetR"], TAU), compare("<=", -TAU, v["tOffsetL"]), compare("<=", v["tOffsetR"], TAU)))
        field = PObj("PolygonalVectorField", tag="field")
        field.fields["cells"] = ((baseCell, v["baseHeading"]),)
        tField = PObj("PolygonalVectorField", tag="tField")
        tField.fields["cells"] = ((targetCell, v["targetHeading"]),)
        env.vars.update(field=field, tField=tField, maxDist=eng.fresh_real("maxDist"), _v=v, _nonempty=inter_nonempty)
        for n in ("offsetL", "offsetR", "tOffsetL", "tOffsetR", "lowerBound", "upperBound"):
            env.vars[n] = v[n]

    reg_binop = [None]

    def binop_fallback(I, sym, a, b):
        if isinstance(a, PObj) and a.cls == "Polygon" and isinstance(b, PObj) and b.cls == "Polygon":
            return reg_binop[0](a, b)
        raise Exception(f"binary operator {sym} on {a!r}, {b!r} not modelled")

    reg.binop_fallback = binop_fallback
    reg.models[f"{G}:polygonUnion"] = lambda I, polys: tuple(I.iterate(polys))
    reg.trust("shapely", "Polygon.buffer / & / is_empty are the exact set operations (dilation, intersection, emptiness); polygonUnion is the union")
    from pyvc.builtins_model import NativeModule

    class PolygonMarker:
        name = "shapely.geometry.Polygon"

    class TopologicalError(Exception):
        pass

    shp = NativeModule("shapely", {"geometry": NativeModule("shapely.geometry", {"Polygon": PolygonMarker}), "errors": NativeModule("shapely.errors", {"TopologicalError": TopologicalError})})
    reg.extra_modules = getattr(reg, "extra_modules", {})
    reg.extra_modules["shapely"] = shp

    def isinstance_hook(I, x, cls):
        if cls is PolygonMarker:
            return isinstance(x, PObj) and x.cls == "Polygon"
        return None

    reg.isinstance_hook = isinstance_hook

    def post_rh(I, env, outcome):
        eng = I.eng
        name = "pruning.feasibleRHPolygon"
        if outcome[0] != "return":
            return
        v, nonempty = env.vars["_v"], env.vars["_nonempty"]
        res = outcome[1]
        if res is None:
            return  # no pruning at all: nothing is lost
        kept = len(res) > 0
        # a feasible configuration of the two disturbances: true relative heading within the bounds
        dB, dT, rh = eng.fresh_real("dB"), eng.fresh_real("dT"), eng.fresh_real("rh")
        w = eng.fresh_int("w")
        for n_, x in (("dB", dB), ("dT", dT), ("rh", rh)):
            eng.input_syms.append((n_, C.Real(), x))
        feas = sv_and(
            compare("<=", v["offsetL"], dB), compare("<=", dB, v["offsetR"]),
            compare("<=", v["tOffsetL"], dT), compare("<=", dT, v["tOffsetR"]),
            compare("==", rh, (v["targetHeading"] + dT) - (v["baseHeading"] + dB) - TAU * w),
            compare("<=", -PI, rh), compare("<=", rh, PI),
            compare("<=", v["lowerBound"], rh), compare("<=", rh, v["upperBound"]),
            nonempty,
        )
        eng.check(f"{name}#ensures.cell_pair_with_a_feasible_relative_heading_is_kept", z3.Implies(tobool(feas), z3.BoolVal(kept)))

    reg.add(
        C.Contract(
            f"{P}:feasibleRHPolygon",
            params=dict(field=C.Const(None), offsetL=C.Const(None), offsetR=C.Const(None), tField=C.Const(None), tOffsetL=C.Const(None), tOffsetR=C.Const(None), lowerBound=C.Const(None), upperBound=C.Const(None), maxDist=C.Const(None)),
            setup=setup_rh,
            post=post_rh,
            inline=["relativeHeadingRange"],
            replay=replay_rh,
            properties=("C08",),
        )
    )


def replay_rh(inputs, clause):
    import math

    import shapely.geometry

    from scenic.core.pruning import feasibleRHPolygon

    class F:
        def __init__(self, cells):
            self.cells = cells

    sq = shapely.geometry.box(0, 0, 1, 1)
    g = lambda k: float(inputs[k])
    res = feasibleRHPolygon(F([(sq, g("baseHeading"))]), g("offsetL"), g("offsetR"), F([(sq, g("targetHeading"))]), g("tOffsetL"), g("tOffsetR"), g("lowerBound"), g("upperBound"), 1.0)
    if res is None:
        return None
    from scenic.core.geometry import normalizeAngle

    dB, dT = g("dB"), g("dT")
    if not (g("offsetL") <= dB <= g("offsetR") and g("tOffsetL") <= dT <= g("tOffsetR")):
        return None
    rh = normalizeAngle((g("targetHeading") + dT) - (g("baseHeading") + dB))
    if g("lowerBound") <= rh <= g("upperBound") and res.is_empty:
        return (
            f"base heading {g('baseHeading'):.4f}+{dB:.4f}, target heading {g('targetHeading'):.4f}+{dT:.4f}: relative heading {rh:.4f} lies in "
            f"[{g('lowerBound'):.4f}, {g('upperBound'):.4f}] but feasibleRHPolygon discards the overlapping cell pair"
        )
    return None


# =================================================================================================
# which statements may feed pruning (scenic.core.requirements: PendingRequirement.compile -> inferRelationsFrom)
#
# C08: "every scene that satisfies all requirements and can be generated without pruning can still be generated with
# it".  A relation recorded on an object is used by pruning as a fact about EVERY generated scene, so it may only be
# inferred from a statement every generated scene must satisfy: a hard `require` (probability 1) evaluated on the
# initial scene -- never from a soft `require[p]`, a `terminate when`, a `record` or a monitor.

RQ = "scenic.core.requirements"


def register_relation_sources(reg):
    from pyvc.values import PDict, PList

    from .common import repo_class

    name = "requirements.PendingRequirement.compile"

    def setup(I, env):
        eng = I.eng
        RT = repo_class(f"{RQ}:RequirementType")
        kinds = [t.id for node in RT.node.body if isinstance(node, ast.Assign) for t in node.targets if isinstance(t, ast.Name)]
        kind = kinds[eng.choose(len(kinds), "statement: " + " / ".join(kinds))]
        # enum members: one heap object per member; `self.<member>` inside the enum's own (real) properties yields it
        members = {}
        for k in kinds:
            m = PObj(RT, tag=f"RequirementType.{k}")
            m.fields.update(name=k, value=I.get_attr(RT, k))
            members[k] = m
            reg.attr_hooks[(RT.full, k)] = lambda I2, obj, k=k: members[k]
        prob = eng.fresh_real("prob")
        eng.assume(sv_and(compare("<", 0, prob), compare("<=", prob, 1)))
        on_initial_scene = eng.fresh_bool("condition is evaluated on the initial scene (no temporal operator below a top-level always)")
        eng.input_syms.append(("statement", C.Const(None), kind))
        eng.input_syms.append(("prob", C.Real(), prob))
        cond = PObj("Proposition", tag="condition")
        cond.fields["check_constrains_sampling"] = BuiltinFn("check_constrains_sampling", lambda: on_initial_scene)
        ego = PObj(repo_class("scenic.core.distributions:Samplable"), tag="ego at the statement")
        pend = PObj(repo_class(f"{RQ}:PendingRequirement"), tag="pending requirement")
        pend.fields.update(
            globalBindings=PDict(), closureBindings=PDict(), cells=PList([]), egoObject=ego, line=3, condition=cond,
            ty=members[kind], name=None, prob=prob, recConfig=None,
        )
        syntax = ast.Name(id="the_requirement_syntax", ctx=ast.Load())
        scen = PObj("DynamicScenario", tag="scenario")
        scen.fields["objects"] = ()
        calls = []
        reg.models[f"{M}:inferRelationsFrom"] = lambda I2, node, ns, ego_, line: calls.append((node, ns, ego_, line))
        reg.models["scenic.core.distributions:toDistribution"] = lambda I2, v: v

        def compiled_ctor(I2, cls, args, kwargs):
            o = PObj(cls, tag="compiled requirement")
            o.fields.update(pending=args[0], closure=args[1], dependencies=args[2], proposition=args[3])
            return o

        reg.constructors[f"{RQ}:CompiledRequirement"] = compiled_ctor
        env.vars.update(self=pend, namespace=PDict(), scenario=scen, syntax=syntax, _calls=calls, _kind=kind, _prob=prob, _init=on_initial_scene, _syntax=syntax)

    def post(I, env, outcome):
        eng = I.eng
        if outcome[0] != "return":
            return
        calls, kind, prob, init, syntax = (env.vars[k] for k in ("_calls", "_kind", "_prob", "_init", "_syntax"))
        eng.check(f"{name}#ensures.relations_inferred_at_most_once", len(calls) <= 1)
        if not calls:
            # shape taken from the code (guards the clause below against holding vacuously): a hard `require` on the
            # initial scene is offered to the relation matcher
            eng.check(f"{name}#frame.a_hard_require_on_the_initial_scene_is_offered_to_the_relation_matcher", sv_not(sv_and(kind == "require", compare("==", prob, 1), init)))
        if calls:
            # reached only on paths on which relations WERE recorded for pruning: the statement must be one that every
            # generated scene satisfies
            hard = sv_and(kind == "require", compare("==", prob, 1), init)
            eng.check(f"{name}#ensures.relations_for_pruning_only_from_a_hard_require_on_the_initial_scene", hard)
            node, ns, ego_, line = calls[0]
            eng.check(f"{name}#ensures.relations_inferred_from_the_statement's_own_syntax_and_ego", node is syntax and ego_ is env.vars["self"].fields["egoObject"])

    reg.add(
        C.Contract(
            f"{RQ}:PendingRequirement.compile",
            params=dict(self=C.Const(None), namespace=C.Const(None), scenario=C.Const(None), syntax=C.Const(None)),
            setup=setup,
            post=post,
            inline=["RequirementType.constrainsSampling"],
            replay=replay_relation_sources,
            note="every RequirementType (read from the real enum), symbolic probability in (0, 1], temporal or not; bindings empty (the relation matcher has its own contract)",
            properties=("C08",),
        ),
        key=f"{RQ}:PendingRequirement.compile[relations-for-pruning]",
    )
    reg.trust("inferRelationsFrom (in PendingRequirement.compile)", "abstract: records relations on the ego and the matched objects (bound extraction is under contract: matchBoundsInner)")


RELATION_SOURCE_PROGRAM = """
r1 = PolygonalRegion([0@0, 10@0, 10@10, 0@10])      # first cell: heading 0 deg
r2 = PolygonalRegion([20@0, 30@0, 30@10, 20@10])    # second cell: heading 90 deg
vf = PolygonalVectorField("Foo", [[r1.polygons, 0], [r2.polygons, 90 deg]])
union = r1.union(r2)
ego = new Object in union, facing vf, with visibleDistance 100
other = new Object in union, facing vf
require (distance to other) <= 35
{statement}
"""


def replay_relation_sources(inputs, clause):
    """Real compiler: a statement that is NOT a hard requirement bounds the relative heading of `other`; compare the
    relations recorded on the ego, the region its position is conditioned to, and generated scenes, with pruning off."""
    if "only_from_a_hard_require" not in clause:
        return None
    import random

    import scenic
    import scenic.syntax.translator as T

    kind = inputs.get("statement")
    try:
        prob = float(inputs.get("prob", 1))
    except (TypeError, ValueError):
        prob = 1.0
    cond = "(relative heading of other) >= 60 deg"
    if kind == "require":
        if prob >= 1:
            prob = 0.5
        stmts = {f"require[{prob!r}] {cond}": None}
    else:
        stmts = {
            "terminateWhen": f"terminate when {cond}", "terminateSimulationWhen": f"terminate simulation when {cond}",
            "record": f"record {cond} as foo", "recordInitial": f"record initial {cond} as foo", "recordFinal": f"record final {cond} as foo",
        }
        if kind not in stmts:
            return None  # `require monitor M()` has no condition syntax
        stmts = {stmts[kind]: None}
    from scenic.syntax.relations import RelativeHeadingRelation

    for stmt in stmts:
        src = RELATION_SOURCE_PROGRAM.format(statement=stmt)
        old = T.usePruning
        try:
            T.usePruning = False
            random.seed(5)
            plain = scenic.scenarioFromString(src, mode2D=False)
            T.usePruning = True
            random.seed(5)
            pruned = scenic.scenarioFromString(src, mode2D=False)
        finally:
            T.usePruning = old
        rels = [r for r in pruned.objects[0]._relations if isinstance(r, RelativeHeadingRelation)]
        n = 40
        right_plain = sum(plain.generate(maxIterations=2000)[0].objects[0].position.x > 15 for _ in range(n))
        right_pruned = sum(pruned.generate(maxIterations=2000)[0].objects[0].position.x > 15 for _ in range(n))
        if rels and right_plain > 0 and right_pruned == 0:
            return (
                f"`{stmt}` (not a hard requirement) recorded {len(rels)} relative-heading relation(s) on the ego (bounds [{rels[0].lower:.4f}, {rels[0].upper:.4f}]); "
                f"without pruning {right_plain}/{n} generated scenes have the ego in the right-hand cell (x > 15), with pruning its position is conditioned to "
                f"{pruned.objects[0].position._conditioned} and {right_pruned}/{n} do"
            )
        if rels:
            return f"`{stmt}` (not a hard requirement) recorded {len(rels)} relative-heading relation(s) on the ego for pruning"
    return None
