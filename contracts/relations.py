"""Sidecar contracts for scenic.syntax.relations (C08): bound extraction from requirement syntax is SOUND.

Oracle: for a comparison `L op R` in which the matched quantity q occurs, if the matcher returns
(lo, hi, target) then every q that satisfies the comparison lies in [lo, hi] (None = unbounded).  The
comparison operator ranges over EVERY ast.cmpop class; the operand shapes over every form the matcher
looks at (constant, quantity, abs(quantity), abs(quantity +/- const), abs(const +/- quantity), other)."""
import ast

import z3

from pyvc import contracts as C
from pyvc.interp import BuiltinFn
from pyvc.values import PObj, SV, compare, sv_and, sv_ite, sv_not, sv_or, tobool, toz3

M = "scenic.syntax.relations"

CMPOPS = [ast.Eq, ast.NotEq, ast.Lt, ast.LtE, ast.Gt, ast.GtE, ast.Is, ast.IsNot, ast.In, ast.NotIn]
SHAPES = ["const", "atom", "abs(atom)", "abs(atom+c)", "abs(atom-c)", "abs(c+atom)", "abs(c-atom)", "other", "randomconst"]


class Node:
    """An operand: the real ast node handed to the matcher + its meaning as a function of q."""

    def __init__(self, node, value_of, shape, consts):
        self.node, self.value_of, self.shape, self.consts = node, value_of, shape, consts


def make_operand(eng, shape, side, target, qname="Q"):
    def const_node(v):
        n = ast.Constant(value=None)
        n.sym = v
        return n

    atom = lambda: ast.Name(id=qname, ctx=ast.Load())
    absof = lambda arg: ast.Call(func=ast.Name(id="abs", ctx=ast.Load()), args=[arg], keywords=[])
    absv = lambda x: sv_ite(compare(">=", x, 0), x, 0 - x)
    c = eng.fresh_real(f"{side}.c")
    c2 = eng.fresh_real(f"{side}.c2")
    if shape == "const":
        return Node(const_node(c), lambda q: c, shape, {"c": c})
    if shape == "randomconst":  # a value that needs sampling: never a constant bound
        n = const_node(c)
        n.random = True
        return Node(n, lambda q: c, shape, {"c": c})
    if shape == "atom":
        return Node(atom(), lambda q: q, shape, {})
    if shape == "abs(atom)":
        return Node(absof(atom()), lambda q: absv(q), shape, {})
    if shape == "abs(atom+c)":
        return Node(absof(ast.BinOp(left=atom(), op=ast.Add(), right=const_node(c2))), lambda q: absv(q + c2), shape, {"c2": c2})
    if shape == "abs(atom-c)":
        return Node(absof(ast.BinOp(left=atom(), op=ast.Sub(), right=const_node(c2))), lambda q: absv(q - c2), shape, {"c2": c2})
    if shape == "abs(c+atom)":
        return Node(absof(ast.BinOp(left=const_node(c2), op=ast.Add(), right=atom())), lambda q: absv(c2 + q), shape, {"c2": c2})
    if shape == "abs(c-atom)":
        return Node(absof(ast.BinOp(left=const_node(c2), op=ast.Sub(), right=atom())), lambda q: absv(c2 - q), shape, {"c2": c2})
    return Node(ast.Attribute(value=ast.Name(id="x", ctx=ast.Load()), attr="y", ctx=ast.Load()), None, "other", {})


def register(reg):
    def match_constant(I, self, node):
        """matchConstant: the value of a node known before sampling, else None (model of eval in the namespace)."""
        if isinstance(node, ast.Constant) and hasattr(node, "sym") and not getattr(node, "random", False):
            return node.sym
        return None

    reg.models[f"{M}:RequirementMatcher.matchConstant"] = match_constant
    reg.trust("RequirementMatcher.matchConstant", "model: evaluates constant sub-expressions in the namespace (eval); returns None for values that need sampling")

    def setup(I, env):
        eng = I.eng
        target = PObj("Object", tag="target")
        ls = SHAPES[eng.choose(len(SHAPES), "left shape")]
        rs = SHAPES[eng.choose(len(SHAPES), "right shape")]
        op = CMPOPS[eng.choose(len(CMPOPS), "operator")]()
        L, R = make_operand(eng, ls, "L", target), make_operand(eng, rs, "R", target)
        for nd in (L.node, R.node):
            for sub in ast.walk(nd):
                sub.lineno = sub.end_lineno = 1
                sub.col_offset = sub.end_col_offset = 0
        env.vars.update(left=L.node, right=R.node, op=op, _L=L, _R=R, _target=target)
        env.vars["matchAtom"] = BuiltinFn("matchAtom", lambda node: target if isinstance(node, ast.Name) and node.id == "Q" else None)
        for side, nd in (("L", L), ("R", R)):
            for k, v in nd.consts.items():
                eng.input_syms.append((f"{side}.{k}", C.Real(), v))
        eng.input_syms.append(("shape", C.Const(None), f"{ls} {type(op).__name__} {rs}"))

    def holds(opnode, a, b):
        t = type(opnode)
        if t is ast.Eq:
            return compare("==", a, b)
        if t is ast.NotEq:
            return compare("!=", a, b)
        if t is ast.Lt:
            return compare("<", a, b)
        if t is ast.LtE:
            return compare("<=", a, b)
        if t is ast.Gt:
            return compare(">", a, b)
        if t is ast.GtE:
            return compare(">=", a, b)
        return None  # is / in: no arithmetic meaning

    def post(I, env, outcome):
        eng = I.eng
        name = "relations.RequirementMatcher.matchBoundsInner"
        L, R, op, target = env.vars["_L"], env.vars["_R"], env.vars["op"], env.vars["_target"]
        if outcome[0] == "raise":
            # the only legitimate error: abs(...) compared against a negative constant (unsatisfiable)
            cn = getattr(outcome[1].cls, "name", getattr(outcome[1].cls, "__name__", "?"))
            eng.check(f"{name}#raises.only_InconsistentScenarioError", cn == "InconsistentScenarioError")
            if L.value_of is not None and R.value_of is not None:
                q = eng.fresh_real("q")
                h = holds(op, L.value_of(q), R.value_of(q))
                if h is not None:
                    eng.check(f"{name}#raises.inconsistency_only_if_unsatisfiable", sv_not(h))
                else:
                    eng.check(f"{name}#raises.inconsistency_only_for_arithmetic_comparisons", False)
            return
        lo, hi, tgt = outcome[1]
        eng.check(f"{name}#ensures.no_match_is_silent", (tgt is not None) or (lo is None and hi is None))
        if tgt is None:
            return
        eng.check(f"{name}#ensures.target_is_the_matched_quantity", tgt is target)
        if L.value_of is None or R.value_of is None:
            eng.check(f"{name}#ensures.no_bound_from_an_unrecognised_operand", lo is None and hi is None)
            return
        q = eng.fresh_real("q")
        h = holds(op, L.value_of(q), R.value_of(q))
        if h is None:
            eng.check(f"{name}#ensures.no_bound_from_is_or_in", lo is None and hi is None)
            return
        eng.input_syms.append(("q", C.Real(), q))
        if lo is not None:
            eng.check(f"{name}#ensures.sound_lower", z3.Implies(tobool(h), tobool(compare("<=", lo, q))))
        if hi is not None:
            eng.check(f"{name}#ensures.sound_upper", z3.Implies(tobool(h), tobool(compare("<=", q, hi))))

    reg.add(
        C.Contract(
            f"{M}:RequirementMatcher.matchBoundsInner",
            params=dict(self=C.Obj(f"{M}:RequirementMatcher"), left=C.Const(None), right=C.Const(None), op=C.Const(None), matchAtom=C.Const(None)),
            setup=setup,
            post=post,
            raises=[C.Raises("InconsistentScenarioError", mode="may")],
            inline=["RequirementMatcher.matchBoundsInner", "RequirementMatcher.matchAbsBounds", "RequirementMatcher.inconsistencyError"],
            replay=replay_bounds,
            properties=("C08",),
        )
    )


def replay_bounds(inputs, clause):
    """Real matcher on real syntax: `require <L> <op> <R>` with `distance to`-style quantity Q."""
    import ast as A

    from scenic.syntax.relations import RequirementMatcher

    shape = inputs.get("shape", "")
    parts = shape.split(" ")
    if len(parts) != 3:
        return None
    ls, opn, rs = parts
    ops = {"Eq": "==", "NotEq": "!=", "Lt": "<", "LtE": "<=", "Gt": ">", "GtE": ">=", "Is": "is", "IsNot": "is not", "In": "in", "NotIn": "not in"}

    def src(shape, side):
        c = inputs.get(f"{side}.c", 1.0)
        c2 = inputs.get(f"{side}.c2", 1.0)
        return {"const": repr(float(c)), "atom": "Q", "abs(atom)": "abs(Q)", "abs(atom+c)": f"abs(Q + {float(c2)!r})", "abs(atom-c)": f"abs(Q - {float(c2)!r})", "abs(c+atom)": f"abs({float(c2)!r} + Q)", "abs(c-atom)": f"abs({float(c2)!r} - Q)", "other": "x.y", "randomconst": "R"}[shape]

    text = f"{src(ls, 'L')} {ops[opn]} {src(rs, 'R')}"
    node = A.parse(text.replace("(-", "(0-"), mode="eval").body
    if not isinstance(node, A.Compare):
        return None

    class Target:
        pass

    tgt = Target()
    m = RequirementMatcher({"abs": abs})
    atom = lambda n: tgt if isinstance(n, A.Name) and n.id == "Q" else None
    try:
        lo, hi, t = m.matchBoundsInner(node.left, node.comparators[0], node.ops[0], atom)
    except Exception as e:
        if type(e).__name__ == "InconsistentScenarioError":
            return None
        raise
    if t is None:
        return None
    # search for a value of Q satisfying the comparison but outside the reported bounds
    import itertools

    cands = set()
    for side in ("L", "R"):
        for k in ("c", "c2"):
            v = inputs.get(f"{side}.{k}")
            if isinstance(v, (int, float)):
                for d in (-1.5, -1, -0.25, 0, 0.25, 1, 1.5):
                    cands.update({v + d, -v + d})
    q0 = inputs.get("q")
    if isinstance(q0, (int, float)):
        cands.add(q0)
    for q in sorted(cands):
        try:
            ok = eval(compile(A.Expression(node), "<replay>", "eval"), {"abs": abs, "Q": q})
        except Exception:
            continue
        if ok and ((lo is not None and q < lo) or (hi is not None and q > hi)):
            return f"`{text}` holds for Q = {q} but the matcher reports bounds ({lo}, {hi}) on Q"
    return None
