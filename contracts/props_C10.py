"""Property fragment for C10 (front end is total)."""

PROPERTIES = {
    "C10": dict(
        modules=["frontend"],
        level="other",
        claim="proof part: get_expr_name / get_invalid_target total over the grammar-derived universe of expression classes; the generated "
        "scenic_temporal_group recogniser accepts a group before every token of FOLLOW(scenic_temporal_inversion); the translator restores the "
        "veneer activity on every exit; visitor census of the compiler; makeSyntaxError. Totality of the generated parser on all texts is NOT proved "
        "(bounded stand-in).",
        note="parser-resident carriers are extracted from a parser regenerated from the current scenic.gram",
        assumptions=[
            "veneer.activate raises only before touching `activity`; deactivate decrements then asserts (interface contract; veneer's own contracts belong to C14)",
            "pegen Parser.expect/positive_lookahead/_mark/_reset are a token cursor; @memoize transparent",
            "FIRST/FOLLOW and the value-flow census read scenic.gram as a CFG (look-aheads zero-width, invalid_* never succeed)",
        ],
        not_reached=["totality / termination of the generated parser and the tokenizer on every text"],
        bounded=[],
    )
}
