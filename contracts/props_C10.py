"""Property fragment for C10 (front end is total)."""

PROPERTIES = {
    "C10": dict(
        modules=["frontend", "rewrites"],
        level="other",
        claim="proof part: get_expr_name / get_invalid_target total over the grammar-derived universe of expression classes; _build_syntax_error and "
        "check_fstring_conversion never fail with an internal exception; the generated "
        "scenic_temporal_group recogniser accepts a group before every token of FOLLOW(scenic_temporal_inversion); the translator restores the "
        "veneer activity on every exit; visitor census of the compiler; makeSyntaxError; every operand (field declared ast.AST) of a *Specifier node and of a statement-level node "
        "(require / terminate when / record / param / mutate / simulator / override / wait / do-until / interrupt when / precondition / invariant) is fed by the grammar rule the reference prescribes and a mandatory operand is never absent. Totality of the generated parser on all texts is NOT proved "
        "(bounded stand-in).",
        note="parser-resident carriers are extracted from a parser regenerated from the current scenic.gram",
        assumptions=[
            "veneer.activate raises only before touching `activity`; deactivate decrements then asserts (interface contract; veneer's own contracts belong to C14)",
            "pegen Parser.expect/positive_lookahead/_mark/_reset are a token cursor; @memoize transparent",
            "FIRST/FOLLOW and the value-flow census read scenic.gram as a CFG (look-aheads zero-width, invalid_* never succeed)",
            "pegen Tokenizer.get_lines raises KeyError for lines on which no token starts; tokens are tokenize.TokenInfo tuples",
            "_build_syntax_error checked for error spans of up to 4 lines (every pattern of token-free lines)",
        ],
        not_reached=["totality / termination of the generated parser and the tokenizer on every text"],
        bounded=[
            "standins/frontend_mutants.py: real translator._scenarioFromStream (execution phase stubbed) on token-level mutants (delete/insert/replace/swap/re-indent/truncate, "
            "VERIF_SEED) of examples/**/*.scenic and of the Scenic examples quoted in docs/reference; oracle: ScenicSyntaxError family or success, 1 <= lineno <= lines, veneer inactive, "
            "20 s timeout; quick tier 20 files x (1 + 3 mutants) + every docs example x (1 + 1) + 5 fixed regression inputs; thorough tier every file x 12, docs x 6",
        ],
    )
}
