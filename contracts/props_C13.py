"""Property fragment for C13 (see contracts/interrupts.py; executeInGuard's restore contract is in veneer_state.py)."""

PROPERTIES = {
    "C13": dict(
        modules=["interrupts", "veneer_state", "dyn_requirements", "dyn_compile"],
        level="proof",
        claim="runTryInterrupt judged per resumption by trace rules written from the documented semantics (first enabled-or-running handler in tuple order "
        "else the body; same-iterator resumption; FINISHED returns to selection, other conclusions end the statement; invariants after every yield; "
        "conditions inside a guard); compiler reverses the clause order and keeps conditions/handlers aligned; guard order in _checkAllPreconditions "
        "and Behavior._start; executeInGuard restores evaluatingGuard on every exit; scenarios: guards checked exactly once over DynamicScenario._prepare + _start (delayed for the top-level scenario), before the setup / compose "
        "blocks run, a failed start leaves nothing running; compiler: `abort` = ABORT conclusion only inside a handler, guard checkers raise the violation of their kind with the guard's line iff false or rejected (contracts/dyn_compile.py; generateInvocation is inlined in the C12 visitor contracts)",
        note="blocks and conditions are scripted objects exploring every behaviour up to the stated bound",
        assumptions=["L-iterators: generator objects follow the send/StopIteration protocol"],
        not_reached=["WHEN an abandoned block's generator is finalised (reference counting / garbage collector) is outside the encoding; WHAT happens when it is closed is covered (Behavior._invokeInner, close modelled at the suspension point)", "compiler: separatePreconditionsAndInvariants / makeBehaviorLikeDef / visit_ScenarioDef (where the guard checkers are placed in the generated class; exercised by the replay driver of makeGuardCheckers only)", "a run-time `require` executed inside a guard raises RejectSimulationException, which the generated checkers do not convert into a guard violation (only RejectionException is): recorded as an observation, not judged"],
    )
}
