"""Property fragment for C13 (see contracts/interrupts.py; executeInGuard's restore contract is in veneer_state.py)."""

PROPERTIES = {
    "C13": dict(
        modules=["interrupts", "veneer_state"],
        level="proof",
        claim="runTryInterrupt judged per resumption by trace rules written from the documented semantics (first enabled-or-running handler in tuple order "
        "else the body; same-iterator resumption; FINISHED returns to selection, other conclusions end the statement; invariants after every yield; "
        "conditions inside a guard); compiler reverses the clause order and keeps conditions/handlers aligned; guard order in _checkAllPreconditions "
        "and Behavior._start; executeInGuard restores evaluatingGuard on every exit",
        note="blocks and conditions are scripted objects exploring every behaviour up to the stated bound",
        assumptions=["L-iterators: generator objects follow the send/StopIteration protocol"],
        not_reached=["WHEN an abandoned block's generator is finalised (reference counting / garbage collector) is outside the encoding; WHAT happens when it is closed is covered (Behavior._invokeInner, close modelled at the suspension point)", "compiler: visit_Abort, makeGuardCheckers, generateInvocation", "DynamicScenario._prepare/_start guard checks"],
    )
}
