"""Property fragment for C16 (region operations obey set semantics in full 3-D)."""

PROPERTIES = {
    "C16": dict(
        modules=["regions"],
        # the volume/volume overlap test (written for C04) decides `A.intersects(B)` for mesh volumes
        borrow=dict(modules=["solids"], match=["MeshVolumeRegion.intersects"]),
        level="proof",
        claim=(
            "every region denotes a point set mem3(R, p) over R^3 (planar regions at their height z); "
            "PolygonalRegion / PolygonalFootprintRegion / PolylineRegion intersect-union-difference (incl. regionFromShapelyObject, inlined) "
            "return a region whose set is the set operation of the operands' sets and that keeps the height; the double dispatch of "
            "Region.intersect/union/intersects/difference reverses at most once (triedReversed=True) and then falls back to the generic "
            "Intersection/Union/DifferenceRegion; AllRegion/EmptyRegion laws; Boolean combination in the composed regions' containsPoint/"
            "containsObject; distanceTo = 0 exactly on members, else the Euclidean distance to the nearest member (Polygonal, Circular, "
            "Polyline, Footprint, PointSet); MeshRegion.projectVector returns the nearest hit along +-direction; intersects <=> a shared "
            "point (with heights); containsRegionInner totality and soundness; every member inside the reported AABB; findMinMax; "
            "n-ary unions: PolygonalRegion.unionAll (membership in the result = membership in some operand, common height kept, or the operand list is refused), "
            "PolylineRegion.unionAll / __add__ (union of the operands' lines; non-polyline operands refused with TypeError / NotImplemented; the empty list gives nowhere)"
        ),
        note=(
            "proved relative to the shapely / numpy / trimesh / KD-tree library contracts of pyvc/models_shapely.py (exact planar set "
            "operations on abstract point sets, facts instantiated at the finitely many points of a path); probe points are clear of the "
            "operands' boundaries (G-lowdim); adding/removing a 1-dimensional set to/from a polygon is checked off the line only; "
            "discs are identified with their polygons; an unknown operand class obeys this same contract (assume-guarantee over the dispatch)"
        ),
        assumptions=[
            "library regions other than `nowhere` are non-empty (class invariant of the constructors)",
            "operations of an operand of unknown class satisfy this property's contract (assume-guarantee; every override in regions.py that is reached is itself under contract)",
            "measure monotonicity: a contained region has no larger dimension and, at equal dimension, no larger size",
            "viewAngleToPoint is abstract (atan2 not expanded): SectorRegion.containsPoint is verified relative to it",
        ],
        not_reached=[
            "MeshVolumeRegion/MeshSurfaceRegion.intersect/union/difference bodies (trimesh boolean operations and slicing)",
            "MeshVolumeRegion/MeshSurfaceRegion.containsPoint/distanceTo (trimesh proximity queries), PathRegion.distanceTo, VoxelRegion",
            "PolygonalRegion.unionAll with buf > 0 (buffer-unbuffer smoothing of the xodr parser) and cleanPolygon; buffer/boundFootprint",
            "PathRegion.distanceTo / containsPoint / nearestSegmentTo (_segmentDistanceHelper: numpy cross / hypot / amax forms are not modelled by the engine)",
            "projectVector default direction of MeshSurfaceRegion (area-weighted face normal)",
            "lazily constructed operands (isLazy arms fall back to the generic regions; only the non-lazy arms are verified)",
        ],
        bounded=["findMinMax: 1..4 values", "PointSetRegion.AABB: 1..3 points", "PolygonalRegion.unionAll: 2..3 operands (polygonal / nowhere / footprint / polyline); PolylineRegion.unionAll: 0..2 operands"],
    )
}
