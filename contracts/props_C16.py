"""Property fragment for C16 (region operations obey set semantics in full 3-D)."""

PROPERTIES = {
    "C16": dict(
        modules=["regions"],
        level="proof",
        claim="set semantics of region operations relative to shapely/numpy/trimesh library contracts",
        note="planar geometry abstract (membership predicate + exact set operations); see evidence.trusted_base",
        assumptions=[],
        not_reached=[],
    )
}
