"""Sidecar contracts for property C06: specifier resolution follows the documented priorities, whatever
the order in which the specifiers are written.

Carriers: scenic.core.object_types:Constructible._resolveSpecifiers (and its nested `dfs`),
scenic.core.specifiers:Specifier.__init__ / ModifyingSpecifier.__init__ / PropertyDefault.resolveFor,
Constructible.__init_subclass__ (default merging) and the built-in specifier constructors of
scenic.syntax.veneer (reference table, see the second half of this file).

Oracle.  The postconditions are written from the property statement and docs/reference/specifiers.rst
("Specifier Resolution"): they are ORDER-INDEPENDENT functions of the *set* of specifiers --

  * SpecifierError  <=>  two non-modifying specifiers give some property the same priority, or a final
    property is specified, or the dependency graph is cyclic, or a dependency has no provider;
  * otherwise every property has the value of its unique highest-priority (smallest number) specifier, altered
    by the modifying specifier iff that one does not win the property and may modify it; properties nobody
    specifies get the class default; every specifier is evaluated at most once and only when all the properties
    it depends on already have their FINAL value.

The body is executed for EVERY permutation of the input list (one contract instance per permutation, so that
they run in parallel); as the expected outcome does not mention the order, proving all instances proves
order-independence.  A relational instance additionally runs the body on two orders in one path and compares.

Bounds (stated in the notes of the contracts): number of specifiers / properties is bounded, priorities are
symbolic integers (exact), presence of a property in a specifier is enumerated exhaustively."""
import itertools
import os
import re

import z3

from pyvc import contracts as C
from pyvc import models_spec
from pyvc.builtins_model import get_attr
from pyvc.interp import BuiltinFn, SymRaise
from pyvc.models_spec import namespace_items
from pyvc.values import PDict, PList, PObj, PSet, SV, compare, sv_and, sv_not, sv_or, tobool

from .common import repo_class

OT = "scenic.core.object_types"
SP = "scenic.core.specifiers"
LE = "scenic.core.lazy_eval"
VN = "scenic.syntax.veneer"
RESOLVE = f"{OT}:Constructible._resolveSpecifiers"
SHORT = "object_types.Constructible._resolveSpecifiers"


# =================================================================================================
# model world: specifiers as heap objects of the REAL classes, values as identity tokens
# =================================================================================================


def _z(x):
    return tobool(x) if isinstance(x, (SV, z3.ExprRef)) else z3.BoolVal(bool(x))


def _and(*xs):
    return z3.And(*[_z(x) for x in xs]) if xs else z3.BoolVal(True)


def _or(*xs):
    return z3.Or(*[_z(x) for x in xs]) if xs else z3.BoolVal(False)


def _lt(a, b):
    return _z(compare("<", a, b))


def _eq(a, b):
    return _z(compare("==", a, b))


class SpecModel:
    """One specifier of the model world."""

    def __init__(self, name, prios, deps=(), modifying=False, modifiable=(), default_for=None):
        self.name, self.prios, self.deps = name, dict(prios), tuple(sorted(deps))
        self.modifying, self.modifiable, self.default_for = modifying, tuple(modifiable), default_for
        self.obj = None
        self.calls = []  # context snapshots at each evaluation of the value function


class World:
    def __init__(self):
        self.specs = []  # SpecModel, in a canonical (order-independent) listing
        self.defaults = {}  # prop -> SpecModel
        self.finals = ()
        self.order = ()  # names, the order in which the specifiers are passed
        self.log = []  # (SpecModel, snapshot dict) in evaluation order

    def by_name(self, n):
        return [s for s in self.specs if s.name == n][0]


def _token(tag, **attrs):
    v = PObj("Val", tag=tag)
    for k, a in attrs.items():
        setattr(v, k, a)
    return v


def build_spec(world, sm):
    """PObj of the real Specifier / ModifyingSpecifier class whose `value` is a DelayedArgument-shaped object;
    the value function logs the context it is evaluated in (the observation point for 'evaluated only after
    its dependencies are final')."""
    cls = repo_class(f"{SP}:ModifyingSpecifier" if sm.modifying else f"{SP}:Specifier")
    o = PObj(cls, tag=sm.name)
    sm.obj = o
    sm.tokens = {p: _token(f"{sm.name}.{p}", origin=(sm, p), base=None) for p in sm.prios}

    def valuefn(context):
        snap = {k: v for k, v in namespace_items(context) if k != "_evaluated"}
        sm.calls.append(snap)
        world.log.append((sm, snap))
        out = PDict()
        for p in sm.prios:
            if sm.modifying and p in snap:
                # a modifying specifier computes its value FROM the value already in the context
                out.set(p, _token(f"{sm.name}.modified({snap[p].tag})", origin=(sm, p), base=snap[p]))
            else:
                out.set(p, sm.tokens[p])
        return out

    da = PObj(repo_class(f"{LE}:DelayedArgument"), tag=sm.name + ".value")
    da.fields.update(_requiredProperties=sm.deps, _dependencies=(), _needsSampling=False, _needsLazyEval=True, _isLazy=True, value=BuiltinFn(sm.name + ".value", valuefn))
    o.fields.update(name=("PropertyDefault" if sm.default_for else sm.name), priorities=PDict(list(sm.prios.items())), value=da, requiredProperties=sm.deps)
    if sm.modifying:
        o.fields["modifiable_props"] = PSet(sm.modifiable)
    return o


def build_class(world):
    cls = PObj(repo_class(f"{OT}:Constructible"), tag="cls")
    cls.fields["_defaults"] = PDict([(p, build_spec(world, sm)) for p, sm in world.defaults.items()])
    cls.fields["_finalProperties"] = PSet(world.finals, frozen=True)
    cls.fields["__name__"] = "C"
    return cls


def world_type(world_of):
    """Ghost input: the whole world, concretised for replay as plain JSON."""

    def conc(eng, model, val):
        w = val
        out = dict(order=list(w.order), finals=list(w.finals), specs={}, defaults={})
        for sm in w.specs:
            out["specs"][sm.name] = dict(
                priorities={p: eng.eval_model(model, v) for p, v in sm.prios.items()}, deps=list(sm.deps), modifying=sm.modifying, modifiable=list(sm.modifiable)
            )
        for p, sm in w.defaults.items():
            out["defaults"][p] = dict(deps=list(sm.deps))
        return out

    return C.Ghost(lambda eng, name, I: world_of, conc)


# =================================================================================================
# the order-independent expected outcome (from the property statement / reference, "Specifier Resolution")
# =================================================================================================


def roles(world):
    """For every property: [(condition, specifier SpecModel, modifier SpecModel|None)] -- the alternatives are
    mutually exclusive and exhaustive when there is no tie.  Conditions are z3 formulas over the priorities."""
    normals = [s for s in world.specs if not s.modifying]
    mods = [s for s in world.specs if s.modifying]
    assert len(mods) <= 1, "the expected-outcome function is stated for at most one modifying specifier"
    m = mods[0] if mods else None
    props = []
    for s in world.specs:
        for p in s.prios:
            if p not in props:
                props.append(p)
    for p in world.defaults:
        if p not in props:
            props.append(p)
    out = {}
    for p in props:
        N = [s for s in normals if p in s.prios]
        alts = []
        m_has = m is not None and p in m.prios
        m_wins = _and(*[_lt(m.prios[p], s.prios[p]) for s in N]) if m_has else z3.BoolVal(False)  # strictly higher priority than every normal specifier
        if m_has:
            alts.append((m_wins, m, None))
        for s in N:
            best = _and(*[_lt(s.prios[p], t.prios[p]) for t in N if t is not s])
            if m_has:
                modifier = m if p in m.modifiable else None
                alts.append((_and(best, z3.Not(m_wins)), s, modifier))
            else:
                alts.append((best, s, None))
        if not N and not m_has:
            alts.append((z3.BoolVal(True), world.defaults.get(p), None))
        out[p] = alts
    return out


def tie_formula(world):
    normals = [s for s in world.specs if not s.modifying]
    ties = []
    for a, b in itertools.combinations(normals, 2):
        for p in a.prios:
            if p in b.prios:
                ties.append(_eq(a.prios[p], b.prios[p]))
    return _or(*ties)


def final_specified(world, include_modifying=True):
    return any(p in world.finals for s in world.specs for p in s.prios if include_modifying or not s.modifying)


def graph_errors(world, role_of):
    """(missing, cyclic) for a CONCRETE role assignment role_of[p] = (specifier, modifier): dependency graph over
    all specifiers of the object (written ones and the defaults that are needed)."""
    nodes = list(world.specs) + [sm for p, sm in world.defaults.items() if role_of.get(p, (None, None))[0] is sm]
    provider = {p: (mo or sp) for p, (sp, mo) in role_of.items() if sp is not None}
    edges = {id(n): [] for n in nodes}
    missing = False
    for n in nodes:
        for d in n.deps:
            if d not in provider:
                missing = True
            else:
                edges[id(n)].append(provider[d])
        for p, (sp, mo) in role_of.items():
            if mo is n:
                edges[id(n)].append(sp)
    # cycle detection (plain DFS colouring on the specification side)
    colour = {}
    cyclic = [False]

    def visit(n):
        c = colour.get(id(n), 0)
        if c == 1:
            cyclic[0] = True
            return
        if c == 2:
            return
        colour[id(n)] = 1
        for t in edges.get(id(n), []):
            visit(t)
        colour[id(n)] = 2

    for n in nodes:
        visit(n)
    return missing, cyclic[0]


def exc_name(exc):
    return getattr(exc.cls, "name", getattr(exc.cls, "__name__", str(exc.cls)))


def check_outcome(I, world, outcome, name, with_graph=False):
    """Emit the C06 obligations for one execution of _resolveSpecifiers on `world`."""
    eng = I.eng
    tie = tie_formula(world)
    fin = final_specified(world)
    alts = roles(world)
    # --- error condition -------------------------------------------------------------------------
    if with_graph:
        # concrete priorities in the dependency worlds: the role assignment is decided
        role_of = {}
        for p, al in alts.items():
            for cond, sp, mo in al:
                if z3.is_true(z3.simplify(cond)):
                    role_of[p] = (sp, mo)
        missing, cyclic = graph_errors(world, role_of)
    else:
        missing = cyclic = False
    must_fail = _or(tie, fin, missing, cyclic)
    if outcome[0] == "raise":
        cn = exc_name(outcome[1])
        eng.check(f"{name}#raises.only_SpecifierError", cn == "SpecifierError", detail=f"raised {cn}{outcome[1].args!r}")
        eng.check(f"{name}#raises.SpecifierError.only_if_tie_or_final_or_cycle_or_missing_dependency", must_fail)
        return
    eng.check(f"{name}#raises.SpecifierError.must.when_two_specifiers_give_a_property_the_same_priority", z3.Not(tie))
    eng.check(f"{name}#raises.SpecifierError.must.when_a_final_property_is_specified", not fin)
    if with_graph:
        eng.check(f"{name}#raises.SpecifierError.must.when_a_dependency_has_no_provider", not missing)
        eng.check(f"{name}#raises.SpecifierError.must.when_dependencies_are_cyclic", not cyclic)
    # --- values ----------------------------------------------------------------------------------
    res = outcome[1]
    props, consts = res[0], res[1]
    ok_shape = isinstance(props, PDict)
    eng.check(f"{name}#ensures.result_is_a_property_dictionary", ok_shape)
    if not ok_shape:
        return
    want_keys = set(alts)
    eng.check(f"{name}#ensures.exactly_the_specified_and_inherited_properties", set(props.keys) == want_keys and len(props.keys) == len(want_keys))
    for p, al in alts.items():
        actual = props.get(p)
        if actual is None:
            continue
        base = actual.base if getattr(actual, "base", None) is not None else actual
        for cond, sp, mo in al:
            if sp is None:
                continue
            got_specifier = getattr(base, "origin", (None, None))[0] is sp and getattr(base, "origin", (None, None))[1] == p
            eng.check(f"{name}#ensures.value_comes_from_the_unique_highest_priority_specifier_else_class_default", z3.Implies(cond, z3.BoolVal(got_specifier)))
            if mo is None:
                eng.check(f"{name}#ensures.value_altered_only_by_a_modifying_specifier_that_may_modify_it", z3.Implies(cond, z3.BoolVal(base is actual)))
            else:
                # the modifier produced the final value FROM the value given by the property's specifier (so it ran after it)
                altered = base is not actual and actual.origin[0] is mo and any(snap.get(p) is base for snap in mo.calls)
                eng.check(f"{name}#ensures.modifying_specifier_alters_the_already_specified_value", z3.Implies(cond, z3.BoolVal(altered)))
    # --- evaluation discipline -------------------------------------------------------------------
    final = {p: props.get(p) for p in props.keys}
    for sm in list(world.specs) + list(world.defaults.values()):
        eng.check(f"{name}#ensures.each_specifier_evaluated_at_most_once", len(sm.calls) <= 1)
        if sm in world.specs:
            eng.check(f"{name}#ensures.each_written_specifier_is_evaluated", len(sm.calls) == 1)
        for snap in sm.calls:
            for d in sm.deps:
                eng.check(f"{name}#ensures.dependencies_final_when_a_specifier_is_evaluated", d in snap and snap[d] is final.get(d), detail=f"{sm.name} needs {d}")
    # unused defaults are not evaluated, used ones are
    for p, sm in world.defaults.items():
        used = final.get(p) is not None and getattr(final[p], "origin", (None,))[0] is sm
        eng.check(f"{name}#ensures.class_default_evaluated_iff_nobody_specifies_the_property", (len(sm.calls) == 1) == used)
    eng.check(f"{name}#ensures.constProps_are_exactly_the_defaulted_properties", isinstance(consts, PSet) and set(consts.items) == {p for p, sm in world.defaults.items() if len(sm.calls) == 1})


# =================================================================================================
# trusted stubs
# =================================================================================================


def install_stubs(reg):
    models_spec.install(reg)

    def needs_lazy(I, thing):
        if isinstance(thing, (PDict, PList, PSet)):
            return False
        return I.builtins["getattr"].fn(thing, "_needsLazyEval", False)

    reg.models[f"{LE}:needsLazyEvaluation"] = needs_lazy
    reg.trust("lazy_eval.needsLazyEvaluation", "stub identical to the source (getattr(thing, '_needsLazyEval', False)); built-in containers answer False")


# =================================================================================================
# (1) Constructible._resolveSpecifiers -- priority worlds
# =================================================================================================

PROPS_A = ("p", "q")


def setup_priorities(perm, n_normal, with_modifier, final_prop):
    """n_normal non-modifying specifiers (+ optionally one modifying specifier) over properties p, q with symbolic
    integer priorities; every subset of {p, q} per specifier is enumerated; defaults for p, q and d."""

    def setup(I, env):
        eng = I.eng
        w = World()
        for k in range(n_normal):
            prios = {}
            for p in PROPS_A:
                if eng.choose(2, f"s{k} specifies {p}?") == 1:
                    prios[p] = eng.fresh_int(f"prio[s{k}.{p}]")
            if final_prop and eng.choose(2, f"s{k} specifies final f?") == 1:
                prios["f"] = eng.fresh_int(f"prio[s{k}.f]")
            w.specs.append(SpecModel(f"s{k}", prios))
        if with_modifier:
            prios = {}
            for p in PROPS_A:
                if eng.choose(2, f"m specifies {p}?") == 1:
                    prios[p] = eng.fresh_int(f"prio[m.{p}]")
            if final_prop and eng.choose(2, "m specifies final f?") == 1:
                prios["f"] = eng.fresh_int("prio[m.f]")
            # like `on`: p may be modified, q may not
            w.specs.append(SpecModel("m", prios, modifying=True, modifiable=("p",)))
        for p in PROPS_A + ("d",):
            w.defaults[p] = SpecModel(f"default.{p}", {p: -1}, default_for=p)
        if final_prop:
            w.defaults["f"] = SpecModel("default.f", {"f": -1}, deps=("p",), default_for="f")
            w.finals = ("f",)
        names = [s.name for s in w.specs]
        w.order = tuple(names[i] for i in perm)
        objs = {s.name: build_spec(w, s) for s in w.specs}
        env.vars["cls"] = build_class(w)
        env.vars["specifiers"] = tuple(objs[n] for n in w.order)
        env.vars["_world"] = w
        eng.input_syms.append(("world", world_type(w), w))

    return setup


def post_priorities(key):
    def post(I, env, outcome):
        check_outcome(I, env.vars["_world"], outcome, key)

    return post


INLINE_RESOLVE = [
    "Specifier.getValuesFor",
    "valueInContext",
    "LazilyEvaluable.evaluateIn",
    "DelayedArgument.evaluateInner",
    "LazilyEvaluable.makeContext",
    "LazilyEvaluable.getContextValues",
    "DefaultIdentityDict.__init__",
    "DefaultIdentityDict.__contains__",
    "DefaultIdentityDict.__getitem__",
    "DefaultIdentityDict.__setitem__",
    "toDistribution",
    "Constructible._specify",
]


def register_priorities(reg):
    variants = [
        # tag, number of normal specifiers, modifier?, final property?
        ("3 specifiers", 3, False, False),
        ("2 specifiers + modifying", 2, True, False),
        ("2 specifiers + modifying, final property", 2, True, True),
    ]
    for tag, n, withm, fin in variants:
        total = n + (1 if withm else 0)
        for perm in itertools.permutations(range(total)):
            ptag = "".join(map(str, perm))
            key = f"{RESOLVE}[{tag}; order {ptag}]"
            short = f"{SHORT}[{tag}; order {ptag}]"
            reg.add(
                C.Contract(
                    RESOLVE,
                    params=dict(cls=C.Const(None), specifiers=C.Const(None)),
                    setup=setup_priorities(perm, n, withm, fin),
                    post=post_priorities(f"{SHORT}[{tag}]"),
                    raises=[C.Raises("SpecifierError", mode="may")],
                    inline=INLINE_RESOLVE,
                    bounded=True,
                    note=f"bounded: {tag} over properties p, q (+ defaults p, q, d{', final f' if fin else ''}); priorities symbolic integers; every subset of properties per specifier; input order {ptag}",
                    replay=replay_resolve,
                    properties=("C06",),
                ),
                key=key,
            )


# =================================================================================================
# (1b) Constructible._resolveSpecifiers -- dependency worlds (concrete priorities, enumerated dependency sets)
# =================================================================================================

# name -> (priorities, modifying, modifiable, candidate dependencies); every subset of the candidates is tried
DEP_WORLD = {
    "a": ({"p": 1}, False, (), ("q", "d")),
    "b": ({"q": 1}, False, (), ("r", "p")),
    "c": ({"r": 1, "p": 2}, False, (), ("q", "z")),  # its claim on p is overridden by a; z has no provider at all
    "m": ({"p": 1}, True, ("p",), ("q", "r")),  # same priority as a: modifies p
}
DEP_DEFAULTS = {"p": (), "q": (), "r": (), "d": ("p", "r")}  # candidate `self.` dependencies of the class defaults


def _subset(eng, cands, label):
    k = eng.choose(2 ** len(cands), label)
    return tuple(c for i, c in enumerate(cands) if (k >> i) & 1)


def setup_dependencies(perm):
    def setup(I, env):
        eng = I.eng
        w = World()
        for n, (prios, mod, modifiable, cands) in DEP_WORLD.items():
            w.specs.append(SpecModel(n, prios, deps=_subset(eng, cands, f"dependencies of {n}"), modifying=mod, modifiable=modifiable))
        for p, cands in DEP_DEFAULTS.items():
            w.defaults[p] = SpecModel(f"default.{p}", {p: -1}, deps=_subset(eng, cands, f"dependencies of default {p}"), default_for=p)
        names = [s.name for s in w.specs]
        w.order = tuple(names[i] for i in perm)
        objs = {s.name: build_spec(w, s) for s in w.specs}
        env.vars["cls"] = build_class(w)
        env.vars["specifiers"] = tuple(objs[n] for n in w.order)
        env.vars["_world"] = w
        eng.input_syms.append(("world", world_type(w), w))

    return setup


def register_dependencies(reg):
    tag = "dependency graphs"
    for perm in itertools.permutations(range(len(DEP_WORLD))):
        ptag = "".join(map(str, perm))

        def post(I, env, outcome):
            check_outcome(I, env.vars["_world"], outcome, f"{SHORT}[{tag}]", with_graph=True)

        reg.add(
            C.Contract(
                RESOLVE,
                params=dict(cls=C.Const(None), specifiers=C.Const(None)),
                setup=setup_dependencies(perm),
                post=post,
                raises=[C.Raises("SpecifierError", mode="may")],
                inline=INLINE_RESOLVE,
                bounded=True,
                note=f"bounded: specifiers a, b, c and modifying m with fixed priorities, properties p q r d (+ unprovided z); every subset of the candidate dependencies {dict((n, v[3]) for n, v in DEP_WORLD.items())} and of the default of d {DEP_DEFAULTS['d']}; input order {ptag}",
                replay=replay_resolve,
                properties=("C06",),
            ),
            key=f"{RESOLVE}[{tag}; order {ptag}]",
        )


# =================================================================================================
# (1c) relational: the body is run on two orders of the same specifiers in ONE path and the outcomes compared
# =================================================================================================


def register_relational(reg):
    from pyvc import extract
    from pyvc.interp import ClassVal, FuncVal

    tag = "3 specifiers; two orders in one path"
    name = f"{SHORT}[{tag}]"
    holder = {}

    def describe(outcome):
        """order-independent description of an outcome: error class, or {property: (specifier name, modifier name)}"""
        if outcome[0] == "raise":
            return ("raise", exc_name(outcome[1]))
        props = outcome[1][0]
        d = {}
        for p in props.keys:
            v = props.get(p)
            base = v.base if getattr(v, "base", None) is not None else v
            d[p] = (base.origin[0].name, v.origin[0].name if base is not v else None)
        return ("return", d)

    def post(I, env, outcome):
        eng = I.eng
        w1 = env.vars["_world"]
        first = describe(outcome)
        others = [pm for pm in itertools.permutations(range(len(w1.specs))) if pm != tuple(range(len(w1.specs)))]
        perm = others[eng.choose(len(others), "second order")]
        # same specifiers (same symbolic priorities), fresh heap objects, second order
        w2 = World()
        for sm in w1.specs:
            w2.specs.append(SpecModel(sm.name, sm.prios, sm.deps, sm.modifying, sm.modifiable))
        for p, sm in w1.defaults.items():
            w2.defaults[p] = SpecModel(sm.name, sm.prios, sm.deps, default_for=p)
        w2.finals = w1.finals
        names = [s.name for s in w2.specs]
        w2.order = tuple(names[i] for i in perm)
        objs = {s.name: build_spec(w2, s) for s in w2.specs}
        w1.second_order = w2.order
        ex = extract.extract(RESOLVE)
        f = FuncVal(ex.node, ex.module, None, RESOLVE, ClassVal.get(ex.module.name, ex.owner_class))
        try:
            second = ("return", I.run_function(f, [build_class(w2), tuple(objs[n] for n in w2.order)], {}, holder["contract"]))
        except SymRaise as sr:
            second = ("raise", sr.exc)
        second = describe(second)
        eng.check(f"{name}#relational.same_kind_of_outcome_for_both_orders", first[0] == second[0] and (first[0] == "return" or first[1] == second[1]), detail=f"{w1.order}: {first[0]}, {w2.order}: {second[0]}")
        if first[0] == second[0] == "return":
            eng.check(f"{name}#relational.same_property_values_for_both_orders", first[1] == second[1])

    def conc_world(w):
        def conc(eng, model, val):
            out = world_type(w).conc(eng, model, val)
            out["second_order"] = list(getattr(w, "second_order", ()))
            return out

        return conc

    def setup(I, env):
        setup_priorities(tuple(range(3)), 3, False, False)(I, env)
        w = env.vars["_world"]
        I.eng.input_syms[-1] = ("world", C.Ghost(lambda eng, name, I: w, conc_world(w)), w)

    c = C.Contract(
        RESOLVE,
        params=dict(cls=C.Const(None), specifiers=C.Const(None)),
        setup=setup,
        post=post,
        raises=[C.Raises("SpecifierError", mode="may")],
        inline=INLINE_RESOLVE,
        bounded=True,
        note="bounded: 3 non-modifying specifiers over p, q with symbolic priorities; first order s0 s1 s2, second order any other permutation",
        replay=replay_resolve,
        properties=("C06",),
    )
    holder["contract"] = c
    reg.add(c, key=f"{RESOLVE}[{tag}]")


# =================================================================================================
# (2) the nested dfs: topological order, cycles, missing providers
# =================================================================================================

DFS = f"{RESOLVE}.dfs"
DFS_SHORT = f"{SHORT}.dfs"
# node -> (property it specifies, candidate dependencies); n3 additionally MODIFIES p0 (specified by n0)
DFS_NODES = {"n0": ("p0", ("p1", "p2")), "n1": ("p1", ("p2", "p3")), "n2": ("p2", ("p0", "zz")), "n3": ("p3", ("p1",))}


DFS_MODES = ("fresh colouring", "some specifiers already finished", "some finished and an ancestor in progress")


def register_dfs(reg):
    for mode in range(3):
        _register_dfs_mode(reg, mode)


def _register_dfs_mode(reg, mode):
    from pyvc import extract
    from pyvc.interp import Env, FuncVal

    def closure(I):
        eng = I.eng
        nodes = {}
        for n, (prop, cands) in DFS_NODES.items():
            o = PObj(repo_class(f"{SP}:ModifyingSpecifier" if n == "n3" else f"{SP}:Specifier"), tag=n)
            o.fields.update(name=n, requiredProperties=tuple(sorted(_subset(eng, cands, f"dependencies of {n}"))), _dfs_state=0)
            o.nname, o.prop = n, prop
            nodes[n] = o
        n3_modifies = eng.choose(2, "n3 modifies p0?") == 1
        properties = PDict([(o.prop, o) for o in nodes.values()])
        modifying = PDict([("p0", nodes["n3"])] if n3_modifies else [])
        modifying_inv = PDict([(nodes["n3"], "p0")] if n3_modifies else [])
        # specification-side graph
        provider = {o.prop: o for o in nodes.values()}
        if n3_modifies:
            provider["p0"] = nodes["n3"]
        edges, missing = {}, {}
        for n, o in nodes.items():
            edges[n] = [provider[d] for d in o.fields["requiredProperties"] if d in provider]
            missing[n] = any(d not in provider for d in o.fields["requiredProperties"])
            if n == "n3" and n3_modifies:
                edges[n].append(nodes["n0"])
        # initial colouring: a dependency-closed set of finished nodes already in `order` (+ maybe one node in progress)
        order0 = []
        if mode >= 1:
            for n, o in nodes.items():
                if n != "n0" and eng.choose(2, f"{n} already finished?") == 1:
                    o.fields["_dfs_state"] = 2
            fin = [o for o in nodes.values() if o.fields["_dfs_state"] == 2]
            # only consistent states: finished nodes have all their providers finished and nothing missing
            for o in fin:
                if missing[o.nname] or any(t.fields["_dfs_state"] != 2 for t in edges[o.nname]):
                    raise PathEndSignal()
            # any topological order of the finished nodes
            perms = [pm for pm in itertools.permutations(fin) if all(pm.index(t) < pm.index(o) for o in pm for t in edges[o.nname])]
            if not perms:
                raise PathEndSignal()
            order0 = list(perms[eng.choose(len(perms), "order of the finished nodes")])
        if mode == 2:
            cands = [o for o in nodes.values() if o.fields["_dfs_state"] == 0 and o.nname != "n0"]
            if not cands:
                raise PathEndSignal()
            cands[eng.choose(len(cands), "node in progress")].fields["_dfs_state"] = 1
        order = PList(order0)
        I._dfs = dict(nodes=nodes, edges=edges, missing=missing, order=order, order0=list(order0), state0={n: o.fields["_dfs_state"] for n, o in nodes.items()}, n3_modifies=n3_modifies)
        free = dict(modifying=modifying, properties=properties, modifying_inv=modifying_inv, order=order)
        ex = extract.extract(DFS)
        free["dfs"] = FuncVal(ex.node, ex.module, Env(ex.module, None, free), DFS, None)  # the recursive reference
        return free

    def setup(I, env):
        env.vars["spec"] = I._dfs["nodes"]["n0"]
        d = I._dfs
        desc = dict(
            deps={n: list(o.fields["requiredProperties"]) for n, o in d["nodes"].items()}, state0=d["state0"], order0=[o.nname for o in d["order0"]], n3_modifies_p0=d["n3_modifies"]
        )
        I.eng.input_syms.append(("graph", C.Const(None), desc))

    def post(I, env, outcome):
        eng = I.eng
        d = I._dfs
        nodes, edges, missing, state0 = d["nodes"], d["edges"], d["missing"], d["state0"]
        # what the call has to do, from the specification: everything reachable from n0 through unfinished nodes
        reach, bad = [], [False]
        stack = set()

        def visit(o):
            if state0[o.nname] == 2 or o in reach and o.nname not in stack:
                return
            if state0[o.nname] == 1 or o.nname in stack:
                bad[0] = True
                return
            stack.add(o.nname)
            if missing[o.nname]:
                bad[0] = True
            for t in edges[o.nname]:
                visit(t)
            stack.discard(o.nname)
            if o not in reach:
                reach.append(o)

        visit(nodes["n0"])
        if outcome[0] == "raise":
            eng.check(f"{DFS_SHORT}#raises.only_SpecifierError", exc_name(outcome[1]) == "SpecifierError")
            eng.check(f"{DFS_SHORT}#raises.SpecifierError.only_if_cycle_or_missing_provider", bad[0])
            return
        eng.check(f"{DFS_SHORT}#raises.SpecifierError.must.on_cycle_or_missing_provider", not bad[0])
        order = list(d["order"].items)
        n0 = len(d["order0"])
        eng.check(f"{DFS_SHORT}#ensures.order_only_extended", all(a is b for a, b in zip(order[:n0], d["order0"])) and len(order) >= n0)
        new = order[n0:]
        eng.check(f"{DFS_SHORT}#ensures.appends_exactly_the_unfinished_specifiers_reachable_from_the_argument_once", len(new) == len(reach) and all(any(x is o for x in new) for o in reach))
        pos = {id(o): i for i, o in enumerate(order)}
        for o in new:
            for t in edges[o.nname]:
                eng.check(f"{DFS_SHORT}#ensures.providers_of_dependencies_and_specifier_of_modified_property_come_first", id(t) in pos and pos[id(t)] < pos[id(o)], detail=f"{t.nname} before {o.nname}")
        for n, o in nodes.items():
            want = 2 if any(o is x for x in order) else state0[n]
            eng.check(f"{DFS_SHORT}#ensures.finished_marks_exactly_the_ordered_specifiers", o.fields.get("_dfs_state") == want)

    reg.add(
        C.Contract(
            DFS,
            params=dict(spec=C.Const(None)),
            closure_env=closure,
            setup=setup,
            post=post,
            raises=[C.Raises("SpecifierError", mode="may")],
            bounded=True,
            note=f"bounded: 4 specifiers {DFS_NODES} (n3 optionally modifies p0), every subset of the candidate dependencies; initial colouring: {DFS_MODES[mode]}",
            replay=replay_dfs,
            properties=("C06",),
        ),
        key=f"{DFS}[{DFS_MODES[mode]}]",
    )


from pyvc.engine import PathEnd as PathEndSignal  # noqa: E402  (inconsistent initial colourings are not inputs)


def replay_dfs(inputs, clause):
    """The nested dfs cannot be called from outside; the graph is replayed through the real _resolveSpecifiers
    (fresh colouring) and the evaluation order is observed."""
    g = inputs["graph"]
    if any(v != 0 for v in g["state0"].values()):
        return None
    from scenic.core.errors import SpecifierError
    from scenic.core.lazy_eval import DelayedArgument
    from scenic.core.object_types import Constructible
    from scenic.core.specifiers import ModifyingSpecifier, Specifier

    cls = type("ReplayDfs", (Constructible,), {"_scenic_properties": {}})
    log = []

    def mk(n):
        prop = DFS_NODES[n][0]

        def fn(ctx, n=n):
            log.append((n, set(k for k in ctx.__dict__ if k != "_evaluated")))
            out = {prop: n}
            if n == "n3" and g["n3_modifies_p0"]:
                out["p0"] = "n3(p0)"
            return out

        val = DelayedArgument(set(g["deps"][n]), fn, _internal=True)
        if n == "n3":
            pr = {prop: 1}
            if g["n3_modifies_p0"]:
                pr["p0"] = 1
            return ModifyingSpecifier(n, pr, val, modifiable_props={"p0"})
        return Specifier(n, {prop: 1}, val)

    try:
        cls._resolveSpecifiers([mk(n) for n in DFS_NODES])
    except SpecifierError as e:
        provided = {DFS_NODES[n][0] for n in DFS_NODES}
        missing = any(d not in provided for n in DFS_NODES for d in g["deps"][n])
        return None if missing or "depends on itself" in str(e) else f"real code raised SpecifierError({e}) on graph {g}"
    for n, have in log:
        for d in g["deps"][n]:
            if d not in have:
                return f"real code evaluated {n} before its dependency {d} was set (graph {g})"
    if g["n3_modifies_p0"]:
        names = [n for n, _ in log]
        if names.index("n3") < names.index("n0"):
            return f"real code evaluated the modifier n3 before the specifier n0 of the modified property (graph {g})"
    return None


# =================================================================================================
# replay on the REAL code: real Specifier / ModifyingSpecifier objects, a real Constructible subclass
# =================================================================================================


def _real_world(inputs):
    """Build real objects from a concretised world.  Returns (cls, make_specs, meta)."""
    from scenic.core.lazy_eval import DelayedArgument
    from scenic.core.object_types import Constructible
    from scenic.core.specifiers import ModifyingSpecifier, PropertyDefault, Specifier

    w = inputs["world"]
    log = []

    def default_value(p, deps):
        def f(ctx):
            log.append((f"default.{p}", {d: getattr(ctx, d, None) for d in deps}, dict(ctx.__dict__)))
            return ("tok", f"default.{p}", p, None)

        return f

    props = {}
    for p, d in w["defaults"].items():
        attrs = {"final"} if p in w["finals"] else set()
        props[p] = PropertyDefault(set(d["deps"]), attrs, default_value(p, d["deps"]))
    cls = type("ReplayClass", (Constructible,), {"_scenic_properties": props})

    def make(name):
        s = w["specs"][name]
        prios = {p: int(v) for p, v in s["priorities"].items()}

        def fn(ctx, name=name, s=s, prios=prios):
            snap = {k: v for k, v in ctx.__dict__.items() if k != "_evaluated"}
            log.append((name, {d: snap.get(d) for d in s["deps"]}, snap))
            out = {}
            for p in prios:
                if s["modifying"] and p in snap:
                    out[p] = ("tok", name, p, snap[p])
                else:
                    out[p] = ("tok", name, p, None)
            return out

        val = DelayedArgument(set(s["deps"]), fn, _internal=True)
        if s["modifying"]:
            return ModifyingSpecifier(name, prios, val, modifiable_props=set(s["modifiable"]))
        return Specifier(name, prios, val)

    return cls, make, log, w


def reference_outcome(w):
    """Plain-python reading of the property statement on a concrete world -> 'SpecifierError' or {prop: (specifier, modifier)}."""
    specs = w["specs"]
    normals = [n for n, s in specs.items() if not s["modifying"]]
    mods = [n for n, s in specs.items() if s["modifying"]]
    for a, b in itertools.combinations(normals, 2):
        for p, v in specs[a]["priorities"].items():
            if p in specs[b]["priorities"] and int(specs[b]["priorities"][p]) == int(v):
                return "SpecifierError", f"{a} and {b} give {p} the same priority {v}"
    for n, s in specs.items():
        for p in s["priorities"]:
            if p in w["finals"]:
                return "SpecifierError", f"{n} specifies the final property {p}"
    role = {}
    allp = sorted({p for s in specs.values() for p in s["priorities"]} | set(w["defaults"]))
    for p in allp:
        N = sorted((int(specs[n]["priorities"][p]), n) for n in normals if p in specs[n]["priorities"])
        m = mods[0] if mods and p in specs[mods[0]]["priorities"] else None
        if m is not None and (not N or int(specs[m]["priorities"][p]) < N[0][0]):
            role[p] = (m, None)
        elif N:
            role[p] = (N[0][1], m if (m is not None and p in specs[m]["modifiable"]) else None)
        else:
            role[p] = (f"default.{p}", None)
    # dependency graph
    deps_of = {n: s["deps"] for n, s in specs.items()}
    for p, (sp, mo) in role.items():
        if sp.startswith("default."):
            deps_of[sp] = w["defaults"][p]["deps"]
    provider = {p: (mo or sp) for p, (sp, mo) in role.items()}
    edges = {n: [] for n in deps_of}
    for n, ds in deps_of.items():
        for d in ds:
            if d not in provider:
                return "SpecifierError", f"{n} depends on {d}, which nobody provides"
            edges[n].append(provider[d])
    for p, (sp, mo) in role.items():
        if mo is not None:
            edges[mo].append(sp)
    colour = {}

    def visit(n):
        if colour.get(n) == 1:
            return True
        if colour.get(n) == 2:
            return False
        colour[n] = 1
        r = any(visit(t) for t in edges[n])
        colour[n] = 2
        return r

    if any(visit(n) for n in list(edges)):
        return "SpecifierError", "cyclic dependencies"
    return role, None


def _run_real(inputs, order):
    cls, make, log, w = _real_world(inputs)
    from scenic.core.errors import SpecifierError

    specs = [make(n) for n in order]
    try:
        props, consts = cls._resolveSpecifiers(specs)
    except SpecifierError as e:
        return "SpecifierError", str(e), log
    except Exception as e:  # any other exception class is itself a violation
        return type(e).__name__, str(e), log
    return dict(props), consts, log


def _describe_world(w, order):
    return ", ".join(f"{n}{'(modifying)' if w['specs'][n]['modifying'] else ''}{dict((p, int(v)) for p, v in w['specs'][n]['priorities'].items())}" + (f" needs {w['specs'][n]['deps']}" if w["specs"][n]["deps"] else "") for n in order)


def replay_resolve(inputs, clause):
    """Run the real Constructible._resolveSpecifiers on real Specifier objects for the model's order and for every
    other permutation; compare with the reference reading of the statement and between the orders."""
    w = inputs["world"]
    want, why = reference_outcome(w)
    orders = [tuple(w["order"])] + [o for o in itertools.permutations(sorted(w["specs"])) if o != tuple(w["order"])]
    outcomes = []
    for order in orders:
        got, extra, log = _run_real(inputs, order)
        outcomes.append((order, got))
        where = f"real _resolveSpecifiers on [{_describe_world(w, order)}]"
        if isinstance(got, str):
            if got != "SpecifierError":
                return f"{where} raised {got}: {extra}"
            if want != "SpecifierError":
                return f"{where} raised SpecifierError ({extra}) although there is no tie, final property, cycle or missing dependency"
            continue
        if want == "SpecifierError":
            msg = f"{where} returned {_short(got)} although {why}"
            scen = _scenic_demo_tie() if "same priority" in (why or "") else None
            return msg + (f"; {scen}" if scen else "")
        for p, (sp, mo) in want.items():
            tok = got.get(p)
            if tok is None:
                return f"{where}: property {p} missing from the result"
            base = tok[3] if tok[3] is not None else tok
            if base[1] != sp:
                return f"{where}: {p} comes from {base[1]} but its highest-priority specifier is {sp}"
            if (tok[3] is not None) != (mo is not None) or (mo is not None and tok[1] != mo):
                return f"{where}: {p} = {tok} but expected it to be " + (f"modified by {mo}" if mo else "unmodified")
        seen = {}
        for name, depvals, snap in log:
            seen[name] = seen.get(name, 0) + 1
            for d, v in depvals.items():
                if v is None or v != got.get(d):
                    return f"{where}: {name} was evaluated when its dependency {d} was {v!r}, final value {got.get(d)!r}"
        if any(c > 1 for c in seen.values()):
            return f"{where}: a specifier was evaluated more than once: {seen}"
    kinds = {(g if isinstance(g, str) else "values") for _, g in outcomes}
    if len(kinds) > 1:
        return f"outcome depends on the order of the specifiers: {[(o, g if isinstance(g, str) else 'values') for o, g in outcomes]}"
    return None


def _short(props):
    return {p: (t[1] if t[3] is None else f"{t[1]}({t[3][1]})") for p, t in props.items()}


def _scenic_demo_tie():
    """The same defect through the front end: `visible` and `not visible` both give position priority 3."""
    try:
        import scenic
        from scenic.core.errors import SpecifierError

        res = []
        for src in ("ego = new Object at (0, 0, 0)\nnew Object visible, at (5, 5), not visible\n", "ego = new Object at (0, 0, 0)\nnew Object visible, not visible, at (5, 5)\n"):
            try:
                scenic.scenarioFromString("workspace = Workspace(RectangularRegion((0,0,0), 0, 100, 100))\n" + src, mode2D=False)
                res.append("accepted")
            except SpecifierError as e:
                res.append(f"SpecifierError({e})")
        return f"Scenic program `new Object visible, at (5, 5), not visible` is {res[0]} while `new Object visible, not visible, at (5, 5)` gives {res[1]}"
    except Exception as e:  # pragma: no cover - demo only
        return f"(front-end demonstration failed: {type(e).__name__}: {e})"


# =================================================================================================


def register(reg):
    install_stubs(reg)
    register_priorities(reg)
    register_dependencies(reg)
    register_relational(reg)
    register_dfs(reg)
