"""Sidecar contracts for property C06: specifier resolution follows the documented priorities, whatever
the order in which the specifiers are written.

Carriers: scenic.core.object_types:Constructible._resolveSpecifiers (and its nested `dfs`),
scenic.core.specifiers:Specifier.__init__ / ModifyingSpecifier.__init__ / PropertyDefault.resolveFor,
Constructible.__init_subclass__ (default merging) and the built-in specifier constructors of
scenic.syntax.veneer (reference table, see the second half of this file).

Oracle.  The postconditions are written from the property statement and docs/reference/specifiers.rst
("Specifier Resolution"): they are ORDER-INDEPENDENT functions of the *set* of specifiers --

  * SpecifierError  <=>  two non-modifying specifiers give some property the same priority, or a final
    property is specified, or the dependency graph is cyclic, or a dependency has no provider;
  * otherwise every property has the value of its unique highest-priority (smallest number) specifier, altered
    by the modifying specifier iff that one does not win the property and may modify it; properties nobody
    specifies get the class default; every specifier is evaluated at most once and only when all the properties
    it depends on already have their FINAL value.

The body is executed for EVERY permutation of the input list (the permutation is a universally explored choice of
the contract's setup); as the expected outcome does not mention the order, proving all paths proves
order-independence.  A relational instance additionally runs the body on two orders in one path and compares, and
an UNBOUNDED instance proves the phase-1 loop (symbolic-length list, loop invariant over the processed prefix).

Bounds (stated in the notes of the contracts): number of specifiers / properties is bounded, priorities are
symbolic integers (exact), presence of a property in a specifier is enumerated exhaustively.

Known on the unchanged tree (both replay on the real code, see the drivers below): (F6) tie detection only compares
with the running minimum, so priorities (3, 1, 3) are accepted and (3, 3, 1) rejected; a modifying specifier may
specify a final property (the final check is only made for non-modifying specifiers)."""
import itertools
import os
import re

import z3

from pyvc import contracts as C
from pyvc import models_spec
from pyvc.interp import BuiltinFn, SymRaise
from pyvc.models_spec import namespace_items
from pyvc.values import PDict, PList, PObj, PSet, SV, compare, tobool

from .common import repo_class

OT = "scenic.core.object_types"
SP = "scenic.core.specifiers"
LE = "scenic.core.lazy_eval"
VN = "scenic.syntax.veneer"
RESOLVE = f"{OT}:Constructible._resolveSpecifiers"
SHORT = "object_types.Constructible._resolveSpecifiers"


# =================================================================================================
# model world: specifiers as heap objects of the REAL classes, values as identity tokens
# =================================================================================================


def _z(x):
    return tobool(x) if isinstance(x, (SV, z3.ExprRef)) else z3.BoolVal(bool(x))


def _and(*xs):
    return z3.And(*[_z(x) for x in xs]) if xs else z3.BoolVal(True)


def _or(*xs):
    return z3.Or(*[_z(x) for x in xs]) if xs else z3.BoolVal(False)


def _lt(a, b):
    return _z(compare("<", a, b))


def _eq(a, b):
    return _z(compare("==", a, b))


class SpecModel:
    """One specifier of the model world."""

    def __init__(self, name, prios, deps=(), modifying=False, modifiable=(), default_for=None):
        self.name, self.prios, self.deps = name, dict(prios), tuple(sorted(deps))
        self.modifying, self.modifiable, self.default_for = modifying, tuple(modifiable), default_for
        self.obj = None
        self.calls = []  # context snapshots at each evaluation of the value function


class World:
    def __init__(self):
        self.specs = []  # SpecModel, in a canonical (order-independent) listing
        self.defaults = {}  # prop -> SpecModel
        self.finals = ()
        self.order = ()  # names, the order in which the specifiers are passed
        self.log = []  # (SpecModel, snapshot dict) in evaluation order

    def by_name(self, n):
        return [s for s in self.specs if s.name == n][0]


def _token(tag, **attrs):
    v = PObj("Val", tag=tag)
    for k, a in attrs.items():
        setattr(v, k, a)
    return v


def build_spec(world, sm):
    """PObj of the real Specifier / ModifyingSpecifier class whose `value` is a DelayedArgument-shaped object;
    the value function logs the context it is evaluated in (the observation point for 'evaluated only after
    its dependencies are final')."""
    cls = repo_class(f"{SP}:ModifyingSpecifier" if sm.modifying else f"{SP}:Specifier")
    o = PObj(cls, tag=sm.name)
    sm.obj = o
    sm.tokens = {p: _token(f"{sm.name}.{p}", origin=(sm, p), base=None) for p in sm.prios}

    def valuefn(context):
        snap = {k: v for k, v in namespace_items(context) if k != "_evaluated"}
        sm.calls.append(snap)
        world.log.append((sm, snap))
        out = PDict()
        for p in sm.prios:
            if sm.modifying and p in snap:
                # a modifying specifier computes its value FROM the value already in the context
                out.set(p, _token(f"{sm.name}.modified({snap[p].tag})", origin=(sm, p), base=snap[p]))
            else:
                out.set(p, sm.tokens[p])
        return out

    da = PObj(repo_class(f"{LE}:DelayedArgument"), tag=sm.name + ".value")
    da.fields.update(_requiredProperties=sm.deps, _dependencies=(), _needsSampling=False, _needsLazyEval=True, _isLazy=True, value=BuiltinFn(sm.name + ".value", valuefn))
    o.fields.update(name=("PropertyDefault" if sm.default_for else sm.name), priorities=PDict(list(sm.prios.items())), value=da, requiredProperties=sm.deps)
    if sm.modifying:
        o.fields["modifiable_props"] = PSet(sm.modifiable)
    return o


def build_class(world):
    cls = PObj(repo_class(f"{OT}:Constructible"), tag="cls")
    cls.fields["_defaults"] = PDict([(p, build_spec(world, sm)) for p, sm in world.defaults.items()])
    cls.fields["_finalProperties"] = PSet(world.finals, frozen=True)
    cls.fields["__name__"] = "C"
    return cls


def world_type(world_of):
    """Ghost input: the whole world, concretised for replay as plain JSON."""

    def conc(eng, model, val):
        w = val
        out = dict(order=list(w.order), finals=list(w.finals), specs={}, defaults={})
        for sm in w.specs:
            out["specs"][sm.name] = dict(
                priorities={p: eng.eval_model(model, v) for p, v in sm.prios.items()}, deps=list(sm.deps), modifying=sm.modifying, modifiable=list(sm.modifiable)
            )
        for p, sm in w.defaults.items():
            out["defaults"][p] = dict(deps=list(sm.deps))
        return out

    return C.Ghost(lambda eng, name, I: world_of, conc)


# =================================================================================================
# the order-independent expected outcome (from the property statement / reference, "Specifier Resolution")
# =================================================================================================


def roles(world):
    """For every property: [(condition, specifier SpecModel, modifier SpecModel|None)] -- the alternatives are
    mutually exclusive and exhaustive when there is no tie.  Conditions are z3 formulas over the priorities."""
    normals = [s for s in world.specs if not s.modifying]
    mods = [s for s in world.specs if s.modifying]
    assert len(mods) <= 1, "the expected-outcome function is stated for at most one modifying specifier"
    m = mods[0] if mods else None
    props = []
    for s in world.specs:
        for p in s.prios:
            if p not in props:
                props.append(p)
    for p in world.defaults:
        if p not in props:
            props.append(p)
    out = {}
    for p in props:
        N = [s for s in normals if p in s.prios]
        alts = []
        m_has = m is not None and p in m.prios
        m_wins = _and(*[_lt(m.prios[p], s.prios[p]) for s in N]) if m_has else z3.BoolVal(False)  # strictly higher priority than every normal specifier
        if m_has:
            alts.append((m_wins, m, None))
        for s in N:
            best = _and(*[_lt(s.prios[p], t.prios[p]) for t in N if t is not s])
            if m_has:
                modifier = m if p in m.modifiable else None
                alts.append((_and(best, z3.Not(m_wins)), s, modifier))
            else:
                alts.append((best, s, None))
        if not N and not m_has:
            alts.append((z3.BoolVal(True), world.defaults.get(p), None))
        out[p] = alts
    return out


def tie_formula(world):
    normals = [s for s in world.specs if not s.modifying]
    ties = []
    for a, b in itertools.combinations(normals, 2):
        for p in a.prios:
            if p in b.prios:
                ties.append(_eq(a.prios[p], b.prios[p]))
    return _or(*ties)


def final_specified(world, include_modifying=True):
    return any(p in world.finals for s in world.specs for p in s.prios if include_modifying or not s.modifying)


def graph_errors(world, role_of):
    """(missing, cyclic) for a CONCRETE role assignment role_of[p] = (specifier, modifier): dependency graph over
    all specifiers of the object (written ones and the defaults that are needed)."""
    nodes = list(world.specs) + [sm for p, sm in world.defaults.items() if role_of.get(p, (None, None))[0] is sm]
    provider = {p: (mo or sp) for p, (sp, mo) in role_of.items() if sp is not None}
    edges = {id(n): [] for n in nodes}
    missing = False
    for n in nodes:
        for d in n.deps:
            if d not in provider:
                missing = True
            else:
                edges[id(n)].append(provider[d])
        for p, (sp, mo) in role_of.items():
            if mo is n:
                edges[id(n)].append(sp)
    # cycle detection (plain DFS colouring on the specification side)
    colour = {}
    cyclic = [False]

    def visit(n):
        c = colour.get(id(n), 0)
        if c == 1:
            cyclic[0] = True
            return
        if c == 2:
            return
        colour[id(n)] = 1
        for t in edges.get(id(n), []):
            visit(t)
        colour[id(n)] = 2

    for n in nodes:
        visit(n)
    return missing, cyclic[0]


def exc_name(exc):
    return getattr(exc.cls, "name", getattr(exc.cls, "__name__", str(exc.cls)))


def check_outcome(I, world, outcome, name, with_graph=False):
    """Emit the C06 obligations for one execution of _resolveSpecifiers on `world`."""
    eng = I.eng
    tie = tie_formula(world)
    fin = final_specified(world)
    alts = roles(world)
    # --- error condition -------------------------------------------------------------------------
    if with_graph:
        # concrete priorities in the dependency worlds: the role assignment is decided
        role_of = {}
        for p, al in alts.items():
            for cond, sp, mo in al:
                if z3.is_true(z3.simplify(cond)):
                    role_of[p] = (sp, mo)
        missing, cyclic = graph_errors(world, role_of)
    else:
        missing = cyclic = False
    must_fail = _or(tie, fin, missing, cyclic)
    if outcome[0] == "raise":
        cn = exc_name(outcome[1])
        eng.check(f"{name}#raises.only_SpecifierError", cn == "SpecifierError", detail=f"raised {cn}{outcome[1].args!r}")
        eng.check(f"{name}#raises.SpecifierError.only_if_tie_or_final_or_cycle_or_missing_dependency", must_fail)
        return
    eng.check(f"{name}#raises.SpecifierError.must.when_two_specifiers_give_a_property_the_same_priority", z3.Not(tie))
    eng.check(f"{name}#raises.SpecifierError.must.when_a_final_property_is_specified", not fin)
    if with_graph:
        eng.check(f"{name}#raises.SpecifierError.must.when_a_dependency_has_no_provider", not missing)
        eng.check(f"{name}#raises.SpecifierError.must.when_dependencies_are_cyclic", not cyclic)
    # --- values ----------------------------------------------------------------------------------
    res = outcome[1]
    props, consts = res[0], res[1]
    ok_shape = isinstance(props, PDict)
    eng.check(f"{name}#ensures.result_is_a_property_dictionary", ok_shape)
    if not ok_shape:
        return
    want_keys = set(alts)
    eng.check(f"{name}#ensures.exactly_the_specified_and_inherited_properties", set(props.keys) == want_keys and len(props.keys) == len(want_keys))
    for p, al in alts.items():
        actual = props.get(p)
        if actual is None:
            continue
        base = actual.base if getattr(actual, "base", None) is not None else actual
        for cond, sp, mo in al:
            if sp is None:
                continue
            got_specifier = getattr(base, "origin", (None, None))[0] is sp and getattr(base, "origin", (None, None))[1] == p
            eng.check(f"{name}#ensures.value_comes_from_the_unique_highest_priority_specifier_else_class_default", z3.Implies(cond, z3.BoolVal(got_specifier)))
            if mo is None:
                eng.check(f"{name}#ensures.value_altered_only_by_a_modifying_specifier_that_may_modify_it", z3.Implies(cond, z3.BoolVal(base is actual)))
            else:
                # the modifier produced the final value FROM the value given by the property's specifier (so it ran after it)
                altered = base is not actual and actual.origin[0] is mo and any(snap.get(p) is base for snap in mo.calls)
                eng.check(f"{name}#ensures.modifying_specifier_alters_the_already_specified_value", z3.Implies(cond, z3.BoolVal(altered)))
    # --- evaluation discipline -------------------------------------------------------------------
    final = {p: props.get(p) for p in props.keys}
    for sm in list(world.specs) + list(world.defaults.values()):
        eng.check(f"{name}#ensures.each_specifier_evaluated_at_most_once", len(sm.calls) <= 1)
        if sm in world.specs:
            eng.check(f"{name}#ensures.each_written_specifier_is_evaluated", len(sm.calls) == 1)
        for snap in sm.calls:
            for d in sm.deps:
                eng.check(f"{name}#ensures.dependencies_final_when_a_specifier_is_evaluated", d in snap and snap[d] is final.get(d), detail=f"{sm.name} needs {d}")
    # unused defaults are not evaluated, used ones are
    for p, sm in world.defaults.items():
        used = final.get(p) is not None and getattr(final[p], "origin", (None,))[0] is sm
        eng.check(f"{name}#ensures.class_default_evaluated_iff_nobody_specifies_the_property", (len(sm.calls) == 1) == used)
    eng.check(f"{name}#ensures.constProps_are_exactly_the_defaulted_properties", isinstance(consts, PSet) and set(consts.items) == {p for p, sm in world.defaults.items() if len(sm.calls) == 1})


# =================================================================================================
# trusted stubs
# =================================================================================================


def install_stubs(reg):
    models_spec.install(reg)
    reg.trust(
        "specifier model objects (C06 _resolveSpecifiers / dfs contracts)",
        "inputs are heap objects of the real Specifier / ModifyingSpecifier classes built field by field (name, priorities, requiredProperties, modifiable_props, "
        "value = DelayedArgument-shaped object whose value function logs the evaluation context); their constructors are verified separately; property values are identity tokens",
    )
    reg.trust(
        "unbounded phase-1 contract",
        "list(<symbolic-length sequence>) is a list with the same elements; collections.Counter over the names finds no duplicate (requires: pairwise different specifier names); "
        "spec.priorities of element i is {'p': prio(i)} if has(i) else {} (one property name); the loop cut havocs the tables `properties`/`priorities` "
        "(and the table of seen priorities if the function keeps one, abstracted as a membership predicate); the path is cut in front of phase 2",
    )
    reg.trust("type(x) on model containers", "constructor contracts: type(<dict/tuple/list model>) is the corresponding callable builtin, so that toLazyValue's `type(thing)(items)` rebuilds a model container")



# =================================================================================================
# (1) Constructible._resolveSpecifiers -- priority worlds
# =================================================================================================

PROPS_A = ("p", "q")


def setup_priorities(perm, n_normal, with_modifier, final_prop, props=("p", "q"), q_specifiers=99):
    """n_normal non-modifying specifiers (+ optionally one modifying specifier) over properties p, q with symbolic
    integer priorities; every subset of {p, q} per specifier is enumerated; defaults for p, q and d."""

    def setup(I, env):
        eng = I.eng
        w = World()
        for k in range(n_normal):
            prios = {}
            for p in props:
                if p == "q" and k >= q_specifiers:
                    continue
                if eng.choose(2, f"s{k} specifies {p}?") == 1:
                    prios[p] = eng.fresh_int(f"prio[s{k}.{p}]")
            if final_prop and eng.choose(2, f"s{k} specifies final f?") == 1:
                prios["f"] = eng.fresh_int(f"prio[s{k}.f]")
            w.specs.append(SpecModel(f"s{k}", prios))
        if with_modifier:
            prios = {}
            for p in props:
                if eng.choose(2, f"m specifies {p}?") == 1:
                    prios[p] = eng.fresh_int(f"prio[m.{p}]")
            if final_prop and eng.choose(2, "m specifies final f?") == 1:
                prios["f"] = eng.fresh_int("prio[m.f]")
            # like `on`: p may be modified, q may not
            w.specs.append(SpecModel("m", prios, modifying=True, modifiable=("p",)))
        for p in PROPS_A + ("d",):
            w.defaults[p] = SpecModel(f"default.{p}", {p: -1}, default_for=p)
        if final_prop:
            w.defaults["f"] = SpecModel("default.f", {"f": -1}, deps=("p",), default_for="f")
            w.finals = ("f",)
        names = [s.name for s in w.specs]
        w.order = tuple(names[i] for i in perm)
        objs = {s.name: build_spec(w, s) for s in w.specs}
        env.vars["cls"] = build_class(w)
        env.vars["specifiers"] = tuple(objs[n] for n in w.order)
        env.vars["_world"] = w
        eng.input_syms.append(("world", world_type(w), w))

    return setup


def post_priorities(key):
    def post(I, env, outcome):
        check_outcome(I, env.vars["_world"], outcome, key)

    return post


INLINE_RESOLVE = [
    "Specifier.getValuesFor",
    "valueInContext",
    "LazilyEvaluable.evaluateIn",
    "DelayedArgument.evaluateInner",
    "LazilyEvaluable.makeContext",
    "LazilyEvaluable.getContextValues",
    "DefaultIdentityDict.__init__",
    "DefaultIdentityDict.__contains__",
    "DefaultIdentityDict.__getitem__",
    "DefaultIdentityDict.__setitem__",
    "toDistribution",
    "Constructible._specify",
]


def _choose_perm(eng, n, restrict=None):
    perms = [pm for pm in itertools.permutations(range(n)) if restrict is None or restrict(pm)]
    return perms[eng.choose(len(perms), "order in which the specifiers are written")]


def register_priorities(reg):
    variants = [
        # tag, number of normal specifiers, modifier?, final property?, how many normal specifiers may specify q
        ("3 specifiers", 3, False, False, 2),
        ("2 specifiers + modifying", 2, True, False, 1),
        ("1 specifier + modifying, final property", 1, True, True, 1),
    ]
    for tag, n, withm, fin, nq in variants:
        total = n + (1 if withm else 0)

        def setup(I, env, n=n, withm=withm, fin=fin, nq=nq, total=total):
            perm = _choose_perm(I.eng, total)
            setup_priorities(perm, n, withm, fin, q_specifiers=nq)(I, env)

        reg.add(
            C.Contract(
                RESOLVE,
                params=dict(cls=C.Const(None), specifiers=C.Const(None)),
                setup=setup,
                post=post_priorities(f"{SHORT}[{tag}]"),
                raises=[C.Raises("SpecifierError", mode="may")],
                inline=INLINE_RESOLVE,
                bounded=True,
                note=f"bounded: {tag} over properties p (any specifier) and q (the first {nq} non-modifying specifier(s) and the modifying one) + defaults p, q, d{', final f' if fin else ''}; priorities symbolic integers; every admissible subset of properties per specifier; EVERY permutation of the input list",
                replay=replay_resolve,
                properties=("C06",),
            ),
            key=f"{RESOLVE}[{tag}]",
        )


# =================================================================================================
# (1b) Constructible._resolveSpecifiers -- dependency worlds (concrete priorities, enumerated dependency sets)
# =================================================================================================

# name -> (priorities, modifying, modifiable, candidate dependencies); every subset of the candidates is tried
DEP_WORLD = {
    "a": ({"p": 1}, False, (), ("q", "d")),
    "b": ({"q": 1}, False, (), ("r", "p")),
    "c": ({"r": 1, "p": 2}, False, (), ("q", "z")),  # its claim on p is overridden by a; z has no provider at all
    "m": ({"p": 1}, True, ("p",), ("q",)),  # same priority as a: modifies p
}
DEP_DEFAULTS = {"p": (), "q": (), "r": ()}  # candidate `self.` dependencies of the class defaults (every subset is tried)
DEP_FIXED_DEFAULTS = {"d": ("p",)}  # the default of d always depends on p (which is modified by m)


def _subset(eng, cands, label):
    k = eng.choose(2 ** len(cands), label)
    return tuple(c for i, c in enumerate(cands) if (k >> i) & 1)


def setup_dependencies(restrict):
    def setup(I, env):
        eng = I.eng
        perm = _choose_perm(eng, len(DEP_WORLD), restrict)
        w = World()
        for n, (prios, mod, modifiable, cands) in DEP_WORLD.items():
            w.specs.append(SpecModel(n, prios, deps=_subset(eng, cands, f"dependencies of {n}"), modifying=mod, modifiable=modifiable))
        for p, cands in DEP_DEFAULTS.items():
            w.defaults[p] = SpecModel(f"default.{p}", {p: -1}, deps=_subset(eng, cands, f"dependencies of default {p}"), default_for=p)
        for p, deps in DEP_FIXED_DEFAULTS.items():
            w.defaults[p] = SpecModel(f"default.{p}", {p: -1}, deps=deps, default_for=p)
        names = [s.name for s in w.specs]
        w.order = tuple(names[i] for i in perm)
        objs = {s.name: build_spec(w, s) for s in w.specs}
        env.vars["cls"] = build_class(w)
        env.vars["specifiers"] = tuple(objs[n] for n in w.order)
        env.vars["_world"] = w
        eng.input_syms.append(("world", world_type(w), w))

    return setup


def register_dependencies(reg):
    tag = "dependency graphs"
    m_index = list(DEP_WORLD).index("m")
    halves = [
        ("modifying specifier written first or second", lambda pm: pm.index(m_index) < 2),
        ("modifying specifier written third or last", lambda pm: pm.index(m_index) >= 2),
    ]
    for htag, restrict in halves:

        def post(I, env, outcome):
            check_outcome(I, env.vars["_world"], outcome, f"{SHORT}[{tag}]", with_graph=True)

        reg.add(
            C.Contract(
                RESOLVE,
                params=dict(cls=C.Const(None), specifiers=C.Const(None)),
                setup=setup_dependencies(restrict),
                post=post,
                raises=[C.Raises("SpecifierError", mode="may")],
                inline=INLINE_RESOLVE,
                bounded=True,
                note=f"bounded: specifiers a, b, c and modifying m with fixed priorities, properties p q r d (+ unprovided z); every subset of the candidate dependencies {dict((n, v[3]) for n, v in DEP_WORLD.items())}; the default of d depends on p; every permutation of the input list with the {htag} (the two instances together cover all 24)",
                replay=replay_resolve,
                properties=("C06",),
            ),
            key=f"{RESOLVE}[{tag}; {htag}]",
        )


# =================================================================================================
# (1c) relational: the body is run on two orders of the same specifiers in ONE path and the outcomes compared
# =================================================================================================


def register_relational(reg):
    from pyvc import extract
    from pyvc.interp import ClassVal, FuncVal

    tag = "3 specifiers; two orders in one path"
    name = f"{SHORT}[{tag}]"
    holder = {}

    def describe(outcome):
        """order-independent description of an outcome: error class, or {property: (specifier name, modifier name)}"""
        if outcome[0] == "raise":
            return ("raise", exc_name(outcome[1]))
        props = outcome[1][0]
        d = {}
        for p in props.keys:
            v = props.get(p)
            base = v.base if getattr(v, "base", None) is not None else v
            d[p] = (base.origin[0].name, v.origin[0].name if base is not v else None)
        return ("return", d)

    def post(I, env, outcome):
        eng = I.eng
        w1 = env.vars["_world"]
        first = describe(outcome)
        others = [pm for pm in itertools.permutations(range(len(w1.specs))) if pm != tuple(range(len(w1.specs)))]
        perm = others[eng.choose(len(others), "second order")]
        # same specifiers (same symbolic priorities), fresh heap objects, second order
        w2 = World()
        for sm in w1.specs:
            w2.specs.append(SpecModel(sm.name, sm.prios, sm.deps, sm.modifying, sm.modifiable))
        for p, sm in w1.defaults.items():
            w2.defaults[p] = SpecModel(sm.name, sm.prios, sm.deps, default_for=p)
        w2.finals = w1.finals
        names = [s.name for s in w2.specs]
        w2.order = tuple(names[i] for i in perm)
        objs = {s.name: build_spec(w2, s) for s in w2.specs}
        w1.second_order = w2.order
        ex = extract.extract(RESOLVE)
        f = FuncVal(ex.node, ex.module, None, RESOLVE, ClassVal.get(ex.module.name, ex.owner_class))
        try:
            second = ("return", I.run_function(f, [build_class(w2), tuple(objs[n] for n in w2.order)], {}, holder["contract"]))
        except SymRaise as sr:
            second = ("raise", sr.exc)
        second = describe(second)
        eng.check(f"{name}#relational.same_kind_of_outcome_for_both_orders", first[0] == second[0] and (first[0] == "return" or first[1] == second[1]), detail=f"{w1.order}: {first[0]}, {w2.order}: {second[0]}")
        if first[0] == second[0] == "return":
            eng.check(f"{name}#relational.same_property_values_for_both_orders", first[1] == second[1])

    def conc_world(w):
        def conc(eng, model, val):
            out = world_type(w).conc(eng, model, val)
            out["second_order"] = list(getattr(w, "second_order", ()))
            return out

        return conc

    def setup(I, env):
        setup_priorities(tuple(range(3)), 3, False, False, props=("p",))(I, env)  # first order: as listed
        w = env.vars["_world"]
        I.eng.input_syms[-1] = ("world", C.Ghost(lambda eng, name, I: w, conc_world(w)), w)

    c = C.Contract(
        RESOLVE,
        params=dict(cls=C.Const(None), specifiers=C.Const(None)),
        setup=setup,
        post=post,
        raises=[C.Raises("SpecifierError", mode="may")],
        inline=INLINE_RESOLVE,
        bounded=True,
        note="bounded: 3 non-modifying specifiers over one property p (defaults p, q, d) with symbolic priorities; first order s0 s1 s2, second order any other permutation",
        replay=replay_resolve,
        properties=("C06",),
    )
    holder["contract"] = c
    reg.add(c, key=f"{RESOLVE}[{tag}]")


# =================================================================================================
# (1d) UNBOUNDED phase 1: symbolic-length specifier list, loop invariant over the processed prefix (one property)
# =================================================================================================


def tonum_(x):
    from pyvc.values import tonum

    return tonum(x)


class SymPrio:
    """`spec.priorities` of element i of a symbolic-length list: {"p": prio(i)} if has(i) else {} (the dictionary is keyed
    by property, so reasoning about one property name is exact for the priority loop)."""

    def __init__(self, o):
        self.o = o


class SymSetDict:
    """Abstraction of a `defaultdict(set)` keyed by property whose sets hold integers (priorities already seen): the set for
    "p" is a membership predicate.  Only used when the function under contract has such a table (the candidate repair
    of the tie detection does); `pred` maps a z3 Int to a z3 Bool."""

    def __init__(self, pred):
        self.pred = pred


class SymSet:
    def __init__(self, owner):
        self.owner = owner


def install_symprio_hooks(reg):
    prev_iter, prev_getitem, prev_contains, prev_getattr = reg.iterate_fallback, reg.getitem_fallback, reg.contains_fallback, reg.getattr_fallback

    def getattr_fb(I, obj, name):
        if isinstance(obj, SymSet) and name == "add":
            def add(x):
                old, zx = obj.owner.pred, tonum_(x)
                obj.owner.pred = lambda k, old=old, zx=zx: z3.Or(old(k), k == zx)

            return BuiltinFn("set.add", add)
        return prev_getattr(I, obj, name)

    reg.getattr_fallback = getattr_fb

    def iterate_fb(I, v):
        if isinstance(v, SymPrio):
            return ["p"] if I.eng.branch(tobool(v.o.fields["has"])) else []
        return prev_iter(I, v)

    def getitem_fb(I, obj, idx):
        if isinstance(obj, SymSetDict):
            return SymSet(obj)
        if isinstance(obj, SymPrio):
            if idx != "p":
                I.raise_("KeyError", idx)
            I.eng.events.append(("priority-read", obj.o))
            return obj.o.fields["prio"]
        return prev_getitem(I, obj, idx)

    def contains_fb(I, container, x):
        if isinstance(container, SymSet):
            return SV(container.owner.pred(tonum_(x)))
        if isinstance(container, SymPrio):
            return container.o.fields["has"] if x == "p" else False
        return prev_contains(I, container, x)

    reg.iterate_fallback, reg.getitem_fallback, reg.contains_fallback = iterate_fb, getitem_fb, contains_fb


def register_unbounded_phase1(reg):
    from pyvc.builtins_model import NativeModule
    from pyvc.engine import PathEnd
    from pyvc.interp import SpecFn
    from pyvc.values import SSeq, tonum

    install_symprio_hooks(reg)
    name = f"{SHORT}[phase 1, any number of specifiers]"

    def list_model(I, x=()):
        if isinstance(x, SSeq) and not isinstance(x.length, int):
            return SSeq(x.length, x.elem, "list", x.name)
        return I.builtins["list"].fn(x)

    def counter_model(I, it=()):
        return PDict()  # requires: the names of the specifiers are pairwise different (no "modify itself" error)

    SPECS = C.ObjSeq(f"{SP}:Specifier", dict(has="bool", prio="int", priorities=lambda o: SymPrio(o), name=lambda o: "distinct-name", requiredProperties=lambda o: ()))

    def make_cls(eng):
        cls = PObj(repo_class(f"{OT}:Constructible"), tag="cls")
        cls.fields.update(_defaults=PDict(), _finalProperties=PSet((), frozen=True), __name__="C")
        return cls

    # havoc of the two dictionaries at the loop cut: either nobody gave p so far, or p is owned by some processed element
    def havoc_properties(I, env):
        seq = env.lookup("normal_specifiers")
        if I.eng.choose(2, "p already specified by a processed specifier?") == 0:
            I._ph1 = None
            return PDict()
        owner = I.eng.fresh_int("owner")
        best = I.eng.fresh_int("best")
        I._ph1 = (owner, best)
        return PDict([("p", seq.elem(owner))])

    def havoc_priorities(I, env):
        return PDict() if I._ph1 is None else PDict([("p", I._ph1[1])])

    def cut(I, env):
        raise PathEnd()  # phases 2-5 are the subject of the bounded contracts

    def havoc_seen(I, env):
        # only if the function keeps a table of the priorities already seen (the repaired tie detection does)
        if not env.has("seenPriorities") or env.lookup("seenPriorities") is None:
            return None
        fn = z3.Function(I.eng.fresh_name("seen"), z3.IntSort(), z3.BoolSort())
        return SymSetDict(lambda k, fn=fn: fn(k))

    def inv_seen(ctx):
        """seenPriorities["p"] == { prio(j) | j < _i, has(j) }   (vacuous when the function has no such table)"""
        from pyvc.models_spec import PDefaultDict

        if not ctx.env.has("seenPriorities"):
            return True
        sp = ctx.env.lookup("seenPriorities")
        if sp is None:
            return True
        i, seq = ctx.env.lookup("_i"), ctx.env.lookup("_seq")
        v, j = z3.Int("v!seen"), z3.Int("j!seen")
        if isinstance(sp, SymSetDict):
            member = sp.pred(v)
        elif isinstance(sp, PDefaultDict):
            cur = sp.inner.get("p")
            member = z3.Or(*[v == tonum(x) for x in (cur.items if cur is not None else [])]) if (cur is not None and cur.items) else z3.BoolVal(False)
        else:
            return False
        e = seq.elem(SV(j))
        ex = z3.Exists([j], z3.And(j >= 0, j < tonum(i), tobool(e.fields["has"]), tonum(e.fields["prio"]) == v))
        return SV(z3.ForAll([v], member == ex))

    @reg.spec
    def at(seq, j):  # element j of a symbolic sequence, for indices known to be in range (no negative-index normalisation)
        return seq.elem(j)

    inv = {
        "set_iff_some_processed_specifier_gives_p": '("p" in properties) == exists(j, 0, _i, at(_seq, j).has)',
        "owner_is_a_processed_specifier_with_the_recorded_priority": 'implies("p" in properties, exists(o, 0, _i, at(_seq, o).has and priorities["p"] == at(_seq, o).prio and properties["p"] is at(_seq, o)))',
        "recorded_priority_is_the_minimum_so_far": 'implies("p" in properties, forall(j, 0, _i, implies(at(_seq, j).has, at(_seq, j).prio >= priorities["p"])))',
        "no_two_processed_specifiers_give_p_the_same_priority": "forall(j, 0, _i, forall(k, 0, _i, implies(j != k and at(_seq, j).has and at(_seq, k).has, at(_seq, j).prio != at(_seq, k).prio)))",
        "table_of_seen_priorities_is_exact_if_the_function_keeps_one": inv_seen,
    }
    n_ = "len(normal_specifiers)"
    ns = "normal_specifiers"
    post_phase1 = {
        "p_specified_iff_some_specifier_gives_it": f'("p" in properties) == exists(j, 0, {n_}, at({ns}, j).has)',
        "p_belongs_to_a_specifier_of_minimum_priority_number": f'implies("p" in properties, exists(o, 0, {n_}, at({ns}, o).has and properties["p"] is at({ns}, o) and priorities["p"] == at({ns}, o).prio) and forall(j, 0, {n_}, implies(at({ns}, j).has, at({ns}, j).prio >= priorities["p"])))',
        "no_error_only_if_no_two_specifiers_give_p_the_same_priority": f"forall(j, 0, {n_}, forall(k, 0, {n_}, implies(j != k and at({ns}, j).has and at({ns}, k).has, at({ns}, j).prio != at({ns}, k).prio)))",
    }

    def post(I, env, outcome):
        eng = I.eng
        if outcome[0] != "raise":
            return
        eng.check(f"{name}#raises.only_SpecifierError", exc_name(outcome[1]) == "SpecifierError", detail=repr(outcome[1]))
        reads = [e[1] for e in eng.events if e[0] == "priority-read"]
        ok = bool(reads)
        if ok:
            cur = reads[-1]
            seq = env.vars["specifiers"]
            k = z3.Int("k!other")
            me = tonum(cur.ident[1])
            other = seq.elem(SV(k))
            g = z3.Exists([k], z3.And(k >= 0, k < tonum(seq.length), k != me, tobool(other.fields["has"]), tonum(other.fields["prio"]) == tonum(cur.fields["prio"])))
            eng.check(f"{name}#raises.SpecifierError.only_if_another_specifier_gives_p_the_same_priority", z3.And(tobool(cur.fields["has"]), g))
        else:
            eng.check(f"{name}#raises.SpecifierError.only_if_another_specifier_gives_p_the_same_priority", False)

    reg.add(
        C.Contract(
            RESOLVE,
            params=dict(cls=C.Const(make_cls), specifiers=SPECS),
            loops={
                2: dict(invariants=inv, modifies={"properties": havoc_properties, "priorities": havoc_priorities, "seenPriorities": havoc_seen, "spec": None, "prop": None}),
                4: dict(invariants=post_phase1, modifies={"cut": cut}),
            },
            post=post,
            raises=[C.Raises("SpecifierError", mode="may")],
            env={"list": SpecFn(list_model, "list", needs_interp=True), "collections": NativeModule("collections", {"Counter": SpecFn(counter_model, "Counter", needs_interp=True), "defaultdict": SpecFn(lambda I, factory=None: models_spec.PDefaultDict(factory), "defaultdict", needs_interp=True)})},
            note="UNBOUNDED in the number of specifiers (symbolic-length list, symbolic presence and priorities); one property name p (the tables are keyed by property); no modifying specifiers, "
            "pairwise different specifier names, no final properties; the postcondition of phase 1 is checked at the cut in front of phase 2 (phases 2-5: bounded contracts)",
            replay=replay_unbounded,
            properties=("C06",),
        ),
        key=f"{RESOLVE}[phase 1, any number of specifiers]",
    )
    reg.contracts[f"{RESOLVE}[phase 1, any number of specifiers]"].short = name


def replay_unbounded(inputs, clause):
    """The model is a list of (has, prio); the real function is run on the list and on each of its prefixes."""
    from scenic.core.errors import SpecifierError
    from scenic.core.object_types import Constructible
    from scenic.core.specifiers import Specifier

    cls = type("ReplayUnbounded", (Constructible,), {"_scenic_properties": {}})
    elems = [(bool(e.get("has")), int(e.get("prio", 0))) for e in inputs["specifiers"]][:8]
    cands = [elems[:n] for n in range(len(elems), 1, -1)]
    if not any(len([1 for h, _ in c if h]) >= 2 for c in cands):
        cands.append([(True, 3), (True, 1), (True, 3)])  # the refutation pass may have dropped quantified hypotheses: standard witness shape
    for c in cands:
        for order in itertools.islice(itertools.permutations(range(len(c))), 120):
            specs = [Specifier(f"s{i}", ({"p": c[i][1]} if c[i][0] else {}), ({"p": f"v{i}"} if c[i][0] else {})) for i in order]
            given = [c[i][1] for i in order if c[i][0]]
            tie = len(set(given)) != len(given)
            try:
                props, _ = cls._resolveSpecifiers(specs)
                if tie:
                    return f"real _resolveSpecifiers accepted specifiers giving p the priorities {given} (two of them equal) and chose {props.get('p')}"
                if given and props.get("p") != f"v{[i for i in order if c[i][0] and c[i][1] == min(given)][0]}":
                    return f"real _resolveSpecifiers chose {props.get('p')} for priorities {given}"
            except SpecifierError as e:
                if not tie:
                    return f"real _resolveSpecifiers raised SpecifierError({e}) for priorities {given} (no two equal)"
    return None


# =================================================================================================
# (2) the nested dfs: topological order, cycles, missing providers
# =================================================================================================

DFS = f"{RESOLVE}.dfs"
DFS_SHORT = f"{SHORT}.dfs"
# node -> (property it specifies, candidate dependencies); n3 additionally MODIFIES p0 (specified by n0)
DFS_NODES = {"n0": ("p0", ("p1", "p2")), "n1": ("p1", ("p2", "p3")), "n2": ("p2", ("p0", "zz")), "n3": ("p3", ("p1",))}


DFS_MODES = ("fresh colouring", "some specifiers already finished", "some finished and an ancestor in progress")


def register_dfs(reg):
    for mode in range(3):
        _register_dfs_mode(reg, mode)


def _register_dfs_mode(reg, mode):
    from pyvc import extract
    from pyvc.interp import Env, FuncVal

    def closure(I):
        eng = I.eng
        nodes = {}
        for n, (prop, cands) in DFS_NODES.items():
            o = PObj(repo_class(f"{SP}:ModifyingSpecifier" if n == "n3" else f"{SP}:Specifier"), tag=n)
            o.fields.update(name=n, requiredProperties=tuple(sorted(_subset(eng, cands, f"dependencies of {n}"))), _dfs_state=0)
            o.nname, o.prop = n, prop
            nodes[n] = o
        n3_modifies = eng.choose(2, "n3 modifies p0?") == 1
        properties = PDict([(o.prop, o) for o in nodes.values()])
        modifying = PDict([("p0", nodes["n3"])] if n3_modifies else [])
        modifying_inv = PDict([(nodes["n3"], "p0")] if n3_modifies else [])
        # specification-side graph
        provider = {o.prop: o for o in nodes.values()}
        if n3_modifies:
            provider["p0"] = nodes["n3"]
        edges, missing = {}, {}
        for n, o in nodes.items():
            edges[n] = [provider[d] for d in o.fields["requiredProperties"] if d in provider]
            missing[n] = any(d not in provider for d in o.fields["requiredProperties"])
            if n == "n3" and n3_modifies:
                edges[n].append(nodes["n0"])
        # initial colouring: a dependency-closed set of finished nodes already in `order` (+ maybe one node in progress)
        order0 = []
        if mode >= 1:
            for n, o in nodes.items():
                if n != "n0" and eng.choose(2, f"{n} already finished?") == 1:
                    o.fields["_dfs_state"] = 2
            fin = [o for o in nodes.values() if o.fields["_dfs_state"] == 2]
            # only consistent states: finished nodes have all their providers finished and nothing missing
            for o in fin:
                if missing[o.nname] or any(t.fields["_dfs_state"] != 2 for t in edges[o.nname]):
                    raise PathEndSignal()
            # any topological order of the finished nodes
            perms = [pm for pm in itertools.permutations(fin) if all(pm.index(t) < pm.index(o) for o in pm for t in edges[o.nname])]
            if not perms:
                raise PathEndSignal()
            order0 = list(perms[eng.choose(len(perms), "order of the finished nodes")])
        if mode == 2:
            cands = [o for o in nodes.values() if o.fields["_dfs_state"] == 0 and o.nname != "n0"]
            if not cands:
                raise PathEndSignal()
            cands[eng.choose(len(cands), "node in progress")].fields["_dfs_state"] = 1
        order = PList(order0)
        I._dfs = dict(nodes=nodes, edges=edges, missing=missing, order=order, order0=list(order0), state0={n: o.fields["_dfs_state"] for n, o in nodes.items()}, n3_modifies=n3_modifies)
        free = dict(modifying=modifying, properties=properties, modifying_inv=modifying_inv, order=order)
        ex = extract.extract(DFS)
        free["dfs"] = FuncVal(ex.node, ex.module, Env(ex.module, None, free), DFS, None)  # the recursive reference
        return free

    def setup(I, env):
        env.vars["spec"] = I._dfs["nodes"]["n0"]
        d = I._dfs
        desc = dict(
            deps={n: list(o.fields["requiredProperties"]) for n, o in d["nodes"].items()}, state0=d["state0"], order0=[o.nname for o in d["order0"]], n3_modifies_p0=d["n3_modifies"]
        )
        I.eng.input_syms.append(("graph", C.Const(None), desc))

    def post(I, env, outcome):
        eng = I.eng
        d = I._dfs
        nodes, edges, missing, state0 = d["nodes"], d["edges"], d["missing"], d["state0"]
        # what the call has to do, from the specification: everything reachable from n0 through unfinished nodes
        reach, bad = [], [False]
        stack = set()

        def visit(o):
            if state0[o.nname] == 2 or o in reach and o.nname not in stack:
                return
            if state0[o.nname] == 1 or o.nname in stack:
                bad[0] = True
                return
            stack.add(o.nname)
            if missing[o.nname]:
                bad[0] = True
            for t in edges[o.nname]:
                visit(t)
            stack.discard(o.nname)
            if o not in reach:
                reach.append(o)

        visit(nodes["n0"])
        if outcome[0] == "raise":
            eng.check(f"{DFS_SHORT}#raises.only_SpecifierError", exc_name(outcome[1]) == "SpecifierError")
            eng.check(f"{DFS_SHORT}#raises.SpecifierError.only_if_cycle_or_missing_provider", bad[0])
            return
        eng.check(f"{DFS_SHORT}#raises.SpecifierError.must.on_cycle_or_missing_provider", not bad[0])
        order = list(d["order"].items)
        n0 = len(d["order0"])
        eng.check(f"{DFS_SHORT}#ensures.order_only_extended", all(a is b for a, b in zip(order[:n0], d["order0"])) and len(order) >= n0)
        new = order[n0:]
        eng.check(f"{DFS_SHORT}#ensures.appends_exactly_the_unfinished_specifiers_reachable_from_the_argument_once", len(new) == len(reach) and all(any(x is o for x in new) for o in reach))
        pos = {id(o): i for i, o in enumerate(order)}
        for o in new:
            for t in edges[o.nname]:
                eng.check(f"{DFS_SHORT}#ensures.providers_of_dependencies_and_specifier_of_modified_property_come_first", id(t) in pos and pos[id(t)] < pos[id(o)], detail=f"{t.nname} before {o.nname}")
        for n, o in nodes.items():
            want = 2 if any(o is x for x in order) else state0[n]
            eng.check(f"{DFS_SHORT}#ensures.finished_marks_exactly_the_ordered_specifiers", o.fields.get("_dfs_state") == want)

    reg.add(
        C.Contract(
            DFS,
            params=dict(spec=C.Const(None)),
            closure_env=closure,
            setup=setup,
            post=post,
            raises=[C.Raises("SpecifierError", mode="may")],
            bounded=True,
            note=f"bounded: 4 specifiers {DFS_NODES} (n3 optionally modifies p0), every subset of the candidate dependencies; initial colouring: {DFS_MODES[mode]}",
            replay=replay_dfs,
            properties=("C06",),
        ),
        key=f"{DFS}[{DFS_MODES[mode]}]",
    )


from pyvc.engine import PathEnd as PathEndSignal  # noqa: E402  (inconsistent initial colourings are not inputs)


def replay_dfs(inputs, clause):
    """The nested dfs cannot be called from outside; the graph is replayed through the real _resolveSpecifiers
    (fresh colouring) and the evaluation order is observed."""
    g = inputs["graph"]
    if any(v != 0 for v in g["state0"].values()):
        return None
    from scenic.core.errors import SpecifierError
    from scenic.core.lazy_eval import DelayedArgument
    from scenic.core.object_types import Constructible
    from scenic.core.specifiers import ModifyingSpecifier, Specifier

    cls = type("ReplayDfs", (Constructible,), {"_scenic_properties": {}})
    log = []

    def mk(n):
        prop = DFS_NODES[n][0]

        def fn(ctx, n=n):
            log.append((n, set(k for k in ctx.__dict__ if k != "_evaluated")))
            out = {prop: n}
            if n == "n3" and g["n3_modifies_p0"]:
                out["p0"] = "n3(p0)"
            return out

        val = DelayedArgument(set(g["deps"][n]), fn, _internal=True)
        if n == "n3":
            pr = {prop: 1}
            if g["n3_modifies_p0"]:
                pr["p0"] = 1
            return ModifyingSpecifier(n, pr, val, modifiable_props={"p0"})
        return Specifier(n, {prop: 1}, val)

    try:
        cls._resolveSpecifiers([mk(n) for n in DFS_NODES])
    except SpecifierError as e:
        provided = {DFS_NODES[n][0] for n in DFS_NODES}
        missing = any(d not in provided for n in DFS_NODES for d in g["deps"][n])
        return None if missing or "depends on itself" in str(e) else f"real code raised SpecifierError({e}) on graph {g}"
    for n, have in log:
        for d in g["deps"][n]:
            if d not in have:
                return f"real code evaluated {n} before its dependency {d} was set (graph {g})"
    if g["n3_modifies_p0"]:
        names = [n for n, _ in log]
        if names.index("n3") < names.index("n0"):
            return f"real code evaluated the modifier n3 before the specifier n0 of the modified property (graph {g})"
    return None


# =================================================================================================
# replay on the REAL code: real Specifier / ModifyingSpecifier objects, a real Constructible subclass
# =================================================================================================


def _real_world(inputs):
    """Build real objects from a concretised world.  Returns (cls, make_specs, meta)."""
    from scenic.core.lazy_eval import DelayedArgument
    from scenic.core.object_types import Constructible
    from scenic.core.specifiers import ModifyingSpecifier, PropertyDefault, Specifier

    w = inputs["world"]
    log = []

    def default_value(p, deps):
        def f(ctx):
            log.append((f"default.{p}", {d: getattr(ctx, d, None) for d in deps}, dict(ctx.__dict__)))
            return ("tok", f"default.{p}", p, None)

        return f

    props = {}
    for p, d in w["defaults"].items():
        attrs = {"final"} if p in w["finals"] else set()
        props[p] = PropertyDefault(set(d["deps"]), attrs, default_value(p, d["deps"]))
    cls = type("ReplayClass", (Constructible,), {"_scenic_properties": props})

    def make(name):
        s = w["specs"][name]
        prios = {p: int(v) for p, v in s["priorities"].items()}

        def fn(ctx, name=name, s=s, prios=prios):
            snap = {k: v for k, v in ctx.__dict__.items() if k != "_evaluated"}
            log.append((name, {d: snap.get(d) for d in s["deps"]}, snap))
            out = {}
            for p in prios:
                if s["modifying"] and p in snap:
                    out[p] = ("tok", name, p, snap[p])
                else:
                    out[p] = ("tok", name, p, None)
            return out

        val = DelayedArgument(set(s["deps"]), fn, _internal=True)
        if s["modifying"]:
            return ModifyingSpecifier(name, prios, val, modifiable_props=set(s["modifiable"]))
        return Specifier(name, prios, val)

    return cls, make, log, w


def reference_outcome(w):
    """Plain-python reading of the property statement on a concrete world -> 'SpecifierError' or {prop: (specifier, modifier)}."""
    specs = w["specs"]
    normals = [n for n, s in specs.items() if not s["modifying"]]
    mods = [n for n, s in specs.items() if s["modifying"]]
    for a, b in itertools.combinations(normals, 2):
        for p, v in specs[a]["priorities"].items():
            if p in specs[b]["priorities"] and int(specs[b]["priorities"][p]) == int(v):
                return "SpecifierError", f"{a} and {b} give {p} the same priority {v}"
    for n, s in specs.items():
        for p in s["priorities"]:
            if p in w["finals"]:
                return "SpecifierError", f"{n} specifies the final property {p}"
    role = {}
    allp = sorted({p for s in specs.values() for p in s["priorities"]} | set(w["defaults"]))
    for p in allp:
        N = sorted((int(specs[n]["priorities"][p]), n) for n in normals if p in specs[n]["priorities"])
        m = mods[0] if mods and p in specs[mods[0]]["priorities"] else None
        if m is not None and (not N or int(specs[m]["priorities"][p]) < N[0][0]):
            role[p] = (m, None)
        elif N:
            role[p] = (N[0][1], m if (m is not None and p in specs[m]["modifiable"]) else None)
        else:
            role[p] = (f"default.{p}", None)
    # dependency graph
    deps_of = {n: s["deps"] for n, s in specs.items()}
    for p, (sp, mo) in role.items():
        if sp.startswith("default."):
            deps_of[sp] = w["defaults"][p]["deps"]
    provider = {p: (mo or sp) for p, (sp, mo) in role.items()}
    edges = {n: [] for n in deps_of}
    for n, ds in deps_of.items():
        for d in ds:
            if d not in provider:
                return "SpecifierError", f"{n} depends on {d}, which nobody provides"
            edges[n].append(provider[d])
    for p, (sp, mo) in role.items():
        if mo is not None:
            edges[mo].append(sp)
    colour = {}

    def visit(n):
        if colour.get(n) == 1:
            return True
        if colour.get(n) == 2:
            return False
        colour[n] = 1
        r = any(visit(t) for t in edges[n])
        colour[n] = 2
        return r

    if any(visit(n) for n in list(edges)):
        return "SpecifierError", "cyclic dependencies"
    return role, None


def _run_real(inputs, order):
    cls, make, log, w = _real_world(inputs)
    from scenic.core.errors import SpecifierError

    specs = [make(n) for n in order]
    try:
        props, consts = cls._resolveSpecifiers(specs)
    except SpecifierError as e:
        return "SpecifierError", str(e), log
    except Exception as e:  # any other exception class is itself a violation
        return type(e).__name__, str(e), log
    return dict(props), consts, log


def _describe_world(w, order):
    return ", ".join(f"{n}{'(modifying)' if w['specs'][n]['modifying'] else ''}{dict((p, int(v)) for p, v in w['specs'][n]['priorities'].items())}" + (f" needs {w['specs'][n]['deps']}" if w["specs"][n]["deps"] else "") for n in order)


def replay_resolve(inputs, clause):
    """Run the real Constructible._resolveSpecifiers on real Specifier objects for the model's order and for every
    other permutation; compare with the reference reading of the statement and between the orders."""
    w = inputs["world"]
    want, why = reference_outcome(w)
    orders = [tuple(w["order"])] + [o for o in itertools.permutations(sorted(w["specs"])) if o != tuple(w["order"])]
    outcomes = []
    for order in orders:
        got, extra, log = _run_real(inputs, order)
        outcomes.append((order, got))
        where = f"real _resolveSpecifiers on [{_describe_world(w, order)}]"
        if isinstance(got, str):
            if got != "SpecifierError":
                return f"{where} raised {got}: {extra}"
            if want != "SpecifierError":
                return f"{where} raised SpecifierError ({extra}) although there is no tie, final property, cycle or missing dependency"
            continue
        if want == "SpecifierError":
            msg = f"{where} returned {_short(got)} although {why}"
            scen = _scenic_demo_tie() if "same priority" in (why or "") else _scenic_demo_final() if "final property" in (why or "") else None
            return msg + (f"; {scen}" if scen else "")
        for p, (sp, mo) in want.items():
            tok = got.get(p)
            if tok is None:
                return f"{where}: property {p} missing from the result"
            base = tok[3] if tok[3] is not None else tok
            if base[1] != sp:
                return f"{where}: {p} comes from {base[1]} but its highest-priority specifier is {sp}"
            if (tok[3] is not None) != (mo is not None) or (mo is not None and tok[1] != mo):
                return f"{where}: {p} = {tok} but expected it to be " + (f"modified by {mo}" if mo else "unmodified")
        seen = {}
        for name, depvals, snap in log:
            seen[name] = seen.get(name, 0) + 1
            for d, v in depvals.items():
                if v is None or v != got.get(d):
                    return f"{where}: {name} was evaluated when its dependency {d} was {v!r}, final value {got.get(d)!r}"
        if any(c > 1 for c in seen.values()):
            return f"{where}: a specifier was evaluated more than once: {seen}"
    kinds = {(g if isinstance(g, str) else "values") for _, g in outcomes}
    if len(kinds) > 1:
        return f"outcome depends on the order of the specifiers: {[(o, g if isinstance(g, str) else 'values') for o, g in outcomes]}"
    return None


def _short(props):
    return {p: (t[1] if t[3] is None else f"{t[1]}({t[3][1]})") for p, t in props.items()}


def _scenic_demo_final():
    """The same defect through the front end: the modifying specifier `on` may set a property declared final."""
    try:
        import scenic

        base = "workspace = Workspace(RectangularRegion((0,0,0), 0, 200, 200))\nclass Foo(Object):\n    position[final]: (1, 2, 3)\nego = new Object at (50, 50, 0)\n"
        res = []
        for tail in ("x = new Foo at (5, 5, 0)\n", "x = new Foo on RectangularRegion((0,0,0), 0, 20, 20)\n"):
            try:
                sc = scenic.scenarioFromString(base + tail, mode2D=False)
                res.append(f"accepted (position = {sc.objects[-1].position})")
            except Exception as e:
                res.append(f"{type(e).__name__}({e})")
        return f"Scenic program with `class Foo(Object): position[final]: (1, 2, 3)`: `new Foo at (5, 5, 0)` gives {res[0]} while `new Foo on RectangularRegion(...)` is {res[1]}"
    except Exception as e:  # pragma: no cover - demo only
        return f"(front-end demonstration failed: {type(e).__name__}: {e})"


def _scenic_demo_tie():
    """The same defect through the front end: `visible` and `not visible` both give position priority 3."""
    try:
        import scenic
        from scenic.core.errors import SpecifierError

        res = []
        for src in ("ego = new Object at (0, 0, 0)\nnew Object visible, at (5, 5), not visible\n", "ego = new Object at (0, 0, 0)\nnew Object visible, not visible, at (5, 5)\n"):
            try:
                scenic.scenarioFromString("workspace = Workspace(RectangularRegion((0,0,0), 0, 100, 100))\n" + src, mode2D=False)
                res.append("accepted")
            except SpecifierError as e:
                res.append(f"SpecifierError({e})")
        return f"Scenic program `new Object visible, at (5, 5), not visible` is {res[0]} while `new Object visible, not visible, at (5, 5)` gives {res[1]}"
    except Exception as e:  # pragma: no cover - demo only
        return f"(front-end demonstration failed: {type(e).__name__}: {e})"


# =================================================================================================
# (3) Specifier.__init__, ModifyingSpecifier.__init__, PropertyDefault.resolveFor, Constructible.__init_subclass__
# =================================================================================================

INLINE_CTORS = [
    "Specifier.__init__",
    "toLazyValue",
    "makeDelayedFunctionCall",
    "DelayedArgument.__init__",
    "LazilyEvaluable.__init__",
    "Specifier.getValuesFor",
    "valueInContext",
    "LazilyEvaluable.evaluateIn",
    "DelayedArgument.evaluateInner",
    "DefaultIdentityDict.__init__",
    "DefaultIdentityDict.__contains__",
    "DefaultIdentityDict.__getitem__",
    "DefaultIdentityDict.__setitem__",
    "PropertyDefault.resolveFor",
    "PropertyDefault.forValue",
    "PropertyDefault.__init__",
]


def _type_of(I, o):
    """`type(x)` for model containers: the callable builtin (so that `type(thing)(items)` builds a model container)."""
    if isinstance(o, PDict):
        return I.builtins["dict"]
    if isinstance(o, tuple):
        return I.builtins["tuple"]
    if isinstance(o, PList):
        return I.builtins["list"]
    return I.builtins["type"].fn(o)


from pyvc.interp import SpecFn  # noqa: E402

CTOR_ENV = {"type": SpecFn(_type_of, "type", needs_interp=True)}


def lazy_model(name, required, fn):
    """A DelayedArgument-shaped heap object (real class) with the given required properties and value function."""
    da = PObj(repo_class(f"{LE}:DelayedArgument"), tag=name)
    da.fields.update(_requiredProperties=tuple(sorted(required)), _dependencies=(), _needsSampling=False, _needsLazyEval=True, _isLazy=True, value=BuiltinFn(name, fn))
    return da


def make_context(**props):
    from pyvc.models_spec import NamespaceDict

    ns = PObj("SimpleNamespace")
    ns.fields.update(props)
    ns.fields["__dict__"] = NamespaceDict(ns)
    dd = PObj(repo_class("scenic.core.utils:DefaultIdentityDict"))
    dd.fields["storage"] = PDict()
    ns.fields["_evaluated"] = dd
    return ns


def as_pairs(d):
    """items of a dict result (model PDict or native dict built by `type(thing)(items)`)"""
    if isinstance(d, PDict):
        return list(zip(d.keys, d.vals))
    if isinstance(d, dict):
        return list(d.items())
    return None


def call_real(I, contract, cls_full, method, args):
    """Run a real method of a repository class inside a post-condition (e.g. to evaluate a produced Specifier)."""
    f = I.find_method(repo_class(cls_full), method)
    try:
        return ("return", I.run_function(f, list(args), {}, contract))
    except SymRaise as sr:
        return ("raise", sr.exc)


def register_constructors(reg):
    holder = {}

    # ------------------------------------------------------------------ Specifier.__init__ / ModifyingSpecifier.__init__
    def setup_init(modifying):
        def setup(I, env):
            eng = I.eng
            prios = [p for p in ("p", "q") if eng.choose(2, f"specifies {p}?") == 1]
            deps_form = eng.choose(3, "deps: None / empty set / subset")
            deps = None if deps_form == 0 else PSet(_subset(eng, ("p", "r"), "explicit dependencies") if deps_form == 2 else ())
            given_deps = () if deps is None else tuple(deps.items)
            vform = eng.choose(3, "value: plain dict / DelayedArgument / dict containing a lazy value")
            tokens = {p: _token(f"value.{p}") for p in prios}
            log = []
            if vform == 0:
                value, vreq = PDict([(p, tokens[p]) for p in prios]), ()
            elif vform == 1:
                vreq = _subset(eng, ("q", "s"), "properties required by the value")
                value = lazy_model("value", vreq, lambda ctx: (log.append("value"), PDict([(p, tokens[p]) for p in prios]))[1])
            else:
                vreq = ("s",)
                inner = lazy_model("lazy.part", vreq, lambda ctx: (log.append("part"), _token("evaluated.part"))[1])
                value = PDict([(p, tokens[p]) for p in prios] + [("w", inner)])
            env.vars["self"] = PObj(repo_class(f"{SP}:ModifyingSpecifier" if modifying else f"{SP}:Specifier"), tag="self")
            env.vars["name"] = "TheName"
            env.vars["priorities"] = PDict([(p, k + 1) for k, p in enumerate(prios)])
            env.vars["value"] = value
            env.vars["deps"] = deps
            if modifying:
                env.vars["modifiable_props"] = PSet(("p",))
            env.vars["_g"] = dict(prios=prios, given_deps=given_deps, vreq=tuple(vreq), vform=vform, tokens=tokens, value=value, priorities=env.vars["priorities"], log=log)
            eng.input_syms.append(("case", C.Const(None), dict(priorities=prios, deps=(None if deps is None else list(given_deps)), value_form=vform, value_requires=list(vreq))))

        return setup

    def post_init(tag, modifying):
        def post(I, env, outcome):
            eng = I.eng
            g = env.vars["_g"]
            name = f"specifiers.{tag}.__init__"
            alldeps = sorted(set(g["given_deps"]) | set(g["vreq"]))
            selfdep = any(p in alldeps for p in g["prios"])
            if outcome[0] == "raise":
                eng.check(f"{name}#raises.only_SpecifierError", exc_name(outcome[1]) == "SpecifierError", detail=repr(outcome[1]))
                eng.check(f"{name}#raises.SpecifierError.only_if_a_specified_property_is_among_the_dependencies", selfdep)
                return
            eng.check(f"{name}#raises.SpecifierError.must.when_a_specified_property_is_among_the_dependencies", not selfdep)
            me = env.vars["self"]
            eng.check(f"{name}#ensures.priorities_recorded_unchanged", me.fields.get("priorities") is g["priorities"] and list(g["priorities"].keys) == g["prios"])
            eng.check(f"{name}#ensures.requiredProperties_is_the_sorted_union_of_given_and_value_dependencies", me.fields.get("requiredProperties") == tuple(alldeps), detail=f"{me.fields.get('requiredProperties')} / {alldeps}")
            eng.check(f"{name}#ensures.name_recorded", me.fields.get("name") == "TheName")
            if modifying:
                mp = me.fields.get("modifiable_props")
                eng.check(f"{name}#ensures.modifiable_props_recorded", isinstance(mp, PSet) and list(mp.items) == ["p"])
            # the stored value evaluates (in a context providing the dependencies) to the given property values
            ctx = make_context(**{d: _token(f"ctx.{d}") for d in alldeps})
            r = call_real(I, holder[tag], f"{SP}:Specifier", "getValuesFor", [me, ctx])
            pairs = as_pairs(r[1]) if r[0] == "return" else None
            ok = pairs is not None and all(any(k == p and v is g["tokens"][p] for k, v in pairs) for p in g["prios"])
            eng.check(f"{name}#ensures.getValuesFor_yields_the_given_value_for_every_specified_property", ok, detail=repr(r))
            eng.check(f"{name}#ensures.lazy_parts_evaluated_once", g["log"] == ([] if g["vform"] == 0 else ["value"] if g["vform"] == 1 else ["part"]))

        return post

    for tag, modifying in (("Specifier", False), ("ModifyingSpecifier", True)):
        params = dict(self=C.Const(None), name=C.Const(None), priorities=C.Const(None), value=C.Const(None))
        if modifying:
            params["modifiable_props"] = C.Const(None)
        params["deps"] = C.Const(None)
        c = C.Contract(
            f"{SP}:{tag}.__init__",
            params=params,
            setup=setup_init(modifying),
            post=post_init(tag, modifying),
            raises=[C.Raises("SpecifierError", mode="may")],
            inline=INLINE_CTORS,
            env=CTOR_ENV,
            bounded=True,
            note="bounded: properties p, q; explicit dependencies None / {} / subsets of {p, r}; value a plain dict, a lazy value requiring a subset of {q, s}, or a dict containing a lazy part requiring s",
            replay=replay_specifier_init,
            properties=("C06",),
        )
        holder[tag] = c
        reg.add(c, key=f"{SP}:{tag}.__init__[constructor]")

    # ------------------------------------------------------------------ PropertyDefault.resolveFor
    ATTRS = ("plain", "additive", "dynamic", "final", "dynamic+final")

    def make_default(eng, tag, attr, req, log):
        d = PObj(repo_class(f"{SP}:PropertyDefault"), tag=tag)
        tok = _token(f"{tag}.value")

        def fn(ctx, tag=tag, tok=tok):
            log.append(tag)
            return tok

        d.fields.update(requiredProperties=PSet(req), value=BuiltinFn(tag + ".value", fn), isAdditive=(attr == "additive"), isDynamic=("dynamic" in attr), isFinal=("final" in attr))
        d.tok, d.attr, d.req = tok, attr, tuple(req)
        return d

    def setup_resolve(I, env):
        eng = I.eng
        log = []
        n_over = eng.choose(3, "number of overridden defaults")
        me = make_default(eng, "own", ATTRS[eng.choose(len(ATTRS), "attributes of the own default")], _subset(eng, ("a",), "own dependencies"), log)
        others = []
        for k in range(n_over):
            attrs_k = ATTRS if k == 0 else ("plain", "additive", "final")
            others.append(make_default(eng, f"super{k}", attrs_k[eng.choose(len(attrs_k), f"attributes of overridden default {k}")], ("c",) if k == 0 and eng.choose(2, "super0 depends on c?") else (), log))
        env.vars["self"] = me
        env.vars["prop"] = "x"
        env.vars["overriddenDefs"] = PList(others)
        env.vars["_g"] = dict(me=me, others=others, log=log)
        eng.input_syms.append(("case", C.Const(None), dict(own=dict(attr=me.attr, deps=list(me.req)), overridden=[dict(attr=o.attr, deps=list(o.req)) for o in others])))

    def post_resolve(I, env, outcome):
        eng = I.eng
        g = env.vars["_g"]
        me, others, log = g["me"], g["others"], g["log"]
        name = "specifiers.PropertyDefault.resolveFor"
        overriding_final = any("final" in o.attr for o in others)
        if outcome[0] == "raise":
            eng.check(f"{name}#raises.only_InvalidScenarioError", exc_name(outcome[1]) == "InvalidScenarioError", detail=repr(outcome[1]))
            eng.check(f"{name}#raises.InvalidScenarioError.only_if_a_final_default_is_overridden", overriding_final)
            return
        eng.check(f"{name}#raises.InvalidScenarioError.must.when_a_final_default_is_overridden", not overriding_final)
        sp = outcome[1]
        ok = isinstance(sp, PObj) and getattr(sp.cls, "name", "") == "Specifier" and isinstance(sp.fields.get("priorities"), PDict)
        eng.check(f"{name}#ensures.result_is_a_non_modifying_specifier", ok)
        if not ok:
            return
        eng.check(f"{name}#ensures.specifies_exactly_the_property", list(sp.fields["priorities"].keys) == ["x"])
        additive = me.attr == "additive"
        wreq = set(me.req) | ({d for o in others for d in o.req} if additive else set())
        eng.check(f"{name}#ensures.dependencies_are_own_plus_overridden_ones_iff_additive", sp.fields.get("requiredProperties") == tuple(sorted(wreq)), detail=f"{sp.fields.get('requiredProperties')} / {sorted(wreq)}")
        ctx = make_context(**{d: _token(f"ctx.{d}") for d in wreq})
        r = call_real(I, holder["resolveFor"], f"{SP}:Specifier", "getValuesFor", [sp, ctx])
        pairs = as_pairs(r[1]) if r[0] == "return" else None
        val = dict(pairs).get("x") if pairs else None
        if additive:
            want = [me.tok] + [o.tok for o in others]
            good = isinstance(val, tuple) and len(val) == len(want) and all(a is b for a, b in zip(val, want))
            eng.check(f"{name}#ensures.additive_value_is_the_tuple_of_all_defaults_most_derived_first", good, detail=repr(r))
            eng.check(f"{name}#ensures.every_default_evaluated_once_in_order", log == ["own"] + [o.tag for o in others])
        else:
            eng.check(f"{name}#ensures.value_is_the_most_derived_default", val is me.tok, detail=repr(r))
            eng.check(f"{name}#ensures.overridden_defaults_not_evaluated", log == ["own"])

    c = C.Contract(
        f"{SP}:PropertyDefault.resolveFor",
        params=dict(self=C.Const(None), prop=C.Const(None), overriddenDefs=C.Const(None)),
        setup=setup_resolve,
        post=post_resolve,
        raises=[C.Raises("InvalidScenarioError", mode="may")],
        inline=INLINE_CTORS,
        env=CTOR_ENV,
        bounded=True,
        note="bounded: 0-2 overridden defaults; each default plain / additive / dynamic / final / dynamic+final; dependencies subsets of {a} (own) and {c} (first overridden); the second overridden default plain / additive / final",
        replay=replay_resolve_for,
        properties=("C06",),
    )
    holder["resolveFor"] = c
    reg.add(c, key=f"{SP}:PropertyDefault.resolveFor[merging]")

    # ------------------------------------------------------------------ Constructible.__init_subclass__
    def class_model(name, parents, own, constructible=True):
        k = PObj("class", tag=name)
        k.cname, k.parents, k.constructible = name, parents, constructible
        for par in reversed(parents):  # inherited class attributes
            for a, v in par.fields.items():
                if a not in ("__dict__", "__mro__"):
                    k.fields[a] = v
        k.fields.update(own)
        k.fields["__dict__"] = PDict(list(own.items()))
        mro = [k]
        for par in parents:
            for c in par.fields["__mro__"]:
                if c not in mro:
                    mro.append(c)
        k.fields["__mro__"] = tuple(mro)
        return k

    def setup_subclass(I, env):
        eng = I.eng
        log = []
        root = class_model("Constructible", [], {"_dynamicProperties": PDict()}, constructible=True)
        mixin = class_model("Mixin", [], {"_scenic_properties": PDict([("x", _token("mixin.x"))])}, constructible=False)
        defs = {}

        allowed = {"G": ("plain", "dynamic", "final"), "P": ("plain", "additive", "final", "dynamic+final"), "C": ATTRS}

        def scenic_props(cname):
            props = []
            if eng.choose(2, f"{cname} defines x?") == 1:
                attr = allowed[cname][eng.choose(len(allowed[cname]), f"attributes of x in {cname}")]
                d = make_default(eng, f"{cname}.x", attr, (), log)
                defs[cname] = d
                props.append(("x", d))
            return props

        gp = scenic_props("G")
        G = class_model("G", [root], {"_scenic_properties": PDict(gp + [("y", _token("G.y(raw value)"))]), "_cache_clearers": PDict(), "_dynamicProperties": PDict([("x", "type-of-x")] if "G" in defs and "dynamic" in defs["G"].attr else [])})
        pp = scenic_props("P")
        P = class_model("P", [G, mixin], {"_scenic_properties": PDict(pp), "_cache_clearers": PDict(), "_dynamicProperties": PDict([("x", "type-of-x")] if any("dynamic" in defs[c].attr for c in ("G", "P") if c in defs) else [])})
        cp = scenic_props("C")
        Cc = class_model("C", [P], {"_scenic_properties": PDict(cp + [("z", _token("C.z(raw value)"))])})

        def resolve(specs, *a):
            d = Cc.fields.get("_defaults")
            return (PDict([(p, _token(f"default value of {p}")) for p in d.keys]), PSet())

        Cc.fields["_resolveSpecifiers"] = BuiltinFn("_resolveSpecifiers", resolve)
        env.vars["cls"] = Cc
        env.vars["_g"] = dict(defs=defs, C=Cc, log=log)
        eng.input_syms.append(("case", C.Const(None), {c: d.attr for c, d in defs.items()}))

    def _issubclass(sc, target):
        return bool(getattr(sc, "constructible", False))

    def _super2(a, b):
        par = a.parents[0]
        return par

    def post_subclass(I, env, outcome):
        eng = I.eng
        g = env.vars["_g"]
        defs, Cc = g["defs"], g["C"]
        name = "object_types.Constructible.__init_subclass__"
        chain = [defs[c] for c in ("C", "P", "G") if c in defs]  # most derived first
        overriding_final = any("final" in d.attr for d in chain[1:])
        if outcome[0] == "raise":
            eng.check(f"{name}#raises.only_InvalidScenarioError", exc_name(outcome[1]) == "InvalidScenarioError", detail=repr(outcome[1]))
            eng.check(f"{name}#raises.InvalidScenarioError.only_if_a_final_default_is_overridden", overriding_final)
            return
        eng.check(f"{name}#raises.InvalidScenarioError.must.when_a_final_default_is_overridden", not overriding_final)
        dflt = Cc.fields.get("_defaults")
        ok = isinstance(dflt, PDict)
        eng.check(f"{name}#ensures.defaults_table_created", ok)
        if not ok:
            return
        want_props = {"y", "z"} | ({"x"} if chain else set())
        eng.check(f"{name}#ensures.defaults_for_exactly_the_properties_of_the_scenic_classes_in_the_MRO", set(dflt.keys) == want_props, detail=f"{dflt.keys}")
        fin = Cc.fields.get("_finalProperties")
        eng.check(f"{name}#ensures.final_properties_are_those_whose_most_derived_default_is_final", isinstance(fin, PSet) and set(fin.items) == ({"x"} if chain and "final" in chain[0].attr else set()))
        dyn = Cc.fields.get("_dynamicProperties")
        is_dyn = any("dynamic" in d.attr for d in chain)
        eng.check(f"{name}#ensures.dynamic_properties_are_those_with_a_dynamic_default_anywhere_in_the_MRO", isinstance(dyn, PDict) and set(dyn.keys) == ({"x"} if is_dyn else set()))
        sim = Cc.fields.get("_simulatorProvidedProperties")
        eng.check(f"{name}#ensures.simulator_provided_are_dynamic_and_not_final", isinstance(sim, PDict) and set(sim.keys) == ({"x"} if is_dyn and not (chain and "final" in chain[0].attr) else set()))
        # the default of x is the merge of the chain (most derived class first)
        for p in dflt.keys:
            sp = dflt.get(p)
            good = isinstance(sp, PObj) and isinstance(sp.fields.get("priorities"), PDict) and list(sp.fields["priorities"].keys) == [p]
            eng.check(f"{name}#ensures.each_default_is_a_specifier_for_its_property", good)
        if chain:
            g["log"].clear()
            r = call_real(I, holder["subclass"], f"{SP}:Specifier", "getValuesFor", [dflt.get("x"), make_context()])
            pairs = as_pairs(r[1]) if r[0] == "return" else None
            val = dict(pairs).get("x") if pairs else None
            if chain[0].attr == "additive":
                want = [d.tok for d in chain]
                eng.check(f"{name}#ensures.additive_default_concatenates_the_defaults_of_all_classes_most_derived_first", isinstance(val, tuple) and len(val) == len(want) and all(a is b for a, b in zip(val, want)), detail=repr(r))
            else:
                eng.check(f"{name}#ensures.default_of_the_most_derived_class_wins", val is chain[0].tok, detail=repr(r))
        for p, tag in (("y", "G.y(raw value)"), ("z", "C.z(raw value)")):
            r = call_real(I, holder["subclass"], f"{SP}:Specifier", "getValuesFor", [dflt.get(p), make_context()])
            pairs = as_pairs(r[1]) if r[0] == "return" else None
            val = dict(pairs).get(p) if pairs else None
            eng.check(f"{name}#ensures.plain_values_become_defaults", isinstance(val, PObj) and val.tag == tag, detail=repr(r))

    c = C.Contract(
        f"{OT}:Constructible.__init_subclass__",
        params=dict(cls=C.Const(None)),
        setup=setup_subclass,
        post=post_subclass,
        raises=[C.Raises("InvalidScenarioError", mode="may")],
        inline=INLINE_CTORS,
        env=dict(CTOR_ENV, issubclass=BuiltinFn("issubclass", _issubclass), super=BuiltinFn("super", _super2), property=property),
        bounded=True,
        note="bounded: hierarchy C < P < G < Constructible (+ a non-Scenic mixin with a same-named attribute); property x defined in any subset of {C, P, G} (C: plain / additive / dynamic / final / dynamic+final, P: plain / additive / final / dynamic+final, G: plain / dynamic / final); y, z plain values; classes are heap models (issubclass / super(cls, cls) / cls._resolveSpecifiers(()) modelled in the contract)",
        replay=replay_init_subclass,
        properties=("C06",),
    )
    holder["subclass"] = c
    reg.add(c, key=f"{OT}:Constructible.__init_subclass__[default merging]")
    reg.trust("class objects in Constructible.__init_subclass__", "classes are heap models: __dict__/__mro__/inherited attributes as in Python; issubclass(sc, Constructible) answers the model's flag; super(cls, cls) is the first base; cls._resolveSpecifiers(()) (used only to infer types of dynamic properties) returns one opaque value per default")


def register_prepare(reg):
    """OrientedPoint2D._prepareSpecifiers (2-D mode): `with heading X` is rewritten to `facing X`; everything else is kept."""
    T = f"{OT}:OrientedPoint2D._prepareSpecifiers"
    name = "object_types.OrientedPoint2D._prepareSpecifiers"

    def mk(nm, prios, val):
        o = PObj(repo_class(f"{SP}:Specifier"), tag=nm)
        o.fields.update(name=nm, priorities=PDict(list(prios.items())), value=val, requiredProperties=())
        return o

    def setup(I, env):
        eng = I.eng
        heading = absval("H", "float")
        pool = [
            mk("With(heading)", {"heading": 1}, PDict([("heading", heading)])),
            mk("At", {"position": 1}, PDict([("position", absval("V", "Vector"))])),
            mk("With(heading)", {"heading": 1, "extra": 1}, PDict([("heading", heading), ("extra", 0)])),  # same name, other properties: kept
            mk("With(width)", {"width": 1}, PDict([("width", 2)])),
        ]
        chosen = [sp for k, sp in enumerate(pool) if eng.choose(2, f"specifier {k} present?") == 1]
        if len(chosen) > 1 and eng.choose(2, "reversed order?") == 1:
            chosen.reverse()
        env.vars["cls"] = repo_class(f"{OT}:OrientedPoint2D")
        env.vars["specifiers"] = tuple(chosen)
        env.vars["_g"] = dict(chosen=chosen, pool=pool, heading=heading)
        eng.input_syms.append(("case", C.Const(None), [pool.index(c) for c in chosen]))

    def post(I, env, outcome):
        eng = I.eng
        g = env.vars["_g"]
        ok = outcome[0] == "return" and isinstance(outcome[1], PList) and len(outcome[1].items) == len(g["chosen"])
        eng.check(f"{name}#ensures.one_specifier_out_per_specifier_in", ok, detail=repr(outcome))
        if not ok:
            return
        for a, b in zip(g["chosen"], outcome[1].items):
            if a is g["pool"][0]:
                pr = b.fields.get("priorities") if isinstance(b, PObj) else None
                good = isinstance(pr, PDict) and dict(zip(pr.keys, pr.vals)) == {"yaw": 1, "pitch": 1, "roll": 1} and b.fields.get("name") == "Facing" and "heading" not in pr.keys
                eng.check(f"{name}#ensures.with_heading_becomes_facing", good)
                eng.check(f"{name}#ensures.facing_depends_on_parentOrientation", isinstance(b, PObj) and set(b.fields.get("requiredProperties", ())) == {"parentOrientation"})
            else:
                eng.check(f"{name}#ensures.other_specifiers_kept_in_place", a is b)

    reg.add(
        C.Contract(
            T,
            params=dict(cls=C.Const(None), specifiers=C.Const(None)),
            setup=setup,
            post=post,
            inline_all=True,
            bounded=True,
            note="bounded: any sub-list (either order) of {with heading, at, a With(heading)-named specifier with another property set, with width}; coercion stubs of the reference-table contracts",
            replay=replay_prepare,
            properties=("C06",),
        ),
        key=f"{T}[2D rewriting]",
    )


def replay_prepare(inputs, clause):
    import scenic.syntax.veneer as v
    from scenic.core.object_types import OrientedPoint2D
    from scenic.core.specifiers import Specifier
    from scenic.core.vectors import Vector
    from scenic.syntax.translator import CompileOptions

    v.activate(CompileOptions(mode2D=True))
    try:
        pool = [v.With("heading", 0.5), v.At(Vector(1, 2, 0)), Specifier("With(heading)", {"heading": 1, "extra": 1}, {"heading": 0.5, "extra": 0}), v.With("width", 2)]
        case = inputs["case"]
        if isinstance(case, str):
            import ast as _ast

            case = _ast.literal_eval(case)
        chosen = [pool[i] for i in case]
        out = OrientedPoint2D._prepareSpecifiers(chosen)
        if len(out) != len(chosen):
            return f"_prepareSpecifiers returned {len(out)} specifiers for {len(chosen)}"
        for a, b in zip(chosen, out):
            if a is pool[0]:
                if dict(b.priorities) != {"yaw": 1, "pitch": 1, "roll": 1} or set(b.requiredProperties) != {"parentOrientation"}:
                    return f"`with heading` rewritten to {b} (priorities {b.priorities}, dependencies {b.requiredProperties})"
            elif a is not b:
                return f"specifier {a} was replaced by {b}"
    finally:
        v.deactivate()
    return None


def replay_specifier_init(inputs, clause):
    from scenic.core.errors import SpecifierError
    from scenic.core.lazy_eval import DelayedArgument, LazilyEvaluable
    from scenic.core.specifiers import Specifier

    c = inputs["case"]
    if isinstance(c, str):
        import ast as _ast

        c = _ast.literal_eval(c)
    prios = {p: k + 1 for k, p in enumerate(c["priorities"])}
    vals = {p: f"value.{p}" for p in prios}
    if c["value_form"] == 0:
        value = dict(vals)
    elif c["value_form"] == 1:
        value = DelayedArgument(set(c["value_requires"]), lambda ctx: dict(vals), _internal=True)
    else:
        value = dict(vals, w=DelayedArgument({"s"}, lambda ctx: "part", _internal=True))
    deps = None if c["deps"] is None else set(c["deps"])
    alld = sorted(set(c["deps"] or ()) | set(c["value_requires"]))
    try:
        sp = Specifier("TheName", prios, value, deps)
    except SpecifierError as e:
        return None if any(p in alld for p in prios) else f"Specifier({prios}, deps={c['deps']}, value requires {c['value_requires']}) raised SpecifierError({e})"
    if any(p in alld for p in prios):
        return f"Specifier({prios}, deps={c['deps']}, value requires {c['value_requires']}) accepted a specifier depending on a property it specifies"
    if sp.requiredProperties != tuple(alld):
        return f"Specifier(...).requiredProperties = {sp.requiredProperties}, expected {tuple(alld)}"
    ctx = LazilyEvaluable.makeContext(**{d: 0 for d in alld})
    got = sp.getValuesFor(ctx)
    if any(got.get(p) != v for p, v in vals.items()):
        return f"getValuesFor gives {got}, expected {vals}"
    return None


def _real_default(attr, deps, tag):
    from scenic.core.specifiers import PropertyDefault

    attrs = set() if attr == "plain" else set(attr.split("+"))
    return PropertyDefault(set(deps), attrs, lambda ctx, tag=tag: tag)


def replay_resolve_for(inputs, clause):
    from scenic.core.errors import InvalidScenarioError
    from scenic.core.lazy_eval import LazilyEvaluable

    c = inputs["case"]
    if isinstance(c, str):
        import ast as _ast

        c = _ast.literal_eval(c)
    own = _real_default(c["own"]["attr"], c["own"]["deps"], "own")
    others = [_real_default(o["attr"], o["deps"], f"super{k}") for k, o in enumerate(c["overridden"])]
    fin = any("final" in o["attr"] for o in c["overridden"])
    try:
        sp = own.resolveFor("x", others)
    except InvalidScenarioError as e:
        return None if fin else f"resolveFor raised InvalidScenarioError({e}) for {c}"
    if fin:
        return f"resolveFor accepted overriding a final default: {c}"
    additive = c["own"]["attr"] == "additive"
    wreq = set(c["own"]["deps"]) | ({d for o in c["overridden"] for d in o["deps"]} if additive else set())
    if set(sp.requiredProperties) != wreq:
        return f"resolveFor: dependencies {sp.requiredProperties}, expected {sorted(wreq)} for {c}"
    val = sp.getValuesFor(LazilyEvaluable.makeContext(**{d: 0 for d in wreq}))["x"]
    want = tuple(["own"] + [f"super{k}" for k in range(len(others))]) if additive else "own"
    if val != want:
        return f"resolveFor: value {val!r}, expected {want!r} for {c}"
    return None


def replay_init_subclass(inputs, clause):
    from scenic.core.errors import InvalidScenarioError
    from scenic.core.lazy_eval import LazilyEvaluable
    from scenic.core.object_types import Constructible

    c = inputs["case"]
    if isinstance(c, str):
        import ast as _ast

        c = _ast.literal_eval(c)

    class Mixin:
        _scenic_properties = {"x": "mixin.x"}

    chain = [k for k in ("C", "P", "G") if k in c]
    fin = any("final" in c[k] for k in chain[1:])
    try:
        G = type("G", (Constructible,), {"_scenic_properties": dict(([("x", _real_default(c["G"], (), "G.x"))] if "G" in c else []) + [("y", "G.y")])})
        P = type("P", (G, Mixin), {"_scenic_properties": dict([("x", _real_default(c["P"], (), "P.x"))] if "P" in c else [])})
        K = type("C", (P,), {"_scenic_properties": dict(([("x", _real_default(c["C"], (), "C.x"))] if "C" in c else []) + [("z", "C.z")])})
    except InvalidScenarioError as e:
        return None if (fin or any("final" in c[k] for k in chain[2:])) else f"class creation raised InvalidScenarioError({e}) for {c}"
    if fin:
        return f"class hierarchy overriding a final default accepted: {c}"
    want_props = {"y", "z"} | ({"x"} if chain else set())
    if set(K._defaults) != want_props:
        return f"_defaults has {sorted(K._defaults)}, expected {sorted(want_props)} ({c})"
    if set(K._finalProperties) != ({"x"} if chain and "final" in c[chain[0]] else set()):
        return f"_finalProperties = {set(K._finalProperties)} for {c}"
    if chain:
        val = K._defaults["x"].getValuesFor(LazilyEvaluable.makeContext())["x"]
        want = tuple(f"{k}.x" for k in chain) if c[chain[0]] == "additive" else f"{chain[0]}.x"
        if val != want:
            return f"default of x is {val!r}, expected {want!r} ({c})"
    return None


# =================================================================================================
# (4) reference table: every built-in specifier constructor against docs/reference/specifiers.rst
# =================================================================================================

from pyvc import extract as _extract  # noqa: E402
from pyvc.values import Opaque  # noqa: E402
from pyvc.builtins_model import NativeModule  # noqa: E402

TS = "scenic.core.type_support"


def parse_reference(path=None):
    """Mechanical parse of the reference: section title -> (specifies {prop: (priority, only_with_orientation)},
    dependencies set, modifiable set).  (Same regular expressions as notes/recon/r15.)"""
    path = path or os.path.join(_extract.REPO, "docs", "reference", "specifiers.rst")
    txt = open(path, encoding="utf-8").read()
    sections = re.split(r"\n([^\n]+)\n-{5,}\n", txt)
    doc = {}
    for i in range(1, len(sections), 2):
        title, body = sections[i].strip(), sections[i + 1]
        m = re.search(r"\*\*Specifies\*\*:\s*\n(.*?)\n\n\*\*Dependencies\*\*:\s*([^\n]*)", body, re.S)
        if not m:
            continue
        spec, modifies = {}, set()
        for line in m.group(1).splitlines():
            mm = re.search(r":prop:`(\w+)` with priority (\d)", line)
            if mm:
                spec[mm.group(1)] = (int(mm.group(2)), "preferred orientation" in line)
                if "**modifies**" in line:
                    modifies.add(mm.group(1))
            elif "given property" in line:
                pm = re.search(r"with priority (\d)", line)
                spec["<given>"] = (int(pm.group(1)) if pm else 1, False)
        deps = set(re.findall(r":prop:`(\w+)`", m.group(2)))
        doc[title] = (spec, deps, modifies)
    return doc


# kind -> class in the repository (for isA / isinstance on abstract argument values)
KIND_CLASS = {
    "Vector": "scenic.core.vectors:Vector",
    "Orientation": "scenic.core.vectors:Orientation",
    "VectorField": "scenic.core.vectors:VectorField",
    "Point": f"{OT}:Point",
    "OrientedPoint": f"{OT}:OrientedPoint",
    "Object": f"{OT}:Object",
    "Region": "scenic.core.regions:Region",
}


def absval(name, kind=None, **attrs):
    o = Opaque(name, typ=kind)
    o.attrs = dict(attrs)
    o.total = True
    return o


def _kind_class(kind):
    return repo_class(KIND_CLASS[kind]) if kind in KIND_CLASS else None


def lazyarg(name, deps, real):
    """A lazily evaluated ARGUMENT of a specifier (heap object of the real DelayedArgument class) that depends on the given
    properties of the object under construction; `real` names the real value used by the replay driver."""
    da = lazy_model(name, deps, lambda ctx: absval(f"{name}(evaluated)"))
    da.realkey = real
    return da


def lazy_deps(thing):
    """properties needed to evaluate an argument value: its own requiredProperties, or (tuple / list) those of its components"""
    if isinstance(thing, PObj) and thing.fields.get("_needsLazyEval") is True:
        return set(thing.fields.get("_requiredProperties", ()))
    if isinstance(thing, (tuple, PList)):
        out = set()
        for c in thing if isinstance(thing, tuple) else thing.items:
            out |= lazy_deps(c)
        return out
    return set()


def install_reference_stubs(reg):
    """Argument values of the constructors are ABSTRACT (Opaque with a kind): coercions, geometry and `ego` are
    trusted stubs -- the obligations of (4) only concern which properties / priorities / dependencies the constructor
    declares for each kind of argument (the geometric meaning is property C07)."""
    from pyvc.interp import ClassVal

    prev_attr, prev_call, prev_isinst = reg.opaque_attr, reg.opaque_call, reg.isinstance_hook
    prev_binop, prev_getitem = reg.binop_fallback, reg.getitem_fallback

    def opaque_attr(I, obj, name):
        attrs = getattr(obj, "attrs", None)
        if attrs is not None:
            if name in attrs:
                return attrs[name]
            if name.startswith("_"):
                I.raise_("AttributeError", name)
            return absval(f"{obj.name}.{name}")
        if prev_attr is not None:
            return prev_attr(I, obj, name)
        I.raise_("AttributeError", name)

    def opaque_call(I, f, args, kwargs):
        if getattr(f, "attrs", None) is not None:
            return absval(f"{f.name}()")
        if prev_call is not None:
            return prev_call(I, f, args, kwargs)
        return Opaque(f"{f.name}()")

    def isinstance_hook(I, x, cls):
        if isinstance(x, Opaque) and getattr(x, "attrs", None) is not None and isinstance(cls, ClassVal):
            kc = _kind_class(x.typ)
            return kc is not None and I.is_subclass(kc, cls)
        if prev_isinst is not None:
            return prev_isinst(I, x, cls)
        return None

    def binop_fb(I, sym, a, b):
        if any(isinstance(v, Opaque) and getattr(v, "attrs", None) is not None for v in (a, b)):
            return absval(f"({getattr(a, 'name', a)} {sym} {getattr(b, 'name', b)})")
        if prev_binop is not None:
            return prev_binop(I, sym, a, b)
        from pyvc.values import PyvcError

        raise PyvcError(f"binary operator {sym} on {a!r}, {b!r} not modelled")

    def getitem_fb(I, obj, idx):
        if isinstance(obj, Opaque) and getattr(obj, "attrs", None) is not None:
            return absval(f"{obj.name}[{getattr(idx, 'name', idx)}]")
        return prev_getitem(I, obj, idx)

    reg.opaque_attr, reg.opaque_call, reg.isinstance_hook = opaque_attr, opaque_call, isinstance_hook
    reg.binop_fallback, reg.getitem_fallback = binop_fb, getitem_fb

    def kind_of(thing):
        if isinstance(thing, Opaque):
            return thing.typ
        if isinstance(thing, (int, float)) and not isinstance(thing, bool):
            return "float"
        if isinstance(thing, tuple):
            return "tuple"
        return None

    def underlying(I, thing):
        k = kind_of(thing)
        if k == "float":
            return float
        if k == "tuple":
            return tuple
        return _kind_class(k) or object

    def isA(I, thing, ty):
        u = underlying(I, thing)
        return I.is_subclass(u, ty) if isinstance(u, (ClassVal, type)) and u is not object else False

    def can_coerce(I, thing, ty, exact=False):
        k = kind_of(thing)
        tyname = getattr(ty, "name", getattr(getattr(ty, "pytype", ty), "__name__", None))
        if tyname == "float":
            return k == "float"
        if tyname == "Vector":
            return k in ("Vector", "Point", "OrientedPoint", "Object", "tuple")
        if tyname == "Region":
            return k == "Region"
        return False

    def coerce(I, thing, ty, error="wrong type"):
        tyname = getattr(ty, "name", getattr(getattr(ty, "pytype", ty), "__name__", None))
        if tyname == "Vector":
            n = getattr(thing, "name", "v")
            return (absval(f"{n}.x", "float"), absval(f"{n}.y", "float"), absval(f"{n}.z", "float"))
        return thing

    def ident(I, thing, *a, **k):
        # toTypes: "if the given value requires lazy evaluation [after toDistribution: also a tuple / list with such a component],
        # this function returns a TypeChecker object that performs the type conversion after specifier resolution" -- i.e. a
        # lazy value requiring the same properties
        deps = lazy_deps(thing)
        if deps:
            return lazy_model("coerced(...)", deps, lambda ctx: absval("coerced value"))
        return thing

    for fn in ("toVector", "toScalar", "toHeading", "toOrientation"):
        reg.models[f"{TS}:{fn}"] = ident
    reg.models[f"{TS}:toType"] = ident
    reg.models[f"{TS}:underlyingType"] = underlying
    reg.models[f"{TS}:isA"] = isA
    reg.models[f"{TS}:canCoerce"] = can_coerce
    reg.models[f"{TS}:coerce"] = coerce
    reg.models[f"{VN}:ego"] = lambda I, obj=None: absval("ego", "Object")
    reg.models[f"{VN}:RelativeTo"] = lambda I, X, Y: absval("RelativeTo(...)")
    reg.models[f"{VN}:OffsetAlong"] = lambda I, X, H, Y: absval("OffsetAlong(...)", "Vector")
    reg.models["scenic.core.regions:Region.uniformPointIn"] = lambda I, region, tag=None: absval(f"PointIn({getattr(region, 'name', region)})", "Vector")
    reg.models["scenic.core.vectors:Orientation.fromEuler"] = lambda I, *a, **k: absval("Orientation.fromEuler(...)", "Orientation")
    reg.constructors["scenic.core.vectors:Vector"] = lambda I, cls, args, kwargs: absval("Vector(...)", "Vector")
    reg.extra_modules = dict(getattr(reg, "extra_modules", None) or {})
    reg.extra_modules["builtins"] = NativeModule("builtins", {"float": float, "int": int})
    reg.trust(
        "type_support.toVector/toType/toScalar/toHeading/toOrientation/coerce",
        "stubs (reference-table contracts only): coercions return their (abstract) argument -- for an argument that needs lazy evaluation, or a tuple/list with such a component, a lazy value requiring the same properties (documented behaviour of toTypes/TypeChecker); isA/canCoerce/underlyingType decide by the declared kind of the abstract argument (Vector, Point, OrientedPoint, Object, Region, VectorField, float, tuple) using the real class hierarchy",
    )
    reg.trust(
        "veneer.ego/RelativeTo/OffsetAlong, Region.uniformPointIn, Orientation.fromEuler, Vector(...), attribute/method/operator/subscript on abstract geometric values",
        "stubs (reference-table contracts only): total, return abstract values that need no lazy evaluation (their geometric meaning is property C07); DelayedArgument.__new__'s evaluate-immediately branch (inside a running simulation) is not taken",
    )


def _region(name, oriented):
    return absval(name, "Region", orientation=(absval(name + ".orientation", "VectorField") if oriented else None))


def reference_cases():
    """(doc title, constructor, argument builder, region has a preferred orientation?, description)"""
    vec = lambda n="V": absval(n, "Vector")  # noqa: E731
    opt = lambda: absval("OP", "OrientedPoint")  # noqa: E731
    obj = lambda: absval("OBJ", "Object", onSurface=_region("OBJ.onSurface", False))  # noqa: E731
    fld = lambda: absval("F", "VectorField")  # noqa: E731
    cases = [
        ("with *property* *value*", "With", lambda: dict(prop="foo", val=absval("value")), None, "with foo <value>"),
        ("at *vector*", "At", lambda: dict(pos=vec()), None, "at <vector>"),
        ("in *region*", "In", lambda: dict(region=_region("R", True)), True, "in <region with preferred orientation>"),
        ("in *region*", "In", lambda: dict(region=_region("R", False)), False, "in <region without preferred orientation>"),
        ("contained in *region*", "ContainedIn", lambda: dict(region=_region("R", True)), True, "contained in <region with preferred orientation>"),
        ("contained in *region*", "ContainedIn", lambda: dict(region=_region("R", False)), False, "contained in <region without preferred orientation>"),
        ("on (*region* | *Object* | *vector*)", "On", lambda: dict(thing=_region("R", True)), True, "on <region with preferred orientation>"),
        ("on (*region* | *Object* | *vector*)", "On", lambda: dict(thing=_region("R", False)), False, "on <region without preferred orientation>"),
        ("on (*region* | *Object* | *vector*)", "On", lambda: dict(thing=obj()), False, "on <Object whose onSurface has no preferred orientation>"),
        ("on (*region* | *Object* | *vector*)", "On", lambda: dict(thing=absval("OBJ", "Object", onSurface=_region("OBJ.onSurface", True))), True, "on <Object whose onSurface has a preferred orientation>"),
        ("on (*region* | *Object* | *vector*)", "On", lambda: dict(thing=vec()), False, "on <vector>"),
        ("offset by *vector*", "OffsetBy", lambda: dict(offset=vec()), None, "offset by <vector>"),
        ("offset along *direction* by *vector*", "OffsetAlongSpec", lambda: dict(direction=absval("H", "float"), offset=vec()), None, "offset along <heading> by <vector>"),
        ("offset along *direction* by *vector*", "OffsetAlongSpec", lambda: dict(direction=fld(), offset=vec()), None, "offset along <field> by <vector>"),
        ("beyond *vector* by (*vector* | *scalar*) [from (*vector* | *OrientedPoint*)]", "Beyond", lambda: dict(pos=vec(), offset=3.0), None, "beyond <vector> by <scalar>"),
        ("beyond *vector* by (*vector* | *scalar*) [from (*vector* | *OrientedPoint*)]", "Beyond", lambda: dict(pos=vec(), offset=vec("W"), fromPt=opt()), None, "beyond <vector> by <vector> from <OrientedPoint>"),
        ("beyond *vector* by (*vector* | *scalar*) [from (*vector* | *OrientedPoint*)]", "Beyond", lambda: dict(pos=vec(), offset=vec("W"), fromPt=vec("Z")), None, "beyond <vector> by <vector> from <vector>"),
        ("visible [from (*Point* | *OrientedPoint*)]", "VisibleFrom", lambda: dict(base=opt()), None, "visible from <OrientedPoint>"),
        ("visible [from (*Point* | *OrientedPoint*)]", "VisibleFrom", lambda: dict(base=absval("P", "Point")), None, "visible from <Point>"),
        ("visible [from (*Point* | *OrientedPoint*)]", "VisibleSpec", lambda: dict(), None, "visible"),
        ("not visible [from (*Point* | *OrientedPoint*)]", "NotVisibleFrom", lambda: dict(base=opt()), None, "not visible from <OrientedPoint>"),
        ("not visible [from (*Point* | *OrientedPoint*)]", "NotVisibleSpec", lambda: dict(), None, "not visible"),
        ("following *vectorField* [from *vector*] for *scalar*", "Following", lambda: dict(field=fld(), dist=3.0), None, "following <field> for <scalar>"),
        ("following *vectorField* [from *vector*] for *scalar*", "Following", lambda: dict(field=fld(), dist=3.0, fromPt=vec()), None, "following <field> from <vector> for <scalar>"),
        ("facing *orientation*", "Facing", lambda: dict(heading=absval("H", "float")), None, "facing <heading>"),
        ("facing *orientation*", "Facing", lambda: dict(heading=absval("O", "Orientation")), None, "facing <orientation>"),
        ("facing *vectorField*", "Facing", lambda: dict(heading=fld()), None, "facing <field>"),
        ("facing (toward | away from) *vector*", "FacingToward", lambda: dict(pos=vec()), None, "facing toward <vector>"),
        ("facing (toward | away from) *vector*", "FacingAwayFrom", lambda: dict(pos=vec()), None, "facing away from <vector>"),
        ("facing directly (toward | away from) *vector*", "FacingDirectlyToward", lambda: dict(pos=vec()), None, "facing directly toward <vector>"),
        ("facing directly (toward | away from) *vector*", "FacingDirectlyAwayFrom", lambda: dict(pos=vec()), None, "facing directly away from <vector>"),
        ("apparently facing *heading* [from *vector*]", "ApparentlyFacing", lambda: dict(heading=absval("H", "float")), None, "apparently facing <heading>"),
        ("apparently facing *heading* [from *vector*]", "ApparentlyFacing", lambda: dict(heading=absval("H", "float"), fromPt=vec()), None, "apparently facing <heading> from <vector>"),
    ]
    # arguments that are lazily evaluated (depend on properties of the object under construction), directly or through a
    # component of a tuple / list of angles or coordinates: the specifier must depend on whatever its argument depends on
    lz = lambda: lazyarg("LAZY_YAW", ("position",), "lazy_yaw")  # noqa: E731   e.g. (30 deg relative to vf).yaw
    cases += [
        ("facing *orientation*", "Facing", lambda: dict(heading=lazyarg("LAZY_H", ("position",), "lazy_heading")), None, "facing <lazily evaluated heading depending on position>", {"position"}),
        ("facing *orientation*", "Facing", lambda: dict(heading=(lz(), 0.1, 0)), None, "facing <tuple of angles with a lazily evaluated component>", {"position"}),
        ("facing *orientation*", "Facing", lambda: dict(heading=PList([lz(), 0.1, 0])), None, "facing <list of angles with a lazily evaluated component>", {"position"}),
        ("with *property* *value*", "With", lambda: dict(prop="foo", val=lz()), None, "with foo <lazily evaluated value>", {"position"}),
        ("with *property* *value*", "With", lambda: dict(prop="foo", val=(lz(), 1)), None, "with foo <tuple with a lazily evaluated component>", {"position"}),
        ("at *vector*", "At", lambda: dict(pos=lazyarg("LAZY_VEC", ("width",), "lazy_vector")), None, "at <lazily evaluated vector depending on width>", {"width"}),
    ]
    for head, ctors in (("(left | right) of", ("LeftSpec", "RightSpec")), ("(ahead of | behind)", ("Ahead", "Behind")), ("(above | below)", ("Above", "Below"))):
        for ctor in ctors:
            vt = f"{head} (*vector*) [by *scalar*]" if head.startswith("(left") else f"{head} *vector* [by *scalar*]"
            cases.append((vt, ctor, lambda: dict(pos=vec()), None, f"{ctor} <vector>"))
            cases.append((vt, ctor, lambda: dict(pos=vec(), dist=2.0), None, f"{ctor} <vector> by <scalar>"))
            cases.append((vt, ctor, lambda: dict(pos=vec(), dist=vec("D")), None, f"{ctor} <vector> by <vector>"))
            cases.append((f"{head} *OrientedPoint* [by *scalar*]", ctor, lambda: dict(pos=opt()), None, f"{ctor} <OrientedPoint>"))
            cases.append((f"{head} *OrientedPoint* [by *scalar*]", ctor, lambda: dict(pos=opt(), dist=2.0), None, f"{ctor} <OrientedPoint> by <scalar>"))
            cases.append((f"{head} *Object* [by *scalar*]", ctor, lambda: dict(pos=obj()), None, f"{ctor} <Object>"))
            cases.append((f"{head} *Object* [by *scalar*]", ctor, lambda: dict(pos=obj(), dist=2.0), None, f"{ctor} <Object> by <scalar>"))
    return [c if len(c) == 6 else c + (set(),) for c in cases]


def expected_entry(doc, title, oriented):
    spec, deps, modifies = doc[title]
    want = {p: pr for p, (pr, cond) in spec.items() if not cond or oriented}
    return want, set(deps), set(modifies)


def register_reference(reg):
    install_reference_stubs(reg)
    try:
        doc = parse_reference()
        err = None
    except Exception as e:  # missing / unreadable reference: every case fails its obligation below
        doc, err = {}, f"{type(e).__name__}: {e}"
    allcases = reference_cases()
    by_ctor = {}
    for idx, case in enumerate(allcases):
        by_ctor.setdefault(case[1], []).append((idx, case))
    for ctor, cases in by_ctor.items():
        target = f"{VN}:{ctor}"
        argnames = []
        for _, case in cases:
            for a in case[2]():
                if a not in argnames:
                    argnames.append(a)

        def setup(I, env, cases=cases):
            idx, case = cases[I.eng.choose(len(cases), "argument kinds")]
            for a, v in case[2]().items():
                env.vars[a] = v
            env.vars["_case"] = (idx, case)
            I.eng.input_syms.append(("case", C.Const(None), idx))

        def post(I, env, outcome, ctor=ctor):
            eng = I.eng
            idx, (title, _, build, oriented, descr, argdeps) = env.vars["_case"]
            name = f"veneer.{ctor}[{descr}]"
            eng.check(f"{name}#reference.section_found_in_specifiers_rst", title in doc, detail=err or title)
            if title not in doc:
                return
            want, wdeps, wmods = expected_entry(doc, title, bool(oriented))
            if outcome[0] != "return":
                eng.check(f"{name}#reference.constructor_returns_a_specifier", False, detail=repr(outcome[1]))
                return
            sp = outcome[1]
            ok = isinstance(sp, PObj) and isinstance(sp.fields.get("priorities"), PDict)
            eng.check(f"{name}#reference.constructor_returns_a_specifier", ok)
            if not ok:
                return
            pr = sp.fields["priorities"]
            got = {("<given>" if kk == "foo" else kk): v for kk, v in zip(pr.keys, pr.vals) if not (isinstance(kk, str) and kk.startswith("_"))}
            eng.check(f"{name}#reference.specifies_exactly_the_listed_properties_with_the_listed_priorities", got == want, detail=f"code {got} / reference {want}")
            gdeps = set(sp.fields.get("requiredProperties", ()))
            eng.check(f"{name}#reference.depends_on_every_property_its_argument_depends_on", argdeps <= gdeps, detail=f"argument needs {sorted(argdeps)} / specifier declares {sorted(gdeps)}")
            eng.check(f"{name}#reference.depends_on_exactly_the_listed_properties", gdeps == wdeps | argdeps, detail=f"code {sorted(gdeps)} / reference {sorted(wdeps)} + argument {sorted(argdeps)}")
            mod = sp.fields.get("modifiable_props")
            gmods = set(mod.items) if isinstance(mod, PSet) else set()
            is_mod = getattr(sp.cls, "name", "") == "ModifyingSpecifier"
            eng.check(f"{name}#reference.modifying_exactly_where_the_reference_says_modifies", gmods == wmods and is_mod == bool(wmods), detail=f"code {sorted(gmods)} / reference {sorted(wmods)}")

        reg.add(
            C.Contract(
                target,
                params={a: C.Const(None) for a in argnames},
                setup=setup,
                post=post,
                inline_all=True,
                env=CTOR_ENV,
                note="argument kinds abstract: " + "; ".join(case[4] for _, case in cases) + ". Internal properties (leading underscore) are not part of the reference",
                replay=replay_reference,
                properties=("C06",),
            ),
            key=f"{target}[reference table]",
        )


def _scenic_demo_lazy_facing():
    """Front-end confirmation: `facing (<lazy yaw>, pitch, roll)` must give the same object whatever the order of the specifiers."""
    try:
        import math

        import scenic

        prelude = 'vf = VectorField("F", lambda pos: 0.1 * pos.x + 0.01 * pos.z)\n'
        specs = ["facing ((30 deg relative to vf).yaw, 0.1, 0)", "at (1, 2, 0)"]
        res = []
        for perm in itertools.permutations(specs):
            src = prelude + "ego = new Object " + ", ".join(perm) + "\n"
            try:
                scene, _ = scenic.scenarioFromString(src, mode2D=False).generate(maxIterations=100)
                ok = math.isclose(scene.egoObject.yaw, math.radians(30) + 0.1, abs_tol=1e-6)
                res.append(f"`new Object {', '.join(perm)}` -> yaw {scene.egoObject.yaw:.4f}" + ("" if ok else " (WRONG)"))
            except Exception as e:
                res.append(f"`new Object {', '.join(perm)}` -> {type(e).__name__}: {str(e)[:80]}")
        return "Scenic programs: " + "; ".join(res)
    except Exception as e:  # pragma: no cover - demo only
        return f"(front-end demonstration failed: {type(e).__name__}: {e})"


def replay_reference(inputs, clause):
    """Build the REAL specifier for the case (real vectors, regions, objects) and compare with the parsed reference."""
    idx = int(inputs["case"])
    title, ctor, build, oriented, descr, argdeps = reference_cases()[idx]
    import scenic.syntax.veneer as v
    from scenic.core.regions import PolygonalRegion
    from scenic.core.vectors import Orientation, Vector, VectorField
    from scenic.syntax.translator import CompileOptions

    doc = parse_reference()
    if title not in doc:
        return f"no section {title!r} in docs/reference/specifiers.rst"
    want, wdeps, wmods = expected_entry(doc, title, bool(oriented))
    v.activate(CompileOptions())
    try:
        ego = v.new(v.Object, [v.At(Vector(0, 0, 0))])
        v.ego(ego)
        field = VectorField("f", lambda pos: 0.3)
        real = {
            "Vector": lambda a: Vector(1, 2, 0),
            "OrientedPoint": lambda a: v.new(v.OrientedPoint, [v.At(Vector(5, 5, 0))]),
            "Point": lambda a: v.new(v.Point, [v.At(Vector(6, 5, 0))]),
            "Object": lambda a: v.new(v.Object, [v.At(Vector(10, 0, 0))]),
            "VectorField": lambda a: field,
            "float": lambda a: 0.5,
            "Orientation": lambda a: Orientation.fromEuler(0.5, 0, 0),
            "Region": lambda a: PolygonalRegion([(0, 0), (4, 0), (4, 4), (0, 4)], orientation=(field if a.attrs.get("orientation") is not None else None)),
            None: lambda a: 3,
        }
        from scenic.core.lazy_eval import DelayedArgument

        lazy_heading = v.RelativeTo(0.5, field)  # `0.5 relative to f`: needs position
        real_lazy = {"lazy_heading": lazy_heading, "lazy_yaw": lazy_heading.yaw, "lazy_vector": DelayedArgument({"width"}, lambda ctx: Vector(ctx.width, 0, 0), _internal=True)}

        def to_real(a):
            if isinstance(a, Opaque):
                return real[a.typ](a)
            if isinstance(a, PObj) and hasattr(a, "realkey"):
                return real_lazy[a.realkey]
            if isinstance(a, tuple):
                return tuple(to_real(x) for x in a)
            if isinstance(a, PList):
                return [to_real(x) for x in a.items]
            return a

        kwargs = {k: to_real(a) for k, a in build().items()}
        wdeps = wdeps | set(argdeps)
        spec = getattr(v, ctor)(**kwargs)
        if ctor == "On" and isinstance(kwargs.get("thing"), v.Object):
            # which of the two abstract Object cases a real object falls in is decided by its onSurface
            want, wdeps, wmods = expected_entry(doc, title, kwargs["thing"].onSurface.orientation is not None)
        got = {("<given>" if k == "foo" else k): p for k, p in spec.priorities.items() if not k.startswith("_")}
        gdeps = set(spec.requiredProperties)
        gmods = set(getattr(spec, "modifiable_props", ()))
        if got != want:
            return f"{descr}: real constructor specifies {got}, reference says {want}"
        if gdeps != wdeps:
            msg = f"{descr}: real constructor depends on {sorted(gdeps)}, reference says {sorted(wdeps)}" + (f" (the argument needs {sorted(argdeps)})" if argdeps else "")
            if ctor == "Facing" and argdeps:
                v.deactivate()
                try:
                    msg += "; " + _scenic_demo_lazy_facing()
                finally:
                    v.activate(CompileOptions())
            return msg
        if gmods != wmods:
            return f"{descr}: real constructor may modify {sorted(gmods)}, reference says {sorted(wmods)}"
    finally:
        v.deactivate()
    return None


# =================================================================================================


def register(reg):
    install_stubs(reg)
    register_priorities(reg)
    register_dependencies(reg)
    register_relational(reg)
    register_unbounded_phase1(reg)
    register_constructors(reg)
    register_prepare(reg)
    register_dfs(reg)
    register_reference(reg)
