"""C04 / C02: the planar-box fast paths are taken only for boxes whose GLOBAL orientation has no pitch and no roll
(Object._isPlanarBox guards the 2-D shortcuts of intersects / containment / _boundingPolygon)."""
import z3

from pyvc import contracts as C
from pyvc.values import PObj, compare, sv_and, tobool

from .common import repo_class

O = "scenic.core.object_types"


def register(reg):
    def setup(I, env):
        eng = I.eng
        is_box = eng.choose(2, "box shape?") == 1
        shape = PObj(repo_class("scenic.core.shapes:BoxShape" if is_box else "scenic.core.shapes:MeshShape"), tag="shape")
        gp, gr = eng.fresh_real("global.pitch"), eng.fresh_real("global.roll")
        orientation = PObj("Orientation", tag="orientation")
        orientation.fields.update(pitch=gp, roll=gr, yaw=eng.fresh_real("global.yaw"))
        self = env.vars["self"]
        # the object's own angles are relative to parentOrientation: they say nothing about the global pose
        self.fields.update(shape=shape, orientation=orientation, pitch=eng.fresh_real("own.pitch"), roll=eng.fresh_real("own.roll"), yaw=eng.fresh_real("own.yaw"))
        env.vars.update(_is_box=is_box, _gp=gp, _gr=gr)
        for n in ("global.pitch", "global.roll", "own.pitch", "own.roll"):
            pass
        eng.input_syms.append(("global_pitch", C.Real(), gp))
        eng.input_syms.append(("global_roll", C.Real(), gr))
        eng.input_syms.append(("own_pitch", C.Real(), self.fields["pitch"]))
        eng.input_syms.append(("own_roll", C.Real(), self.fields["roll"]))

    def post(I, env, outcome):
        eng = I.eng
        if outcome[0] != "return":
            return
        want = z3.And(z3.BoolVal(env.vars["_is_box"]), tobool(compare("==", env.vars["_gp"], 0)), tobool(compare("==", env.vars["_gr"], 0)))
        eng.check("object_types.Object._isPlanarBox#ensures.true_iff_box_with_zero_global_pitch_and_roll", tobool(I.truth(outcome[1])) == want)

    reg.add(
        C.Contract(
            f"{O}:Object._isPlanarBox",
            params=dict(self=C.Obj(f"{O}:Object")),
            setup=setup,
            post=post,
            replay=replay_planar,
            properties=("C04", "C02"),
        )
    )


def replay_planar(inputs, clause):
    import math

    import scenic

    gp = float(inputs.get("global_pitch", 0.7)) or 0.7
    src = f"ego = new Object with parentOrientation (0, {gp!r}, 0), with pitch 0, with roll 0, with width 1, with length 1, with height 6\n"
    sc = scenic.scenarioFromString(src, mode2D=False)
    scene, _ = sc.generate(maxIterations=50)
    o = scene.objects[0]
    if abs(o.orientation.pitch) > 1e-9 and o._isPlanarBox:
        return f"a box with global pitch {o.orientation.pitch:.3f} (own pitch 0, parentOrientation pitched) is treated as a planar box: its bounding polygon ignores the tilt"
    return None
