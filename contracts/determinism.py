"""Sidecar contracts for property C15: same program, options and seed give identical scenes and runs,
independent of memory layout, hash randomisation and the timing of requirement checks.

Oracle (property statement + the reproducibility note in `Samplable.sampleAll`: "the order in which the quantities
are given can affect the order in which calls to random are made, affecting the final result"):

* **2-run relational contracts** (`deterministic`, DESIGN 2.3): the construction is executed TWICE on the same
  inputs; every iteration over a `set` picks an arbitrary permutation, independently in the two runs (model
  `pyvc.models_dyn.install_set_order`; `id()`/`hash()`-dependent order = any order).  The designated output
  sequences must be identical, element by element (object identity).
  Carriers: `PendingRequirement.compile` (the `deps` it hands to `CompiledRequirement`),
  `DynamicScenario._compileRequirements` (accumulated `_requirementDeps`), `Scenario.__init__` (`dependencies`),
  `LazilyEvaluable.__init__` (`_requiredProperties`, `_dependencies`), `deterministicHash` (byte stream fed to the hash).
* **RNG frame** of `Scenario._generateInner`: whatever the sample checker draws from Python's and NumPy's global
  generators while checking requirements, both generators are back in their pre-check state before anything
  else runs (so timing-dependent checker heuristics cannot perturb the user-visible stream)."""
import ast
import itertools

import z3

from pyvc import builtins_model as bm
from pyvc import contracts as C
from pyvc import extract
from pyvc import models_dyn as MD
from pyvc.interp import BuiltinFn, ClassVal, Env, FuncVal, SymRaise
from pyvc.values import Opaque, PDict, PExc, PList, PObj, PSet, PyvcError, SV, compare, sv_and, sv_not, tobool

from .common import repo_class

S = "scenic.core.scenarios"
R = "scenic.core.requirements"
DS = "scenic.core.dynamics.scenarios"
D = "scenic.core.distributions"
LE = "scenic.core.lazy_eval"


def samplable(tag, needs=True):
    o = PObj(repo_class(f"{D}:Samplable"), tag=tag)
    o.fields.update(_needsSampling=needs, _needsLazyEval=False, _isLazy=needs, _dependencies=(), _requiredProperties=())
    o.fields["_conditioned"] = o
    return o


def same_sequence(a, b):
    return len(a) == len(b) and all(x is y for x, y in zip(a, b))


def seq_repr(xs):
    return "[" + ", ".join(getattr(x, "tag", repr(x)) for x in xs) + "]"


def target_function(I, target):
    ex = extract.extract(target)
    owner = ClassVal.get(ex.module.name, ex.owner_class) if ex.owner_class is not None else None
    return FuncVal(ex.node, ex.module, None, target, owner)


def initial_requirement_deps(I):
    """The container `DynamicScenario.__init__` creates for `_requirementDeps` (read from the tree)."""
    ex = extract.extract(f"{DS}:DynamicScenario.__init__")
    for n in ast.walk(ex.node):
        if isinstance(n, ast.Assign) and len(n.targets) == 1 and isinstance(n.targets[0], ast.Attribute) and n.targets[0].attr == "_requirementDeps":
            return I.eval(n.value, Env(ex.module))
    raise PyvcError("DynamicScenario.__init__ no longer initialises _requirementDeps: contract needs updating")


def ordered_like_compile(I, items):
    """A dependency collection with a FIXED iteration order (what `compile` must deliver; its own contract is below)."""
    return PDict([(x, None) for x in items])


def register(reg):
    MD.install_set_order(reg)
    MD.install_iterators(reg)
    MD.install_veneer_state(reg)
    from pyvc import models_spec

    models_spec.install(reg)

    reg.models[f"{D}:toDistribution"] = lambda I, v: v
    reg.trust("toDistribution", "stub: the identity on scalars, Samplables and plain Python objects (wrapping of tuples/slices containing random values is C05)")

    def compiled_ctor(I, cls, args, kwargs):
        o = PObj(cls, tag="compiled requirement")
        o.fields.update(pending=args[0], closure=args[1], dependencies=args[2], proposition=args[3], ty=args[0].fields["ty"], optional=False, active=True)
        return o

    reg.constructors[f"{R}:CompiledRequirement"] = compiled_ctor
    reg.trust("CompiledRequirement(...)", "constructor stub: stores its four arguments (`dependencies` is the third)")

    # =============================================================================== PendingRequirement.compile
    def make_pending(I, env, variant):
        """variant 0: one global random value + one closure cell; 1: + ego; 2: + `can see` (all objects of the scenario)."""
        a, c = samplable("random value a"), samplable("random value c (closure cell)")
        plain = Opaque("plain function f")
        plain.attrs = {}
        ego = samplable("ego") if variant == 1 else None
        cond = PObj("Proposition", tag="condition")
        cond.fields["check_constrains_sampling"] = BuiltinFn("check_constrains_sampling", lambda: False)
        pend = PObj(repo_class(f"{R}:PendingRequirement"), tag="pending requirement")
        req_type = PObj("RequirementType", tag="RequirementType.require")  # a hard `require` on the initial scene
        req_type.fields.update(constrainsSampling=True, name="require", value="require")
        gb = PDict([("f", plain), ("a", a)])
        if variant == 2:
            gb.set("CanSee", plain)
        cell = PObj("cell", tag="cell")
        cell.fields["cell_contents"] = c
        pend.fields.update(globalBindings=gb, closureBindings=PDict(), cells=PList([cell]), egoObject=ego, line=3, condition=cond, ty=req_type, name=None, prob=1, recConfig=None)
        objs = (samplable("object 0"),)
        scen = PObj("DynamicScenario", tag="scenario")
        scen.fields["objects"] = objs
        expected = [a, c] + (list(objs) if variant == 2 else []) + ([ego] if variant == 1 else [])
        return pend, scen, expected

    def setup_compile(I, env):
        I.nondet_sets = True
        variant = I.eng.choose(3, "plain / with ego / with `can see`")
        pend, scen, expected = make_pending(I, env, variant)
        env.vars.update(self=pend, namespace=PDict(), scenario=scen, syntax=None)
        env.vars["_expected"] = expected

    def post_compile(I, env, outcome):
        name = "requirements.PendingRequirement.compile"
        if outcome[0] != "return":
            return
        exp = env.vars["_expected"]
        run1 = I.iterate(outcome[1].fields["dependencies"])
        # second run: same requirement, same bindings, independent choices of every set iteration order
        f = target_function(I, f"{R}:PendingRequirement.compile")
        r2 = I.run_function(f, [env.vars["self"], env.vars["namespace"], env.vars["scenario"], None], {}, _contract_of(reg, f"{R}:PendingRequirement.compile[deps-order]"))
        run2 = I.iterate(r2.fields["dependencies"])
        I.eng.check(f"{name}#ensures.dependencies_are_exactly_the_random_values_used", len(run1) == len(exp) and all(any(x is y for y in run1) for x in exp))
        I.eng.check(f"{name}#deterministic.dependencies_in_the_same_order_in_every_run", same_sequence(run1, run2), detail=f"run 1: {seq_repr(run1)}; run 2: {seq_repr(run2)}")

    reg.add(
        C.Contract(
            f"{R}:PendingRequirement.compile",
            params=dict(self=C.Const(None), namespace=C.Const(None), scenario=C.Const(None), syntax=C.Const(None)),
            setup=setup_compile,
            post=post_compile,
            replay=replay_dependency_order,
            bounded=True,
            note="bounded: a requirement over one global random value and one closure cell, optionally an ego or `can see` with one object (2-3 dependencies)",
            properties=("C15",),
        ),
        key=f"{R}:PendingRequirement.compile[deps-order]",
    )

    # =============================================================================== PendingRequirement.__init__ (+ getNameBindings)
    def setup_pinit(I, env):
        I.nondet_sets = True
        ns = PDict()  # the module namespace (identity matters: `restrictTo is not namespace`)
        cells, funcs = [], []
        for k in range(2):
            c = PObj("cell", tag=f"cell of helper {k}")
            c.fields["cell_contents"] = samplable(f"random value closed over by helper {k}")
            f = PObj("function", tag=f"helper function {k}")
            f.fields.update(__closure__=(c,), __globals__=ns)
            f.vars = dict(globals=PDict(), nonlocals=PDict([("v", c.fields["cell_contents"])]), builtins=PDict())
            cells.append(c)
            funcs.append(f)
        req = PObj("function", tag="requirement lambda")
        req.fields.update(__closure__=None, __globals__=ns)
        req.vars = dict(globals=PDict([("f0", funcs[0]), ("f1", funcs[1])]), nonlocals=PDict(), builtins=PDict())

        def getclosurevars(fn):
            r = PObj("ClosureVars", tag=f"closure vars of {fn.tag}")
            r.fields.update(globals=PDict(list(zip(fn.vars["globals"].keys, fn.vars["globals"].vals))), nonlocals=PDict(list(zip(fn.vars["nonlocals"].keys, fn.vars["nonlocals"].vals))), builtins=PDict())
            return r

        reg.extra_modules = getattr(reg, "extra_modules", None) or {}
        reg.extra_modules["inspect"] = bm.NativeModule(
            "inspect",
            {"getclosurevars": BuiltinFn("getclosurevars", getclosurevars), "isfunction": BuiltinFn("isfunction", lambda v: isinstance(v, PObj) and v.cls == "function")},
        )
        atom = PObj("Atomic", tag="atomic proposition")
        atom.fields["closure"] = req
        cond = PObj("Proposition", tag="condition")
        cond.fields["atomics"] = BuiltinFn("atomics", lambda: PList([atom]))
        scen = PObj("DynamicScenario", tag="scenario")
        env.vars["_cells"] = cells

        def fresh_self():
            return PObj(repo_class(f"{R}:PendingRequirement"), tag="pending requirement")

        env.vars["_fresh_self"] = fresh_self
        env.vars["_args"] = ["require", cond, 3, 1, None, None, None, scen]
        env.vars.update(self=fresh_self(), ty="require", condition=cond, line=3, prob=1, name=None, ego=None, recConfig=None, scenario=scen)

    def post_pinit(I, env, outcome):
        name = "requirements.PendingRequirement.__init__"
        if outcome[0] != "return":
            return
        run1 = list(env.vars["self"].fields["cells"].items)
        s2 = env.vars["_fresh_self"]()
        I.run_function(target_function(I, f"{R}:PendingRequirement.__init__"), [s2] + env.vars["_args"], {}, _contract_of(reg, f"{R}:PendingRequirement.__init__[cells-order]"))
        run2 = list(s2.fields["cells"].items)
        cells = env.vars["_cells"]
        I.eng.check(f"{name}#ensures.every_cell_of_every_referenced_closure_is_collected", len(run1) == 2 and all(any(c is x for x in run1) for c in cells))
        I.eng.check(f"{name}#deterministic.closure_cells_in_the_same_order_in_every_run", same_sequence(run1, run2), detail=f"run 1: {seq_repr(run1)}; run 2: {seq_repr(run2)}")

    reg.add(
        C.Contract(
            f"{R}:PendingRequirement.__init__",
            params=dict(self=C.Const(None), ty=C.Const(None), condition=C.Const(None), line=C.Const(None), prob=C.Const(None), name=C.Const(None), ego=C.Const(None), recConfig=C.Const(None), scenario=C.Const(None)),
            setup=setup_pinit,
            post=post_pinit,
            inline=["getNameBindings", "getNameBindings.handleFunctions"],
            replay=replay_closure_order,
            bounded=True,
            note="bounded: a requirement whose condition calls two module-level helper functions, each closing over one random value (`inspect.getclosurevars` modelled)",
            properties=("C15",),
        ),
        key=f"{R}:PendingRequirement.__init__[cells-order]",
    )

    # =============================================================================== DynamicScenario._compileRequirements
    def make_dynscen(I, vals):
        """A scenario with two pending requirements whose `compile` delivers ordered dependency collections."""
        sc = PObj(repo_class(f"{DS}:DynamicScenario"), tag="dynamic scenario")
        pend = []
        for k, deps in enumerate(([vals[0], vals[1]], [vals[1], vals[2]])):
            p = PObj("PendingRequirement", tag=f"pending {k}")
            p.fields["ty"] = RT_REQUIRE(I)

            def compile_(namespace, scenario, syntax=None, deps=deps, p=p):
                cr = PObj("CompiledRequirement", tag=f"compiled {p.tag}")
                cr.fields.update(dependencies=ordered_like_compile(I, deps), ty=RT_REQUIRE(I))
                return cr

            p.fields["compile"] = BuiltinFn("compile", compile_)
            pend.append((k, p))
        sc.fields.update(
            _dummyNamespace=PDict([("x", 1)]),
            _requirementSyntax=PList([None, None]),
            _pendingRequirements=PList(pend),
            _requirements=PList(),
            _monitorRequirements=PList(),
            _terminationConditions=PList(),
            _terminateSimulationConditions=PList(),
            _recordedExprs=PList(),
            _recordedInitialExprs=PList(),
            _recordedFinalExprs=PList(),
            _requirementDeps=initial_requirement_deps(I),
        )
        return sc

    def RT_REQUIRE(I):
        return I.get_attr(repo_class(f"{R}:RequirementType"), "require")

    def setup_cr(I, env):
        I.nondet_sets = True
        vals = [samplable(f"random value {x}") for x in "abc"]
        env.vars["_vals"] = vals
        env.vars["self"] = make_dynscen(I, vals)

    def post_cr(I, env, outcome):
        name = "scenarios.DynamicScenario._compileRequirements"
        if outcome[0] != "return":
            return
        vals = env.vars["_vals"]
        run1 = I.iterate(env.vars["self"].fields["_requirementDeps"])
        sc2 = make_dynscen(I, vals)
        I.run_function(target_function(I, f"{DS}:DynamicScenario._compileRequirements"), [sc2], {}, _contract_of(reg, f"{DS}:DynamicScenario._compileRequirements[deps-order]"))
        run2 = I.iterate(sc2.fields["_requirementDeps"])
        I.eng.check(f"{name}#ensures.every_dependency_of_every_requirement_collected_once", len(run1) == 3 and all(any(x is y for y in run1) for x in vals))
        I.eng.check(f"{name}#deterministic.requirement_dependencies_in_the_same_order_in_every_run", same_sequence(run1, run2), detail=f"run 1: {seq_repr(run1)}; run 2: {seq_repr(run2)}")
        I.eng.check(f"{name}#ensures.requirements_registered_in_program_order", [r.tag for r in env.vars["self"].fields["_requirements"].items] == ["compiled pending 0", "compiled pending 1"])

    reg.add(
        C.Contract(
            f"{DS}:DynamicScenario._compileRequirements",
            params=dict(self=C.Const(None)),
            setup=setup_cr,
            post=post_cr,
            inline=["DynamicScenario._registerCompiledRequirement"],
            replay=replay_dependency_order,
            bounded=True,
            note="bounded: two requirements sharing one of three random values; `compile` assumed to deliver an ordered collection (its own contract)",
            properties=("C15",),
        ),
        key=f"{DS}:DynamicScenario._compileRequirements[deps-order]",
    )

    # =============================================================================== Scenario.__init__
    reg.models["scenic.core.external_params:ExternalSampler.forParameters"] = lambda I, params, globalParams: None
    reg.trust("ExternalSampler.forParameters", "stub: no external sampler (external parameters are outside C15's carriers)")
    reg.constructors["scenic.core.sample_checking:WeightedAcceptanceChecker"] = lambda I, cls, args, kwargs: PObj(cls, tag="checker")

    def make_scenario_args(I, vals):
        """Arguments as `DynamicScenario._toScenario` passes them; `requirementDeps` is the tree's own container
        after collecting three random values (in a fixed order, as `_compileRequirements` must deliver)."""
        ego, other = samplable("ego"), samplable("object 1")
        deps = initial_requirement_deps(I)
        upd = I.get_attr(deps, "update")
        I.call_value(upd, [ordered_like_compile(I, vals)])
        return ego, other, deps

    def setup_sinit(I, env):
        I.nondet_sets = True
        vals = [samplable(f"random value {x}") for x in "abc"]
        env.vars["_vals"] = vals
        ego, other, deps = make_scenario_args(I, vals)
        p = samplable("random parameter")
        nsval = samplable("random global used by a behavior")
        dyn = PObj("DynamicScenario", tag="dynamic scenario")
        for f in ("_requirements", "_terminationConditions", "_terminateSimulationConditions", "_recordedExprs", "_recordedInitialExprs", "_recordedFinalExprs"):
            dyn.fields[f] = PList()
        shared = dict(
            workspace=PObj("Workspace", tag="workspace"),
            simulator=None,
            instances=PList([ego, other]),
            objects=PList([ego, other]),
            egoObject=ego,
            params=PDict([("p", p), ("q", 1)]),
            externalParams=(),
            requirements=PList(),
            monitors=(),
            behaviorNamespaces=PDict([("mod", PDict([("g", nsval), ("h", 2)]))]),
            dynamicScenario=dyn,
            astHash=b"hash",
            compileOptions=PObj("CompileOptions", tag="options"),
        )
        env.vars["_shared"] = shared
        env.vars["_expected_prefix"] = [ego, other, p]
        env.vars["_expected_suffix"] = [nsval]

        def fresh_self():
            s = PObj(repo_class(f"{S}:Scenario"), tag="scenario")
            s.fields["generateDefaultRequirements"] = BuiltinFn("generateDefaultRequirements", lambda: ())
            s.fields["setSampleChecker"] = BuiltinFn("setSampleChecker", lambda ch: None)
            return s

        env.vars["_fresh_self"] = fresh_self
        env.vars["self"] = fresh_self()
        for k, v in shared.items():
            env.vars[k] = v
        env.vars["requirementDeps"] = deps

    def post_sinit(I, env, outcome):
        name = "scenarios.Scenario.__init__"
        if outcome[0] != "return":
            return
        vals = env.vars["_vals"]
        run1 = list(env.vars["self"].fields["dependencies"])
        s2 = env.vars["_fresh_self"]()
        _, _, deps2 = make_scenario_args(I, vals)
        sh = env.vars["_shared"]
        args = [s2, sh["workspace"], sh["simulator"], sh["instances"], sh["objects"], sh["egoObject"], sh["params"], sh["externalParams"], sh["requirements"], deps2, sh["monitors"], sh["behaviorNamespaces"], sh["dynamicScenario"], sh["astHash"], sh["compileOptions"]]
        I.run_function(target_function(I, f"{S}:Scenario.__init__"), args, {}, _contract_of(reg, f"{S}:Scenario.__init__[dependencies-order]"))
        run2 = list(s2.fields["dependencies"])
        pre, suf = env.vars["_expected_prefix"], env.vars["_expected_suffix"]
        everything = list(pre) + list(vals) + list(suf)
        ok = len(run1) == len(everything) and all(len([y for y in run1 if y is x]) == 1 for x in everything)
        I.eng.check(f"{name}#ensures.dependencies_are_exactly_instances_random_parameters_requirement_deps_and_random_behavior_globals", ok, detail=seq_repr(run1))
        I.eng.check(f"{name}#deterministic.dependencies_in_the_same_order_in_every_run", same_sequence(run1, run2), detail=f"run 1: {seq_repr(run1)}; run 2: {seq_repr(run2)}")
        I.eng.check(f"{name}#ensures.ego_is_the_first_object_others_keep_their_order", same_sequence(list(env.vars["self"].fields["objects"]), [sh["egoObject"]] + [o for o in sh["objects"].items if o is not sh["egoObject"]]))

    reg.add(
        C.Contract(
            f"{S}:Scenario.__init__",
            params=dict(
                self=C.Const(None),
                workspace=C.Const(None),
                simulator=C.Const(None),
                instances=C.Const(None),
                objects=C.Const(None),
                egoObject=C.Const(None),
                params=C.Const(None),
                externalParams=C.Const(None),
                requirements=C.Const(None),
                requirementDeps=C.Const(None),
                monitors=C.Const(None),
                behaviorNamespaces=C.Const(None),
                dynamicScenario=C.Const(None),
                astHash=C.Const(None),
                compileOptions=C.Const(None),
            ),
            setup=setup_sinit,
            post=post_sinit,
            inline=["_ScenarioPickleMixin.__init__"],
            replay=replay_dependency_order,
            bounded=True,
            note="bounded: two instances, one random parameter, three requirement dependencies, one random behavior global; `requirementDeps` is the container DynamicScenario.__init__ creates in this tree",
            properties=("C15",),
        ),
        key=f"{S}:Scenario.__init__[dependencies-order]",
    )

    # =============================================================================== LazilyEvaluable.__init__
    def setup_lazy(I, env):
        I.nondet_sets = True
        form = I.eng.choose(3, "requiredProps given as set / list with duplicates / tuple")
        props = ["width", "heading", "position"]
        env.vars["requiredProps"] = PSet(props) if form == 0 else PList(props + ["heading"]) if form == 1 else tuple(props)
        deps = [samplable("dependency 0"), samplable("dependency 1")]
        env.vars["dependencies"] = tuple(deps) if I.eng.choose(2, "dependencies as tuple / list") == 0 else PList(deps)
        env.vars["_deps"] = deps
        env.vars["self"] = PObj(repo_class(f"{LE}:LazilyEvaluable"), tag="lazy value")

    def post_lazy(I, env, outcome):
        name = "lazy_eval.LazilyEvaluable.__init__"
        if outcome[0] != "return":
            return
        self = env.vars["self"]
        I.eng.check(f"{name}#deterministic.required_properties_sorted_whatever_the_input_order", self.fields["_requiredProperties"] == ("heading", "position", "width"), detail=repr(self.fields["_requiredProperties"]))
        I.eng.check(f"{name}#ensures.dependencies_keep_the_given_order", same_sequence(list(self.fields["_dependencies"]), env.vars["_deps"]))
        I.eng.check(f"{name}#ensures.flags", self.fields["_needsSampling"] is True and self.fields["_needsLazyEval"] is True and self.fields["_isLazy"] is True)

    reg.add(
        C.Contract(
            f"{LE}:LazilyEvaluable.__init__",
            params=dict(self=C.Const(None), requiredProps=C.Const(None), dependencies=C.Const(None)),
            setup=setup_lazy,
            post=post_lazy,
            replay=replay_required_properties,
            properties=("C15",),
        )
    )

    # =============================================================================== deterministicHash
    def setup_hash(I, env):
        I.nondet_sets = True
        items = [("mode2D", True), ("scenario", "Main"), ("params", PObj("dict", tag="a dict")), (5, 1.5)]
        perms = list(itertools.permutations(range(len(items))))
        k = I.eng.choose(len(perms), "insertion order of the options mapping")
        env.vars["mapping"] = PDict([items[j] for j in perms[k]])
        fed = []
        hasher = PObj("blake2b", tag="hasher")
        hasher.fields["update"] = BuiltinFn("update", lambda b: fed.append(b))
        hasher.fields["digest"] = BuiltinFn("digest", lambda: ("digest of", tuple(fed)))
        env.vars["_fed"] = fed
        reg.extra_modules = getattr(reg, "extra_modules", None) or {}
        reg.extra_modules["hashlib"] = bm.NativeModule("hashlib", {"blake2b": BuiltinFn("blake2b", lambda **k: hasher)})

    def post_hash(I, env, outcome):
        name = "serialization.deterministicHash"
        if outcome[0] != "return":
            return
        want = []
        for key, val in sorted([("mode2D", "True"), ("scenario", "Main"), ("params", None), ("5", "1.5")]):
            want += [b"\0K", ("enc", key), b"\0V", ("enc", val) if val is not None else b"\0"]
        I.eng.check(f"{name}#deterministic.bytes_fed_to_the_hash_do_not_depend_on_insertion_order", env.vars["_fed"] == want, detail=repr(env.vars["_fed"]))

    reg.add(
        C.Contract(
            "scenic.core.serialization:deterministicHash",
            params=dict(mapping=C.Const(None)),
            setup=setup_hash,
            post=post_hash,
            replay=replay_options_hash,
            env={"str": _str_builtin()},
            properties=("C15",),
        ),
        key="scenic.core.serialization:deterministicHash[key-order]",
    )

    # =============================================================================== _generateInner: RNG frame
    class Stream:
        def __init__(self, name):
            self.name, self.pos, self.draws = name, 0, []

        def state(self):
            return ("rng-state", self.name, self.pos)

        def draw(self, I, who):
            self.pos += 1
            self.draws.append((who, self.pos))
            u = I.eng.fresh_real("u")
            I.eng.assume(sv_and(compare(">=", u, 0), compare("<", u, 1)))
            return u

        def setstate(self, I, st):
            if not (isinstance(st, tuple) and len(st) == 3 and st[0] == "rng-state" and st[1] == self.name):
                I.raise_("TypeError", f"state of another generator passed to {self.name}.setstate")
            self.pos = st[2]

    def setup_gen(I, env):
        eng = I.eng
        py, np_ = Stream("random"), Stream("numpy.random")
        env.vars["_py"], env.vars["_np"] = py, np_
        who = ["user"]
        log = []
        env.vars["_log"] = log
        reg.extra_modules = getattr(reg, "extra_modules", None) or {}
        reg.extra_modules["random"] = bm.NativeModule(
            "random",
            {"random": BuiltinFn("random", lambda: py.draw(I, who[0])), "getstate": BuiltinFn("getstate", lambda: py.state()), "setstate": BuiltinFn("setstate", lambda s: py.setstate(I, s))},
        )
        nprand = bm.NativeModule("numpy.random", {"get_state": BuiltinFn("get_state", lambda: np_.state()), "set_state": BuiltinFn("set_state", lambda s: np_.setstate(I, s))})
        reg.extra_modules["numpy"] = bm.NativeModule("numpy", {"random": nprand})

        objs = (samplable("object 0"),)
        sample_calls = []

        def sample_all(I_, quantities):
            log.append(("sampleAll", py.state(), np_.state()))
            py.draw(I, "sampling")
            np_.draw(I, "sampling")
            if eng.choose(2, "sampling rejects?") == 1:
                raise SymRaise(PExc(repo_class(f"{D}:RejectionException"), ("rejected while sampling",)))
            d = PDict([(objs[0], samplable("sampled object 0", needs=False))])
            sample_calls.append(d)
            return d

        reg.models[f"{D}:Samplable.sampleAll"] = sample_all
        reg.models["scenic.core.errors:optionallyDebugRejection"] = lambda I_, *a: None

        def check_requirements(sample):
            log.append(("check:before", py.state(), np_.state()))
            who[0] = "checker"
            for _ in range(eng.choose(3, "draws of random.* by the checker")):
                py.draw(I, "checker")
            for _ in range(eng.choose(2, "draws of numpy.random.* by the checker")):
                np_.draw(I, "checker")
            who[0] = "user"
            log.append(("check:after", py.state(), np_.state()))
            return PObj("Requirement", tag="violated requirement") if eng.choose(2, "a requirement is violated?") == 1 else None

        checker = PObj("Checker", tag="checker")
        checker.fields["checkRequirements"] = BuiltinFn("checkRequirements", check_requirements)
        req = PObj("Requirement", tag="user requirement")
        req.fields["prob"] = eng.fresh_real("req.prob")
        self = PObj(repo_class(f"{S}:Scenario"), tag="scenario")

        def make_scene(sample):
            log.append(("makeScene", py.state(), np_.state()))
            return PObj("Scene", tag="scene")

        self.fields.update(userRequirements=(req,), externalSampler=None, dependencies=objs, objects=objs, checker=checker)
        self.fields["_makeSceneFromSample"] = BuiltinFn("_makeSceneFromSample", make_scene)
        env.vars.update(self=self, maxIterations=2, verbosity=0, feedback=None)

    def post_gen(I, env, outcome):
        name = "scenarios.Scenario._generateInner[rng-frame]"
        log, py, np_ = env.vars["_log"], env.vars["_py"], env.vars["_np"]
        # after every requirement check both generators are back in their pre-check state before anything else happens
        for i, e in enumerate(log):
            if e[0] != "check:before":
                continue
            nxt = [x for x in log[i + 2 :]][:1]
            at_next = nxt[0][1:] if nxt else (py.state(), np_.state())
            I.eng.check(f"{name}#ensures.python_generator_restored_after_requirement_checking", at_next[0] == e[1], detail=f"before the check: {e[1]}, at the next event: {at_next[0]}")
            I.eng.check(f"{name}#ensures.numpy_generator_restored_after_requirement_checking", at_next[1] == e[2], detail=f"before the check: {e[2]}, at the next event: {at_next[1]}")
        # consequently the user-visible stream never contains a position consumed by the checker ...
        user_positions = [p for w, p in py.draws if w != "checker"]
        I.eng.check(f"{name}#ensures.user_visible_draws_are_consecutive", user_positions == list(range(1, len(user_positions) + 1)), detail=repr(py.draws))
        # ... and the final state is the one after the last user-visible draw
        I.eng.check(f"{name}#ensures.final_state_independent_of_checker_draws", py.pos == len(user_positions) and np_.pos == len([1 for w, _ in np_.draws if w != "checker"]))
        if outcome[0] == "return":
            scene, its = outcome[1]
            I.eng.check(f"{name}#ensures.iteration_count_is_number_of_samples_drawn", its == len([e for e in log if e[0] == "sampleAll"]))

    reg.add(
        C.Contract(
            f"{S}:Scenario._generateInner",
            params=dict(self=C.Const(None), maxIterations=C.Const(None), verbosity=C.Const(None), feedback=C.Const(None)),
            setup=setup_gen,
            post=post_gen,
            raises=[C.Raises("RejectionException", mode="may")],
            replay=replay_rng_frame,
            bounded=True,
            note="bounded: at most 2 sampling iterations, checker draws 0-2 values from random and 0-1 from numpy.random per check",
            properties=("C15",),
        ),
        key=f"{S}:Scenario._generateInner[rng-frame]",
    )


class _StrModel:
    """`str(x)` / `str(x).encode()` for the option keys and values of deterministicHash (concrete strings)."""

    def __call__(self, x=""):
        return _EncStr(str(x) if not isinstance(x, PObj) else "<object>")


class _EncStr(str):
    def encode(self, *a):
        return ("enc", str(self))


def _str_builtin():
    b = BuiltinFn("str", _StrModel())
    b.pytype = str
    return b


def _contract_of(reg, key):
    return reg.contracts[key].inline_view() if key in reg.contracts else None


# ----------------------------------------------------------------------------------------------------
# replay drivers (REAL code, fresh subprocesses with different heap histories and hash seeds)

ORDER_SCRIPT = r"""
import sys, random
seed = int(sys.argv[1])
rng = random.Random(seed)
class J:
    def __init__(self): self.x = 1
junk = []
for _ in range(rng.randrange(0, 60000)):
    k = rng.randrange(4)
    junk.append(J() if k == 0 else bytearray(rng.randrange(8, 200)) if k == 1 else [None] * rng.randrange(1, 20) if k == 2 else {})
keep = [j for j in junk if rng.random() < 0.5]
del junk
import scenic, numpy
src = '''
ego = new Object
a = Range(0,1)
R = BoxRegion(dimensions=(Range(1,2),1,1))
S = BoxRegion(dimensions=(Range(1,2),1,1))
T = BoxRegion(dimensions=(Range(1,2),1,1))
U = BoxRegion(dimensions=(Range(1,2),1,1))
V = BoxRegion(dimensions=(Range(1,2),1,1))
W = BoxRegion(dimensions=(Range(1,2),1,1))
require a < 0.3
require R.containsPoint((0,0,0))
require S.containsPoint((0,0,0))
require T.containsPoint((0,0,0))
require U.containsPoint((0,0,0))
require V.containsPoint((0,0,0))
require W.containsPoint((0,0,0))
'''
random.seed(1); numpy.random.seed(1)
sc = scenic.scenarioFromString(src)
ns = sc.dynamicScenario._dummyNamespace
names = {id(ns[k]): k for k in "aRSTUVW"}
order = [names.get(id(d), "") for d in sc.dependencies]
scene, its = sc.generate()
print("ORDER", "".join(order), its)
"""


def replay_dependency_order(inputs, clause):
    """The same program, options and seed in fresh processes that differ only in heap history / hash seed."""
    return _run_order_script(ORDER_SCRIPT, "7 requirement dependencies")


def _run_order_script(script, what):
    import os
    import subprocess
    import sys
    import tempfile
    import time

    with tempfile.NamedTemporaryFile("w", suffix=".py", delete=False) as f:
        f.write(script)
        path = f.name
    procs = []
    for seed in range(3):
        env = dict(os.environ)
        env["PYTHONPATH"] = os.path.join(extract.REPO, "src") + os.pathsep + env.get("PYTHONPATH", "")
        env["PYTHONHASHSEED"] = str(seed)
        procs.append(subprocess.Popen([sys.executable, path, str(seed)], stdout=subprocess.PIPE, stderr=subprocess.PIPE, text=True, env=env))
    outs = []
    deadline = time.time() + 95  # the framework treats a replay that takes 120 s as non-termination: never get there
    try:
        for p in procs:
            o, e = p.communicate(timeout=max(1, deadline - time.time()))
            line = [l for l in o.splitlines() if l.startswith("ORDER")]
            outs.append(line[0] if line else "ERROR " + (e.strip().splitlines()[-1] if e.strip() else ""))
    finally:
        for p in procs:
            if p.poll() is None:
                p.kill()
        os.unlink(path)
    if any(o.startswith("ERROR") for o in outs):
        raise RuntimeError("replay subprocess failed: " + "; ".join(outs))
    if len(set(outs)) > 1:
        orders = sorted({o.split()[1] for o in outs})
        return (
            f"3 fresh processes (same program with {what}, random.seed(1), numpy.random.seed(1); different heap histories / PYTHONHASHSEED) built "
            f"Scenario.dependencies with the requirement values in {len(orders)} different orders {orders}; (order, iterations needed) per process: {sorted(set(o[6:] for o in outs))}"
        )
    return None


CLOSURE_PROGRAM = """
ego = new Object
def mk(v):
    def h():
        return v
    return h
fs = [mk(Range(0, 1)) for i in range(6)]
f0, f1, f2, f3, f4, f5 = fs
require f0() + f1() + f2() + f3() + f4() + f5() < 5.9
"""


def replay_closure_order(inputs, clause):
    """Same idea as replay_dependency_order, for a requirement that calls six helper closures over random values."""
    script = ORDER_SCRIPT.split("import scenic, numpy")[0] + (
        "import scenic, numpy\nsrc = " + repr(CLOSURE_PROGRAM) + "\nrandom.seed(1); numpy.random.seed(1)\nsc = scenic.scenarioFromString(src)\n"
        "ns = sc.dynamicScenario._dummyNamespace\n"
        "cells = {id(ns['f%d' % i].__closure__[0].cell_contents): str(i) for i in range(6)}\n"
        "order = [cells.get(id(d), '') for d in sc.dependencies]\nscene, its = sc.generate()\nprint('ORDER', ''.join(order), its)\n"
    )
    return _run_order_script(script, "a requirement calling 6 helper closures, each over its own random value")


def replay_required_properties(inputs, clause):
    """The REAL LazilyEvaluable.__init__ in processes with different string-hash seeds, and with permuted inputs."""
    import os
    import subprocess
    import sys

    code = "from scenic.core.lazy_eval import LazilyEvaluable as L; print(L({'width', 'heading', 'position', 'yaw', 'parentOrientation'})._requiredProperties, L(['width', 'heading', 'width'])._requiredProperties)"
    outs = set()
    for seed in ("1", "2", "3"):
        env = dict(os.environ)
        env["PYTHONPATH"] = os.path.join(extract.REPO, "src") + os.pathsep + env.get("PYTHONPATH", "")
        env["PYTHONHASHSEED"] = seed
        r = subprocess.run([sys.executable, "-c", code], capture_output=True, text=True, env=env, timeout=90)
        if r.returncode != 0:
            raise RuntimeError(r.stderr[-300:])
        outs.add(r.stdout.strip())
    if len(outs) > 1:
        return f"LazilyEvaluable({{'width','heading','position','yaw','parentOrientation'}})._requiredProperties differs between processes with PYTHONHASHSEED 1, 2, 3: {sorted(outs)}"
    want = "('heading', 'parentOrientation', 'position', 'width', 'yaw') ('heading', 'width')"
    if outs != {want}:
        return f"_requiredProperties is {outs.pop()}, expected the sorted, duplicate-free tuples {want}"
    return None


def replay_options_hash(inputs, clause):
    """The REAL deterministicHash on the same mapping built in different insertion orders."""
    import itertools as it

    from scenic.core.serialization import deterministicHash

    items = [("mode2D", True), ("scenario", "Main"), ("params", {"a": 1}), (5, 1.5)]
    digests = {deterministicHash(dict(p)) for p in it.permutations(items)}
    if len(digests) > 1:
        return f"deterministicHash gives {len(digests)} different digests for the same 4-entry mapping built in different insertion orders"
    return None


def replay_rng_frame(inputs, clause):
    """Real scenario whose checker draws random numbers while checking: the global streams must be unaffected."""
    import random

    import numpy
    import scenic

    src = "ego = new Object at (Range(0, 1), 0)\nother = new Object at (Range(3, 4), Range(3, 4))\nrequire ego.position.x < 0.9\n"
    results = []
    for extra_draws in (0, 3):
        random.seed(7)
        numpy.random.seed(7)
        sc = scenic.scenarioFromString(src)
        real = sc.checker.checkRequirements

        def noisy(sample, real=real, extra=extra_draws):
            for _ in range(extra):
                random.random()
                numpy.random.random()
            return real(sample)

        sc.checker.checkRequirements = noisy
        scene, its = sc.generate()
        results.append((its, scene.egoObject.position.x, random.random(), float(numpy.random.random())))
    if results[0] != results[1]:
        return f"a checker that draws 3 extra values from random / numpy.random while checking changes the outcome: (iterations, ego.x, next random(), next numpy random) = {results[0]} without vs {results[1]} with the extra draws"
    return None
