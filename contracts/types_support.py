"""Sidecar contracts for scenic.core.type_support, the container arms of toDistribution / toLazyValue and
TruncatedNormal (C05).

Oracles (from the property statement and the coercion rules documented for the language, never from the code):
  * a coercion inserted around an expression must not change what the expression evaluates to: for a random value,
    coercing and then sampling gives what sampling and then converting the sample with the documented rule gives
    (same value, or a TypeError in both orders);
  * the static check is sound: a type is only rejected when no value of it could be converted;
  * a plain (non-random) value is converted as the documented rule says (scalars: the number itself; headings: the
    number, the heading of an oriented point, the yaw of an orientation; vectors: 2/3-tuples and lists, `toVector()`);
  * the unifying type of a collection of values is a type every one of them can be used as;
  * a container literal holding a random / lazily evaluated part evaluates to the same container over the sampled /
    context values; static bounds contain every value.
Floats are reals (A1).  Types are explored over a fixed catalogue (contracts marked bounded)."""
import typing

import z3

from pyvc import contracts as C
from pyvc import models_types as MT
from pyvc.interp import BuiltinFn, ClassVal, FuncVal, SymRaise
from pyvc.values import Infinity, Opaque, PDict, PExc, PList, PObj, SV, compare, sv_and, sv_ite, sv_not, sv_or, tobool, toz3

from .common import make_vector, repo_class
from .distributions import identity_map

D = "scenic.core.distributions"
L = "scenic.core.lazy_eval"
TS = "scenic.core.type_support"
VEC = "scenic.core.vectors"
OT = "scenic.core.object_types"
BEH = "scenic.core.dynamics.behaviors"


def exc_name(exc):
    return getattr(exc.cls, "__name__", getattr(exc.cls, "name", str(exc.cls)))


def tname(t):
    return MT.type_name(t)


# ------------------------------------------------------------------------------------------------
# the catalogue of types and the documented coercion rules (the oracle)


class Cat:
    """Built lazily: repository classes need the extractor."""

    _cur = None

    @classmethod
    def get(cls, I=None):
        """One catalogue per interpreter (builtin type objects belong to the interpreter)."""
        if I is not None:
            if getattr(I, "_types_cat", None) is None:
                I._types_cat = cls(I)
            cls._cur = I._types_cat
        return cls._cur

    def __init__(self, I):
        rc = repo_class
        # builtin types as the interpreter's own objects (so that `ty == float` inside the code has its meaning)
        float, int, bool, str, tuple, list, dict, object = (I.builtins.get(n, t) for n, t in (("float", __builtins__["float"]), ("int", __builtins__["int"]), ("bool", __builtins__["bool"]), ("str", __builtins__["str"]), ("tuple", __builtins__["tuple"]), ("list", __builtins__["list"]), ("dict", __builtins__["dict"]), ("object", __builtins__["object"])))
        self.float, self.int, self.bool, self.str, self.tuple, self.list, self.dict, self.object = float, int, bool, str, tuple, list, dict, object
        self.Heading = rc(f"{TS}:Heading")
        self.Vector = rc(f"{VEC}:Vector")
        self.Orientation = rc(f"{VEC}:Orientation")
        self.Point = rc(f"{OT}:Point")
        self.OrientedPoint = rc(f"{OT}:OrientedPoint")
        self.Object = rc(f"{OT}:Object")
        self.Distribution = rc(f"{D}:Distribution")
        self.TupleDistribution = rc(f"{D}:TupleDistribution")
        self.TypeChecker = rc(f"{TS}:TypeChecker")
        self.Typechecked = rc(f"{TS}:TypecheckedDistribution")
        self.DelayedArgument = rc(f"{L}:DelayedArgument")
        self.opt_point = MT.GenAlias(typing.Union, (self.Point, type(None)), "Union[Point, None]")
        self.vec_or_float = MT.GenAlias(typing.Union, (self.Vector, __builtins__["float"]), "Union[Vector, float]")
        self.str_or_none = typing.Union[__builtins__["str"], None]
        self.tuple3 = typing.Tuple[__builtins__["float"], __builtins__["float"], __builtins__["float"]]
        self.list_int = typing.List[__builtins__["int"]]
        # source types of the static check
        self.sources = [float, int, bool, str, tuple, list, dict, object, type(None), self.Heading, self.Vector, self.Orientation, self.Point, self.OrientedPoint, self.Object, self.tuple3, self.list_int, self.opt_point, self.vec_or_float, self.str_or_none]
        self.targets = [float, self.Heading, self.Vector, self.Orientation, self.Point, self.OrientedPoint, str, object]

    # -- the documented rules --------------------------------------------------------------------
    def members(self, t):
        """The classes a value of (possibly parametrised / union) type t may be an instance of."""
        o = MT.get_origin(t)
        if o is typing.Union:
            out = []
            for a in MT.get_args(t):
                out.extend(self.members(a))
            return out
        return [o if o else MT.norm(t)]


def is_sub(I, a, b):
    MT.patch_interp(I)
    return bool(I.is_subclass(a, b))


def has_method(I, cls, name):
    cls = MT.norm(cls)
    if isinstance(cls, ClassVal):
        return I.find_method(cls, name) is not None
    return hasattr(cls, name)


def rule_class(I, a, target):
    """Documented rule: can values that are instances of class `a` be converted to `target`?"""
    import numbers

    cat = Cat.get()
    target = MT.norm(target)
    scalar = is_sub(I, a, numbers.Real)
    if target is float:
        return scalar
    if target is cat.Heading:
        return scalar or has_method(I, a, "toHeading") or is_sub(I, a, cat.Orientation)
    if target is cat.Vector:
        return is_sub(I, a, cat.Vector) or is_sub(I, a, tuple) or is_sub(I, a, list) or has_method(I, a, "toVector")
    if target is cat.Orientation:
        return is_sub(I, a, cat.Orientation) or scalar or is_sub(I, a, (tuple, list)) or is_sub(I, a, cat.Vector) or has_method(I, a, "toOrientation")
    return is_sub(I, a, target)


def rule_type(I, t, target):
    """A static type is acceptable iff at least one of the classes its values may have is convertible."""
    return any(rule_class(I, m, target) for m in Cat.get().members(t))


def install_common(reg):
    MT.install(reg)
    from pyvc.builtins_model import NativeModule

    xm = getattr(reg, "extra_modules", None) or {}
    xm.setdefault("warnings", NativeModule("warnings", {"warn": BuiltinFn("warnings.warn", lambda *a, **k: None)}))
    reg.extra_modules = xm
    reg.models[f"scenic.syntax.veneer:verbosePrint"] = lambda I, *a, **k: None
    reg.models[f"scenic.core.errors:saveErrorLocation"] = lambda I: PObj("Location", tag="saved location")
    reg.trust("typing.get_origin / get_args, inspect.getmro / isabstract, issubclass against numbers.Real (pyvc/models_types.py)", "library models: Python's own functions on Python types; on repository classes the MRO computed from the class statements, no ABC registration, a repository class is a Real iff a builtin base is")
    reg.trust("errors.saveErrorLocation, veneer.verbosePrint (type_support)", "stubs: an opaque location token / no output")


def unstub(reg, *names):
    """The lifting contracts replace the type layer by stubs; here it is the code under verification."""
    for n in names:
        reg.models.pop(f"{TS}:{n}", None)


TS_ALL = ["underlyingType", "unifyingType", "unifierOfTypes", "canCoerceType", "canCoerce", "coerce", "toScalar", "toVector", "toHeading", "toOrientation", "toType", "toTypes", "coerceToAny", "isA"]


def register(reg):
    install_common(reg)
    register_static(reg)
    register_coercion(reg)
    register_unifier(reg)
    register_containers(reg)
    register_truncated(reg)


# ------------------------------------------------------------------------------------------------
# (1) canCoerceType / underlyingType / unifierOfTypes / unifyingType over the catalogue


def register_static(reg):
    # ---------------------------------------------------------------- canCoerceType
    def setup_cct(I, env):
        eng, cat = I.eng, Cat.get(I)
        MT.patch_interp(I)
        unstub(reg, *TS_ALL)
        a = cat.sources[eng.choose(len(cat.sources), "typeA")]
        b = cat.targets[eng.choose(len(cat.targets), "typeB")]
        env.vars.update(typeA=a, typeB=b)
        eng.input_syms.append(("typeA", C.Const(None), tname(a)))
        eng.input_syms.append(("typeB", C.Const(None), tname(b)))

    def post_cct(I, env, outcome):
        eng = I.eng
        name = "type_support.canCoerceType"
        a, b = env.vars["typeA"], env.vars["typeB"]
        if outcome[0] != "return":
            return
        want = rule_type(I, a, b)
        got = outcome[1]
        eng.check(f"{name}#ensures.a_type_whose_values_can_be_converted_is_accepted", (not want) or got is True, detail=f"{tname(a)} -> {tname(b)}")
        eng.check(f"{name}#ensures.a_type_none_of_whose_values_can_be_converted_is_rejected", want or got is False, detail=f"{tname(a)} -> {tname(b)}")

    reg.add(
        C.Contract(
            f"{TS}:canCoerceType",
            params=dict(typeA=C.Const(None), typeB=C.Const(None)),
            setup=setup_cct,
            post=post_cct,
            inline=["canCoerceType", "Vector._canCoerceType", "Orientation._canCoerceType"],
            replay=replay_can_coerce_type,
            properties=("C05",),
            bounded=True,
            note="catalogue of 20 source types (builtins, repository classes, parametrised and union types) x 8 target types",
        ),
        key=f"{TS}:canCoerceType[verify]",
    )


def _real_types():
    import typing as t

    from scenic.core.object_types import Object, OrientedPoint, Point
    from scenic.core.type_support import Heading
    from scenic.core.vectors import Orientation, Vector

    return {
        "float": float, "int": int, "bool": bool, "str": str, "tuple": tuple, "list": list, "dict": dict, "object": object, "NoneType": type(None),
        "Heading": Heading, "Vector": Vector, "Orientation": Orientation, "Point": Point, "OrientedPoint": OrientedPoint, "Object": Object,
        "Tuple[float, float, float]": t.Tuple[float, float, float], "List[int]": t.List[int], "Union[Point, None]": t.Union[Point, None],
        "Union[Vector, float]": t.Union[Vector, float], "Optional[str]": t.Union[str, None], "Union[str, None]": t.Union[str, None],
    }


def _real_rule(a, target):
    """The documented rule on real Python types (replay side)."""
    import numbers
    import typing as t

    from scenic.core.type_support import Heading
    from scenic.core.vectors import Orientation, Vector

    o = t.get_origin(a)
    if o is t.Union:
        return any(_real_rule(m, target) for m in t.get_args(a))
    a = o if o else a
    scalar = issubclass(a, numbers.Real)
    if target is float:
        return scalar
    if target is Heading:
        return scalar or hasattr(a, "toHeading") or issubclass(a, Orientation)
    if target is Vector:
        return issubclass(a, (Vector, tuple, list)) or hasattr(a, "toVector")
    if target is Orientation:
        return issubclass(a, (Orientation, tuple, list, Vector)) or scalar or hasattr(a, "toOrientation")
    return issubclass(a, target)


def replay_can_coerce_type(inputs, clause):
    from scenic.core.type_support import canCoerceType

    T = _real_types()
    pairs = [(inputs.get("typeA"), inputs.get("typeB"))] + [(a, b) for a in T for b in ("float", "Heading", "Vector", "Orientation", "Point", "str", "object")]
    for an, bn in pairs:
        if an not in T or bn not in T:
            continue
        a, b = T[an], T[bn]
        try:
            got = canCoerceType(a, b)
        except Exception as e:
            return f"canCoerceType({an}, {bn}) raised {type(e).__name__}: {e}"
        want = _real_rule(a, b)
        if bool(got) != want:
            return f"canCoerceType({an}, {bn}) = {got!r}; by the documented coercion rules values of {an} {'can' if want else 'cannot'} be converted to {bn}"
    return None


# ------------------------------------------------------------------------------------------------
# (2) coercion commutes with sampling: toType / toScalar / toHeading / toVector on plain and on random values

VALUE_KINDS = ["float", "int", "tuple of 2", "tuple of 3", "tuple of 4", "list of 3", "Vector", "Orientation", "OrientedPoint", "Point", "str"]
MODES = ["plain value", "random value, declared type = type of the sample", "random value, declared type object"]
CHAIN = ["toType", "toTypes", "coerceToAny", "canCoerce", "canCoerceType", "underlyingType", "coerce", "coerceToFloat", "coerceToHeading", "toDistribution", "Vector._coerce", "Vector._canCoerceType", "Vector.toVector", "Orientation._canCoerceType", "Point.toVector", "OrientedPoint.toHeading", "OrientedPoint.toOrientation", "TypecheckedDistribution.__init__", "TypecheckedDistribution.sampleGiven", "DefaultIdentityDict.__getitem__", "needsLazyEvaluation", "isLazy"]


def make_value(I, kind, eng):
    """(value, its type, data for the oracle)"""
    cat = Cat.get(I)
    x, y, z, w, h = (eng.fresh_real(n) for n in ("x", "y", "z", "w", "h"))
    for n, v in zip("xyzwh", (x, y, z, w, h)):
        eng.input_syms.append((n, C.Real(), v))
    data = dict(x=x, y=y, z=z, w=w, h=h)
    if kind == "float":
        return x, float, data
    if kind == "int":
        n = eng.fresh_int("n")
        eng.input_syms.append(("n", C.Int(), n))
        data["n"] = n
        return n, int, data
    if kind == "tuple of 2":
        return (x, y), tuple, data
    if kind == "tuple of 3":
        return (x, y, z), tuple, data
    if kind == "tuple of 4":
        return (x, y, z, w), tuple, data
    if kind == "list of 3":
        return PList([x, y, z]), list, data
    vec = make_vector(x, y, z)
    data["vec"] = vec
    if kind == "Vector":
        return vec, cat.Vector, data
    ori = PObj(cat.Orientation, tag="an orientation")
    ori.fields.update(yaw=h, _needsLazyEval=False, _needsSampling=False, _isLazy=False, _dependencies=(), _requiredProperties=())
    data["ori"] = ori
    if kind == "Orientation":
        return ori, cat.Orientation, data
    if kind in ("OrientedPoint", "Point"):
        cls = cat.OrientedPoint if kind == "OrientedPoint" else cat.Point
        o = PObj(cls, tag=f"a {kind}")
        o.fields.update(position=vec, _needsLazyEval=False, _needsSampling=False, _isLazy=False, _dependencies=(), _requiredProperties=())
        if kind == "OrientedPoint":
            o.fields.update(heading=h, orientation=ori)
        return o, cls, data
    return "abc", str, data


def spec_convert(I, kind, value, data, target):
    """The documented conversion of a VALUE: None when the value cannot be converted, else a predicate on the result."""
    cat = Cat.get(I)
    target = MT.norm(target)
    num = lambda want: (lambda r: isinstance(r, (SV, int, float)) and not isinstance(r, bool) and compare("==", r, want))
    same = lambda want: (lambda r: r is want)

    def vec(*cs):
        def ok(r):
            if not (isinstance(r, PObj) and r.cls is cat.Vector):
                return False
            got = r.fields["coordinates"]
            return len(got) == 3 and sv_and(*[compare("==", g, c) for g, c in zip(got, cs)])

        return ok

    if target is float:
        return num(value) if kind in ("float", "int") else None
    if target is cat.Heading:
        if kind in ("float", "int"):
            return num(value)
        if kind in ("OrientedPoint", "Orientation"):
            return num(data["h"])
        return None
    if target is cat.Vector:
        if kind == "Vector":
            return same(value)
        if kind == "tuple of 2":
            return vec(data["x"], data["y"], 0)
        if kind in ("tuple of 3", "list of 3"):
            return vec(data["x"], data["y"], data["z"])
        if kind in ("OrientedPoint", "Point"):
            return same(data["vec"])
        return None
    # an ordinary class: only its instances
    if isinstance(value, PObj) and is_sub(I, value.cls, target):
        return same(value)
    return None


def random_of(cat, vt, tag="random value"):
    o = PObj(cat.Distribution, tag=tag)
    o.fields.update(_valueType=vt, _isLazy=True, _needsSampling=True, _needsLazyEval=False, _dependencies=(), _requiredProperties=())
    o.fields["_conditioned"] = o
    return o


def register_coercion(reg):
    from .common import install_distribution_stubs

    install_distribution_stubs(reg)
    holder = {}

    def make(entry, target_of, short):
        """entry: name of the carrier in type_support; target_of(cat) -> list of target types explored."""

        def setup(I, env):
            eng, cat = I.eng, Cat.get(I)
            MT.patch_interp(I)
            unstub(reg, *TS_ALL)
            targets = target_of(cat)
            target = targets[eng.choose(len(targets), "target type")] if len(targets) > 1 else targets[0]
            kind = VALUE_KINDS[eng.choose(len(VALUE_KINDS), "kind of value")]
            mode = eng.choose(len(MODES), "mode")
            value, vtype, data = make_value(I, kind, eng)
            thing = value if mode == 0 else random_of(cat, vtype if mode == 1 else cat.object)
            env.vars["thing"] = thing
            if entry == "toType":
                env.vars["ty"] = target
            env.vars.update(_target=target, _kind=kind, _mode=mode, _value=value, _data=data)
            eng.input_syms.append(("target", C.Const(None), tname(target)))
            eng.input_syms.append(("value", C.Const(None), kind))
            eng.input_syms.append(("mode", C.Const(None), MODES[mode]))

        def post(I, env, outcome):
            eng, cat = I.eng, Cat.get(I)
            v = env.vars
            target, kind, mode, value, data, thing = v["_target"], v["_kind"], v["_mode"], v["_value"], v["_data"], v["thing"]
            want = spec_convert(I, kind, value, data, target)
            det = f"{kind} -> {tname(target)} ({MODES[mode]})"
            if outcome[0] == "raise":
                if exc_name(outcome[1]) != "TypeError":
                    return  # reported as no-unexpected-exception
                eng.check(f"{short}#raises.TypeError_only_for_a_value_that_cannot_be_converted", want is None, detail=det)
                return
            res = outcome[1]
            if mode == 0:
                eng.check(f"{short}#ensures.a_value_that_cannot_be_converted_is_refused", want is not None, detail=det)
                if want is not None:
                    eng.check(f"{short}#ensures.a_plain_value_is_converted_as_documented", want(res), detail=det)
                return
            # random value: sample the result with `thing` sampled as `value`
            if res is thing:
                sampled = ("return", value)
            elif isinstance(res, PObj) and res.cls is cat.Typechecked:
                fn = I.find_method(res.cls, "sampleGiven")
                try:
                    sampled = ("return", I.run_function(fn, [res, identity_map(I, [(thing, value)])], {}, holder[entry].inline_view()))
                except SymRaise as sr:
                    sampled = ("raise", sr.exc)
            else:
                eng.check(f"{short}#ensures.a_random_value_stays_a_random_value_over_the_same_operand", False, detail=f"{det}: got {res!r}")
                return
            if sampled[0] == "raise":
                ok = exc_name(sampled[1]) == "TypeError"
                eng.check(f"{short}#ensures.sampling_raises_only_TypeError", ok, detail=f"{det}: {exc_name(sampled[1])}{sampled[1].args!r}")
                eng.check(f"{short}#ensures.coerce_then_sample_fails_only_if_sample_then_coerce_fails", want is None, detail=det)
                return
            eng.check(f"{short}#ensures.coerce_then_sample_succeeds_only_if_sample_then_coerce_succeeds", want is not None, detail=det)
            if want is not None:
                eng.check(f"{short}#ensures.coerce_then_sample_equals_sample_then_coerce", want(sampled[1]), detail=det)

        params = dict(thing=C.Const(None))
        if entry == "toType":
            params["ty"] = C.Const(None)
        c = C.Contract(
            f"{TS}:{entry}",
            params=params,
            setup=setup,
            post=post,
            raises=[C.Raises("TypeError", mode="may")],
            inline=CHAIN + [entry],
            replay=make_replay_coercion(entry),
            properties=("C05",),
            bounded=True,
            note="11 kinds of value (numbers, tuples/lists of length 2-4, Vector, Orientation, Point, OrientedPoint, str) with symbolic real data, plain / random with exact declared type / random with declared type object",
        )
        holder[entry] = c
        reg.add(c, key=f"{TS}:{entry}[verify]")

    make("toType", lambda cat: [cat.float, cat.Heading, cat.Vector, cat.Point, cat.OrientedPoint], "type_support.toType")
    make("toScalar", lambda cat: [cat.float], "type_support.toScalar")
    make("toHeading", lambda cat: [cat.Heading], "type_support.toHeading")
    make("toVector", lambda cat: [cat.Vector], "type_support.toVector")


def make_replay_coercion(entry):
    def replay(inputs, clause):
        import scenic.core.type_support as ts
        from scenic.core.distributions import Options, Samplable
        from scenic.core.object_types import OrientedPoint, Point
        from scenic.core.vectors import Orientation, Vector

        def num(name, dflt):
            try:
                return float(inputs.get(name, dflt))
            except (TypeError, ValueError):
                return dflt

        x, y, z, w, h = num("x", 1.5), num("y", -2.0), num("z", 0.25), num("w", 4.0), num("h", 0.75)
        n = int(num("n", 3))
        T = {"float": float, "Heading": ts.Heading, "Vector": Vector, "Point": Point, "OrientedPoint": OrientedPoint}
        entry_target = {"toScalar": "float", "toHeading": "Heading", "toVector": "Vector"}

        def values():
            vec = Vector(x, y, z)
            return {
                "float": x, "int": n, "tuple of 2": (x, y), "tuple of 3": (x, y, z), "tuple of 4": (x, y, z, w), "list of 3": [x, y, z], "Vector": vec,
                "Orientation": Orientation.fromEuler(h, 0, 0), "OrientedPoint": OrientedPoint._with(position=vec, yaw=h), "Point": Point._with(position=vec), "str": "abc",
            }

        def call(thing, tn):
            if entry == "toType":
                return ts.toType(thing, T[tn])
            return getattr(ts, entry)(thing)

        def show(r):
            return f"{type(r).__name__} {r!r}"

        def close(a, b):
            try:
                if isinstance(a, Vector) or isinstance(b, Vector):
                    return isinstance(a, Vector) and isinstance(b, Vector) and all(abs(p - q) < 1e-9 for p, q in zip(a, b))
                if isinstance(a, (int, float)) and isinstance(b, (int, float)):
                    return abs(float(a) - float(b)) < 1e-9
                if isinstance(a, Point) and isinstance(b, Point):  # sampling an object makes a copy
                    return type(a) is type(b) and all(abs(p - q) < 1e-9 for p, q in zip(a.position, b.position))
                return a is b or a == b
            except Exception:
                return False

        want_t, want_k = inputs.get("target"), inputs.get("value")
        tns = [entry_target[entry]] if entry in entry_target else ([want_t] if want_t in T else []) + [t for t in T if t != want_t]
        kinds = ([want_k] if want_k in VALUE_KINDS else []) + [k for k in VALUE_KINDS if k != want_k]
        for tn in tns:
            for kind in kinds:
                val = values()[kind]
                # sample-then-coerce (the reference: ordinary conversion of the sampled value)
                try:
                    ref = ("ok", call(val, tn))
                except TypeError as e:
                    ref = ("TypeError", str(e))
                except Exception as e:
                    return f"{entry}({kind} {val!r}) for target {tn} raised {type(e).__name__}: {e}"
                for declared in ("exact", "object"):
                    other = values()[kind]
                    rnd = Options([val, other])  # both options are equal values of the same kind
                    if declared == "object":
                        rnd._valueType = object
                    try:
                        lifted = call(rnd, tn)
                        got = ("ok", Samplable.sampleAll([lifted])[lifted] if isinstance(lifted, Samplable) else lifted)
                    except TypeError as e:
                        got = ("TypeError", str(e))
                    except Exception as e:
                        return f"{entry}(random {kind}, declared {declared}) for target {tn} raised {type(e).__name__}: {e}"
                    if ref[0] != got[0]:
                        return f"target {tn}, value {kind} {val!r}: converting the plain value gives {ref[0]} {show(ref[1]) if ref[0] == 'ok' else ref[1]}, but coercing a random value (declared type {declared}) that samples to it and then sampling gives {got[0]} {show(got[1]) if got[0] == 'ok' else got[1]}"
                    if ref[0] == "ok" and not close(ref[1], got[1]):
                        return f"target {tn}, value {kind} {val!r}: sample-then-coerce gives {show(ref[1])}, coerce-then-sample gives {show(got[1])}"
        return None

    return replay


# ------------------------------------------------------------------------------------------------
# (3) unifierOfTypes / unifyingType / underlyingType


def register_unifier(reg):
    def usable_as(I, m, r):
        import numbers

        # type parameters are not checked; a value can be used as a union type if it can be used as one member
        for r0 in Cat.get(I).members(r):
            if (r0 is float and is_sub(I, m, numbers.Real)) or (MT.is_class(r0) and is_sub(I, m, r0)):
                return True
        return False

    def pool(cat):
        return [cat.float, cat.int, cat.bool, cat.str, cat.Heading, cat.Vector, cat.Point, cat.OrientedPoint, cat.Object, cat.tuple3, cat.list_int, cat.opt_point, cat.str_or_none]

    def setup_u(I, env):
        eng, cat = I.eng, Cat.get(I)
        MT.patch_interp(I)
        unstub(reg, *TS_ALL)
        ts = pool(cat)
        a = ts[eng.choose(len(ts), "first type")]
        b = ts[eng.choose(len(ts), "second type")]
        env.vars.update(types=PList([a, b]), _a=a, _b=b)
        eng.input_syms.append(("first", C.Const(None), tname(a)))
        eng.input_syms.append(("second", C.Const(None), tname(b)))

    def post_u(I, env, outcome):
        eng, cat = I.eng, Cat.get(I)
        name = "type_support.unifierOfTypes"
        if outcome[0] != "return":
            return
        a, b, r = env.vars["_a"], env.vars["_b"], outcome[1]
        det = f"unifier of {tname(a)} and {tname(b)} = {tname(r)}"
        for which, t in (("first", a), ("second", b)):
            eng.check(f"{name}#ensures.every_value_of_the_{which}_type_can_be_used_as_the_unifier", all(usable_as(I, m, r) for m in cat.members(t)), detail=det)
        if a is b:
            eng.check(f"{name}#ensures.equal_types_unify_to_themselves", r is a, detail=det)
        elif MT.is_class(MT.norm(a)) and MT.is_class(MT.norm(b)) and MT.norm(r) is not float:
            for sub, sup in ((a, b), (b, a)):
                if is_sub(I, MT.norm(sub), MT.norm(sup)):
                    eng.check(f"{name}#ensures.a_class_and_its_subclass_unify_to_the_class", MT.norm(r) is MT.norm(sup), detail=det)

    reg.add(
        C.Contract(f"{TS}:unifierOfTypes", params=dict(types=C.Const(None)), setup=setup_u, post=post_u, inline=["unifierOfTypes"], replay=replay_unifier, properties=("C05",), bounded=True, note="all ordered pairs over 13 types (builtins, Heading, Vector, Point, OrientedPoint, Object, parametrised and union types)"),
        key=f"{TS}:unifierOfTypes[verify]",
    )

    # ---------------------------------------------------------------- unifyingType / underlyingType
    KINDS = ["plain float", "plain Vector", "random value", "type checker with one type", "type checker with two types", "starred random tuple"]

    def make_opt(I, eng, which, kind):
        cat = Cat.get(I)
        if kind == 0:
            return eng.fresh_real(f"{which}.x"), float
        if kind == 1:
            return make_vector(1, 2, 3), cat.Vector
        if kind == 2:
            vt = [cat.float, cat.Vector, cat.opt_point][eng.choose(3, f"{which} declared type")]
            return random_of(cat, vt, tag=f"{which} random"), vt
        if kind in (3, 4):
            tc = PObj(cat.TypeChecker, tag=f"{which} type checker")
            types = (cat.Vector,) if kind == 3 else (cat.Vector, cat.float)
            tc.fields.update(types=types, _needsLazyEval=True, _isLazy=True, _needsSampling=False, _dependencies=(), _requiredProperties=("p",))
            return tc, (cat.Vector if kind == 3 else cat.object)
        st = PObj(repo_class(f"{D}:StarredDistribution"), tag=f"{which} starred")
        st.fields.update(_valueType=cat.tuple3, _isLazy=True, _needsSampling=True, _needsLazyEval=False, _dependencies=(), _requiredProperties=())
        return st, cat.tuple3

    def setup_ut(I, env):
        eng = I.eng
        MT.patch_interp(I)
        unstub(reg, *TS_ALL)
        k = eng.choose(len(KINDS), "kind of value")
        thing, want = make_opt(I, eng, "value", k)
        env.vars.update(thing=thing, _want=want, _k=k)
        eng.input_syms.append(("kind", C.Const(None), KINDS[k]))

    def post_ut(I, env, outcome):
        eng = I.eng
        if outcome[0] != "return":
            return
        want, got = MT.norm(env.vars["_want"]), MT.norm(outcome[1])
        eng.check("type_support.underlyingType#ensures.the_declared_type_of_a_random_or_checked_value_and_the_class_of_a_plain_value", got is want, detail=f"{KINDS[env.vars['_k']]}: {tname(got)}, expected {tname(want)}")

    reg.add(C.Contract(f"{TS}:underlyingType", params=dict(thing=C.Const(None)), setup=setup_ut, post=post_ut, replay=replay_underlying, properties=("C05",), bounded=True, note="6 kinds of value"), key=f"{TS}:underlyingType[verify]")

    def setup_uy(I, env):
        eng, cat = I.eng, Cat.get(I)
        MT.patch_interp(I)
        unstub(reg, *TS_ALL)
        ka = eng.choose(len(KINDS), "first option")
        kb = eng.choose(len(KINDS), "second option")
        a, ta = make_opt(I, eng, "first", ka)
        b, tb = make_opt(I, eng, "second", kb)
        env.vars.update(opts=(a, b), _ts=(ta, tb), _ks=(ka, kb))
        eng.input_syms.append(("first", C.Const(None), KINDS[ka]))
        eng.input_syms.append(("second", C.Const(None), KINDS[kb]))

    def post_uy(I, env, outcome):
        eng, cat = I.eng, Cat.get(I)
        if outcome[0] != "return":
            return
        r = outcome[1]
        for which, t, k in zip(("first", "second"), env.vars["_ts"], env.vars["_ks"]):
            # a starred tuple contributes its element types
            ms = [MT.norm(x) for x in MT.get_args(t)] if k == 5 else cat.members(t)
            eng.check(f"type_support.unifyingType#ensures.every_value_of_the_{which}_option_can_be_used_as_the_unifier", all(usable_as(I, m, r) for m in ms), detail=f"{KINDS[env.vars['_ks'][0]]} / {KINDS[env.vars['_ks'][1]]} -> {tname(r)}")

    reg.add(
        C.Contract(f"{TS}:unifyingType", params=dict(opts=C.Const(None)), setup=setup_uy, post=post_uy, inline=["unifyingType", "unifierOfTypes", "underlyingType"], replay=replay_unifier, properties=("C05",), bounded=True, note="all ordered pairs over 6 kinds of option (random values with 3 declared types)"),
        key=f"{TS}:unifyingType[verify]",
    )


def replay_unifier(inputs, clause):
    import numbers
    import typing as t

    from scenic.core.distributions import distributionFunction, Range
    from scenic.core.type_support import unifierOfTypes, unifyingType

    T = _real_types()
    names = ["float", "int", "bool", "str", "Heading", "Vector", "Point", "OrientedPoint", "Object", "Tuple[float, float, float]", "List[int]", "Union[Point, None]", "Union[str, None]"]

    def members(x):
        o = t.get_origin(x)
        if o is t.Union:
            return [m for a in t.get_args(x) for m in members(a)]
        return [o if o else x]

    first = [(inputs.get("first"), inputs.get("second"))]
    for an, bn in first + [(a, b) for a in names for b in names]:
        if an not in T or bn not in T:
            continue
        try:
            r = unifierOfTypes([T[an], T[bn]])
        except Exception as e:
            return f"unifierOfTypes([{an}, {bn}]) raised {type(e).__name__}: {e} (e.g. Uniform(f(X), v) where f is declared to return {an} and v is a {bn})"
        rs = members(r)  # type parameters are not checked; a union is usable as any of its members
        for x in (T[an], T[bn]):
            for m in members(x):
                if not any((r0 is float and issubclass(m, numbers.Real)) or (isinstance(r0, type) and issubclass(m, r0)) for r0 in rs):
                    return f"unifierOfTypes([{an}, {bn}]) = {r!r}, but values of {m!r} are not values of it"
    return None


def replay_underlying(inputs, clause):
    from scenic.core.distributions import Options, Range
    from scenic.core.type_support import TypeChecker, underlyingType
    from scenic.core.lazy_eval import DelayedArgument
    from scenic.core.vectors import Vector

    da = DelayedArgument(("p",), lambda c: 1, _internal=True)
    cases = [(1.5, float), (Vector(1, 2, 3), Vector), (Range(0, 1), float), (Options([Vector(1, 2), Vector(3, 4)]), Vector), (TypeChecker(da, (Vector,), "e"), Vector), (TypeChecker(da, (Vector, float), "e"), object)]
    for thing, want in cases:
        got = underlyingType(thing)
        if got is not want:
            return f"underlyingType({thing!r}) = {got!r}, expected {want!r}"
    return None


# ------------------------------------------------------------------------------------------------
# (4) toDistribution on namedtuples and dicts


def register_containers(reg):
    def rnd(tag):
        o = PObj("RandomValue", tag=tag)
        o.fields.update(_isLazy=True, _needsSampling=True, _needsLazyEval=False, _dependencies=(), _requiredProperties=())
        return o

    KINDS = ["namedtuple with a random field", "namedtuple of constants", "dict with a random value", "dict of constants", "tuple holding a dict with a random value"]

    class NTClass:  # the model of a namedtuple class: `_make` builds an instance from an iterable
        name = "NT"

    def setup_td(I, env):
        eng = I.eng
        kind = eng.choose(len(KINDS), "kind of container")
        r, c0, c1 = rnd("random element"), eng.fresh_real("c0"), PObj("Known", tag="c1")
        if kind in (0, 1):
            val = NamedTupleVal(c0, r if kind == 0 else c1)
        elif kind in (2, 3):
            val = PDict([("a", c0), ("b", r if kind == 2 else c1)])
        else:
            val = (c0, PDict([("k", r)]))
        env.vars.update(val=val, _kind=kind, _r=r, _c0=c0, _c1=c1)
        eng.input_syms.append(("kind", C.Const(None), KINDS[kind]))

    def lazy_flag(x):
        return isinstance(x, PObj) and bool(x.fields.get("_isLazy", False))

    def post_td(I, env, outcome):
        eng = I.eng
        name = "distributions.toDistribution"
        if outcome[0] != "return":
            return
        v = env.vars
        kind, val, res, r, c0 = v["_kind"], v["val"], outcome[1], v["_r"], v["_c0"]
        if kind in (1, 3):
            eng.check(f"{name}#ensures.a_container_without_random_parts_is_returned_unchanged", res is val)
        elif kind == 0:
            ok = isinstance(res, PObj) and getattr(res.cls, "name", None) == "TupleDistribution" and "_ctor" in res.fields
            eng.check(f"{name}#ensures.a_namedtuple_with_a_random_field_becomes_a_random_value_over_its_fields_in_order", ok and len(tuple(res.fields["_ctor"]["coordinates"])) == 2 and tuple(res.fields["_ctor"]["coordinates"])[0] is c0 and tuple(res.fields["_ctor"]["coordinates"])[1] is r)
            if ok:
                b = res.fields["_ctor"]["builder"]
                try:
                    built = I.call_value(b, [(c0, c0)])
                except (SymRaise, TypeError) as sr:  # TypeError: the namedtuple class called with one argument
                    built = sr
                eng.check(f"{name}#ensures.its_samples_are_rebuilt_as_the_same_namedtuple_class", isinstance(built, NamedTupleVal) and tuple(built) == (c0, c0), detail=repr(built))
        else:
            # the random part must be sampled: the container has to become a random value depending on it
            eng.check(f"{name}#ensures.a_dict_with_a_random_value_becomes_a_random_value_depending_on_it", lazy_flag(res) and res is not val, detail=f"{KINDS[kind]}: returned {type(res).__name__}")

    prev_ga = reg.getattr_fallback

    def getattr_fb(I, obj, name):
        if isinstance(obj, NamedTupleVal):
            if name == "_fields":
                return ("a", "b")
            I.raise_("AttributeError", name)
        if obj is NamedTupleVal and name == "_make":
            return BuiltinFn("NT._make", lambda it: NamedTupleVal(*I.iterate(it)))
        if prev_ga is not None:
            return prev_ga(I, obj, name)
        from pyvc.values import PyvcError

        raise PyvcError(f"attribute {name!r} of {obj!r} not modelled (line {I.lineno})")

    reg.getattr_fallback = getattr_fb
    from .lifting import record_ctor

    for cn in ("TupleDistribution", "FunctionDistribution"):
        reg.constructors.setdefault(f"{D}:{cn}", record_ctor)

    reg.add(
        C.Contract(f"{D}:toDistribution", params=dict(val=C.Const(None)), setup=setup_td, post=post_td, inline=["toDistribution", "isLazy"], replay=replay_to_distribution_containers, properties=("C05",), bounded=True, note="namedtuple of 2 fields, dict of 2 items, tuple holding a dict"),
        key=f"{D}:toDistribution[namedtuples and dicts]",
    )


class NamedTupleVal(tuple):
    """Model of an instance of a namedtuple class with fields (a, b): the class takes the fields as separate
    arguments (like a real namedtuple class); `_make` takes one iterable."""

    _fields = ("a", "b")

    def __new__(cls, a, b):
        return tuple.__new__(cls, (a, b))

    @classmethod
    def _make(cls, it):
        return cls(*it)


def replay_to_distribution_containers(inputs, clause):
    import collections

    import scenic.core.distributions as d

    NT = collections.namedtuple("NT", ["a", "b"])
    r = d.Range(0, 1)
    for val in (NT(1, 2), {"a": 1, "b": 2}):
        if d.toDistribution(val) is not val:
            return f"toDistribution({val!r}) is not the value itself"
    t = d.toDistribution(NT(1.5, r))
    if not isinstance(t, d.TupleDistribution):
        return f"toDistribution(NT(1.5, random)) = {t!r}"
    try:
        s = d.Samplable.sampleAll([t])[t]
    except Exception as e:
        return f"sampling toDistribution(NT(1.5, Range(0, 1))) raised {type(e).__name__}: {e}"
    if type(s) is not NT or s.a != 1.5 or not (0 <= s.b <= 1):
        return f"NT(1.5, Range(0, 1)) sampled as {s!r}"
    for val, get in (({"a": 1.5, "b": r}, lambda x: x["b"]), ((1.5, {"k": r}), lambda x: x[1]["k"])):
        t = d.toDistribution(val)
        if not d.needsSampling(t):
            return f"toDistribution({val!r}) = {t!r} does not need sampling: the Range inside the dict is never sampled (a scene would contain the Range object itself, where Python on the samples gives a number)"
        s = d.Samplable.sampleAll([t])[t]
        if type(s) is not type(val) or not isinstance(get(s), float):
            return f"{val!r} sampled as {s!r}"
    return None


# ------------------------------------------------------------------------------------------------
# (5) TruncatedNormal: the reported support contains every sample


def register_truncated(reg):
    TN = f"{D}:TruncatedNormal"
    F = z3.Function("stdnormal_cdf", z3.RealSort(), z3.RealSort())
    Finv = z3.Function("stdnormal_cdfinv", z3.RealSort(), z3.RealSort())

    def setup_tn(I, env):
        eng = I.eng
        calls = []

        def cdf(I_, mean, stddev, x):
            r = SV(F(toz3(x, want_real=True)), True)
            calls.append(("cdf", x, r))
            return r

        def cdfinv(I_, mean, stddev, p):
            r = SV(Finv(toz3(p, want_real=True)), True)
            calls.append(("cdfinv", p, r))
            return r

        reg.models[f"{D}:Normal.cdf"] = cdf
        reg.models[f"{D}:Normal.cdfinv"] = cdfinv
        self = env.vars["self"]
        mean, std, low, high = (eng.fresh_real(n) for n in ("mean", "stddev", "low", "high"))
        for n, s in zip(("mean", "stddev", "low", "high"), (mean, std, low, high)):
            eng.input_syms.append((n, C.Real(), s))
        # the state TruncatedNormal.__init__ establishes (low < high is enforced there: see the __init__ contract)
        eng.assume(compare("<", low, high))
        eng.assume(compare(">", std, 0))
        self.fields.update(mean=mean, stddev=std, low=low, high=high)
        env.vars["value"] = identity_map(I)
        env.vars.update(_calls=calls)

    def post_tn(I, env, outcome):
        eng = I.eng
        name = "distributions.TruncatedNormal.sampleGiven"
        if outcome[0] != "return":
            return
        self, calls = env.vars["self"], env.vars["_calls"]
        low, high = self.fields["low"], self.fields["high"]
        cdfs = [c for c in calls if c[0] == "cdf"]
        invs = [c for c in calls if c[0] == "cdfinv"]
        # trusted facts about the standard normal cdf, instantiated at the points the code used:
        # F is non-decreasing; Finv(p) lies between t1 and t2 whenever F(t1) <= p <= F(t2)
        hyp = []
        for _, t1, f1 in cdfs:
            for _, t2, f2 in cdfs:
                hyp.append(z3.Implies(tobool(compare("<=", t1, t2)), tobool(compare("<=", f1, f2))))
                for _, p, q in invs:
                    hyp.append(z3.Implies(z3.And(tobool(compare("<=", f1, p)), tobool(compare("<=", p, f2))), z3.And(tobool(compare("<=", t1, q)), tobool(compare("<=", q, t2)))))
        h = z3.And(*hyp) if hyp else z3.BoolVal(True)
        res = outcome[1]
        eng.check(f"{name}#ensures.every_sample_lies_in_the_reported_support.lower", z3.Implies(h, tobool(compare("<=", low, res))))
        eng.check(f"{name}#ensures.every_sample_lies_in_the_reported_support.upper", z3.Implies(h, tobool(compare("<=", res, high))))

    def setup_si(I, env):
        eng = I.eng
        self = env.vars["self"]
        low, high = eng.fresh_real("low"), eng.fresh_real("high")
        self.fields.update(low=low, high=high, mean=eng.fresh_real("mean"), stddev=eng.fresh_real("stddev"))
        eng.input_syms.append(("low", C.Real(), low))
        eng.input_syms.append(("high", C.Real(), high))

    def post_si(I, env, outcome):
        eng = I.eng
        name = "distributions.TruncatedNormal.supportInterval"
        self = env.vars["self"]
        ok = outcome[0] == "return" and isinstance(outcome[1], tuple) and len(outcome[1]) == 2
        eng.check(f"{name}#ensures.returns_a_pair", ok)
        if ok:
            # every sample lies in [low, high] (sampleGiven contract): the reported bounds must not be tighter
            eng.check(f"{name}#ensures.lower_bound_sound", compare("<=", outcome[1][0], self.fields["low"]))
            eng.check(f"{name}#ensures.upper_bound_sound", compare(">=", outcome[1][1], self.fields["high"]))

    reg.add(C.Contract(f"{TN}.supportInterval", params=dict(self=C.Obj(TN)), setup=setup_si, post=post_si, replay=replay_truncated, properties=("C05",)))
    reg.add(C.Contract(f"{TN}.sampleGiven", params=dict(self=C.Obj(TN), value=C.Const(None)), setup=setup_tn, post=post_tn, inline=["DefaultIdentityDict.__getitem__"], replay=replay_truncated, properties=("C05",), note="Normal.cdf / Normal.cdfinv (erf, erfinv) are uninterpreted; trusted: the cdf is non-decreasing and cdfinv(p) lies between t1 and t2 whenever cdf(t1) <= p <= cdf(t2); requires stddev > 0"))
    reg.trust("Normal.cdf / Normal.cdfinv inside TruncatedNormal.sampleGiven", "uninterpreted functions with the monotonicity / inverse facts of the standard normal cdf instantiated at the points used (erf and erfinv are not modelled)")


def replay_truncated(inputs, clause):
    import random

    from scenic.core.distributions import Samplable, TruncatedNormal

    def num(name, dflt):
        try:
            return float(inputs.get(name, dflt))
        except (TypeError, ValueError):
            return dflt

    cases = [(0.0, 1.0, -1.0, 2.0), (5.0, 0.5, 4.0, 4.5), (0.0, 2.0, 0.5, 0.75)]
    m, s, lo, hi = num("mean", 0.0), num("stddev", 1.0), num("low", -1.0), num("high", 1.0)
    if s > 0 and lo < hi and abs(lo - m) / s < 6 and abs(hi - m) / s < 6:
        cases.insert(0, (m, s, lo, hi))
    random.seed(7)
    for mean, std, low, high in cases:
        d = TruncatedNormal(mean, std, low, high)
        l, h = d.supportInterval()
        if not (l <= low and h >= high):
            return f"TruncatedNormal({mean}, {std}, {low}, {high}).supportInterval() = {(l, h)!r} does not cover [{low}, {high}]"
        for _ in range(200):
            x = Samplable.sampleAll([d])[d]
            if not (l - 1e-9 <= x <= h + 1e-9):
                return f"TruncatedNormal({mean}, {std}, {low}, {high}) sampled {x}, outside its reported support {(l, h)!r}"
    return None
