#!/bin/sh
# Offline setup: 3.12 overlay venv = /venv (repo + deps) + z3/cvc5/jsonschema from the local wheelhouse.
set -e
HERE="$(cd "$(dirname "$0")" && pwd)"
cd "$HERE"
if [ ! -x .venv/bin/python ] || ! .venv/bin/python -c "import z3, scenic" 2>/dev/null; then
  rm -rf .venv
  /venv/bin/python -m venv .venv
  .venv/bin/pip install -q --no-index --find-links /opt/veriftools/wheels z3-solver cvc5 jsonschema
  echo "import site; site.addsitedir('/venv/lib/python3.12/site-packages')" > .venv/lib/python3.12/site-packages/_overlay.pth
fi
.venv/bin/python -c "import z3, scenic; print('pyvc setup ok: z3', z3.get_version_string())"
