#!/usr/bin/env python3
"""Regenerate the generated blocks of DESIGN.md (status per property, findings, seeded changes) from
evidence/*.json, KNOWN_FINDINGS.jsonl, contracts/props*.py and seeded/*/meta.json."""
import glob, json, os, re, sys
HERE = os.path.dirname(os.path.abspath(__file__))
sys.path.insert(0, HERE)
import contracts.props as props

def block(name, text, s):
    b, e = f"<!-- BEGIN:{name} -->", f"<!-- END:{name} -->"
    if b not in s:
        return s + f"\n{b}\n{text}\n{e}\n"
    return re.sub(re.escape(b) + r".*?" + re.escape(e), lambda m: f"{b}\n{text}\n{e}", s, flags=re.S)

ids = [json.loads(l)["id"] for l in open(os.path.join(HERE, "properties.jsonl"))]
titles = {json.loads(l)["id"]: json.loads(l)["title"] for l in open(os.path.join(HERE, "properties.jsonl"))}
rows = ["| Prop | level | functions under contract (bounded) | obligations proved / total (unbounded contracts) | bounded checks held / total (never counted as proved) | known findings | wall s (last run) | not reached |", "|---|---|---|---|---|---|---|---|"]
for pid in ids:
    ev = os.path.join(HERE, "evidence", f"{pid}.json")
    spec = props.PROPERTIES.get(pid)
    if not spec or not os.path.exists(ev) or not os.path.exists(os.path.join(HERE, "locks", f"{pid}.json")):
        rows.append(f"| {pid} | not claimed | | | | | | {props.NOT_APPLICABLE.get(pid, '')[:120]} |")
        continue
    e = json.load(open(ev))
    c = e["coverage"]
    nb = sum(1 for f in c["functions"] if f.get("bounded"))
    rows.append(f"| {pid} | {e['level']} | {len(c['functions'])} ({nb}) | {c['discharged']} / {c['obligations']} | {c.get('bounded_checks', {}).get('held', 0)} / {c.get('bounded_checks', {}).get('total', 0)} | {len(c.get('known_finding_obligations', []))} | {e['wall_s']} | {'; '.join(spec.get('not_reached', []))[:260]} |")
status = "\n".join(rows)

kf = [json.loads(l) for l in open(os.path.join(HERE, "KNOWN_FINDINGS.jsonl")) if l.strip()]
frows = ["| Prop | status | commit | obligation | what failed |", "|---|---|---|---|---|"]
for r in kf:
    what = r["what"]
    what = re.sub(r"^fixed: property=\S+ \S+ ", "", what)
    frows.append(f"| {r['property']} | {r['status']} | {r.get('commit', '')} | `{r['obligation'][:110]}` | {what[:300].replace('|', '/')} |")
findings = "\n".join(frows)

srows = ["| seeded change | property | what it changes / needs | demo fails with it | check result | caught by |", "|---|---|---|---|---|---|"]
for m in sorted(glob.glob(os.path.join(HERE, "seeded", "*", "meta.json"))):
    d = json.load(open(m))
    w = d["what_i_ran"]
    lines = w.get("check", {}).get("lines", [])
    by = [l.split("failed obligation ")[1].split(":")[0][:90] for l in lines if "failed obligation" in l][:2]
    notes = " ".join(d.get("needs_to_manifest", "").split())[:220]
    srows.append(f"| {os.path.basename(os.path.dirname(m))} | {d['breaks_property']} | {notes} | {'yes' if w.get('demo_with_change', {}).get('exit') not in (0, None) else 'NO'} | exit {w.get('check', {}).get('exit')} | {'; '.join('`'+b+'`' for b in by) or ('—' if not w.get('caught') else 'see replay')} |")
seeded = "\n".join(srows)

p = os.path.join(HERE, "DESIGN.md")
s = open(p).read()
s = block("STATUS", status, s)
s = block("FINDINGS", findings, s)
s = block("SEEDED", seeded, s)
open(p, "w").write(s)
print("DESIGN.md blocks regenerated:", len(rows) - 2, "properties,", len(frows) - 2, "findings,", len(srows) - 2, "seeded changes")
