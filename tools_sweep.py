#!/usr/bin/env python3
"""Re-evaluate every kept seeded change (seeded/<name>/patch.diff + demo.py) against the current /repo HEAD and the
current checks:  tools_sweep.py [-j N] [names...]
Creates N scratch worktrees of /repo under /tmp (removed at the end), runs tools_seeded.py for each change (demo must
pass without / fail with the change; the property's quick check must exit 1 on the changed tree) and rewrites
seeded/<name>/meta.json.  Nothing is ever applied to /repo itself."""
import glob, json, os, queue, subprocess, sys, threading

HERE = os.path.dirname(os.path.abspath(__file__))
args = sys.argv[1:]
jobs = 3
if "-j" in args:
    i = args.index("-j")
    jobs = int(args[i + 1])
    del args[i : i + 2]
names = args or sorted(os.path.basename(os.path.dirname(m)) for m in glob.glob(os.path.join(HERE, "seeded", "*", "patch.diff")))
q = queue.Queue()
for n in names:
    q.put(n)
lock = threading.Lock()
rows = []


def worker(k):
    wt = f"/tmp/wt_sweep{k}"
    subprocess.run(f"git -C /repo worktree remove --force {wt}", shell=True, capture_output=True)
    subprocess.run(f"git -C /repo worktree add --detach {wt} HEAD -f", shell=True, capture_output=True)
    try:
        while True:
            try:
                n = q.get_nowait()
            except queue.Empty:
                return
            d = os.path.join(HERE, "seeded", n)
            pid = n.split("-")[0]
            p = subprocess.run([os.path.join(HERE, "tools_seeded.py"), d, pid, "--keep-as", n], cwd=HERE, env=dict(os.environ, SEED_WT=wt), capture_output=True, text=True)
            try:
                if p.returncode != 0:
                    raise RuntimeError("tools_seeded.py failed")
                m = json.load(open(os.path.join(d, "meta.json")))["what_i_ran"]
                noinput = [l for l in m["check"]["lines"] if l.startswith("VIOLATION")] and all("no-failing-input-found" in l for l in m["check"]["lines"] if l.startswith("VIOLATION"))
                row = f"{n} demo_without={m['demo_without_change']['exit']} demo_with={m['demo_with_change']['exit']} check={m['check']['exit']} caught={m['caught']}{' (no replayed input)' if noinput else ''}"
            except Exception as e:
                row = f"{n} ERROR {e} {p.stdout[-300:]} {p.stderr[-300:]}"
            with lock:
                rows.append(row)
                print(row, flush=True)
    finally:
        subprocess.run(f"git -C /repo worktree remove --force {wt}", shell=True, capture_output=True)


ts = [threading.Thread(target=worker, args=(k,)) for k in range(jobs)]
[t.start() for t in ts]
[t.join() for t in ts]
bad = [r for r in rows if "caught=True" not in r or "demo_without=0" not in r or "demo_with=0" in r]
print(f"{len(rows)} seeded changes, {len(rows) - len(bad)} caught with demo confirmed; not caught / not confirmed: {[b.split()[0] for b in bad]}")
