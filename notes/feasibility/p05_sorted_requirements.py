"""Feasibility probe: C02 WeightedAcceptanceChecker.sortedRequirements + checkRequirementsInner.
sort contract in Skolemised permutation form; pop-loop cut by its invariant; three obligations."""
import z3, time
I = z3.IntSort(); B = z3.BoolSort()
active = z3.Function('active', I, B); optional = z3.Function('optional', I, B)
falsified = z3.Function('falsified', I, B)          # req.falsifiedBy(sample), pure
n = z3.Int('n')                                       # len(self.requirements)
s = z3.Function('s', I, I); m = z3.Int('m')           # reqs after filter+sort: s[0..m)
pos = z3.Function('pos', I, I)                        # Skolem inverse of the permutation
i, j = z3.Ints('i j')
lib_sort = [m >= 0,
    z3.ForAll([j], z3.Implies(z3.And(0 <= j, j < m), z3.And(0 <= s(j), s(j) < n, active(s(j))))),
    z3.ForAll([i], z3.Implies(z3.And(0 <= i, i < n, active(i)), z3.And(0 <= pos(i), pos(i) < m, s(pos(i)) == i)))]
def prove(name, hyps, goal):
    sol = z3.Solver(); sol.set("timeout", 20000); sol.add(*hyps); sol.add(z3.Not(goal))
    t=time.time(); r=sol.check(); print(f"{name}: {'PROVED' if r==z3.unsat else 'REFUTED' if r==z3.sat else r} {time.time()-t:.3f}s")
L = z3.Int('L'); L2 = z3.Int('L2')
inv = lambda L: z3.And(0 <= L, L <= m, z3.ForAll([j], z3.Implies(z3.And(L <= j, j < m), optional(s(j)))))
prove("sortedRequirements#invariant[1].entry", lib_sort, inv(m))
prove("sortedRequirements#invariant[1].preserved", lib_sort + [inv(L), L > 0, optional(s(L-1)), L2 == L-1], inv(L2))
post = z3.ForAll([i], z3.Implies(z3.And(0 <= i, i < n, active(i), z3.Not(optional(i))), z3.And(0 <= pos(i), pos(i) < L)))
prove("sortedRequirements#ensures1 (every active mandatory requirement kept)", lib_sort + [inv(L), z3.Or(L == 0, z3.Not(optional(s(L-1))))], post)
# checkRequirementsInner: loop over s[0..L) returns None only if none falsified
chk_none = z3.ForAll([j], z3.Implies(z3.And(0 <= j, j < L), z3.Not(falsified(s(j)))))
goal = z3.ForAll([i], z3.Implies(z3.And(0 <= i, i < n, active(i), z3.Not(optional(i))), z3.Not(falsified(i))))
prove("checkRequirementsInner#ensures1 (None => all active mandatory hold)", lib_sort + [inv(L), z3.Or(L == 0, z3.Not(optional(s(L-1)))), post, chk_none], goal)
# mutant: loop pops while reqs[-1] is NOT optional  -> must be refuted
inv_bad = lambda L: z3.And(0 <= L, L <= m)
prove("MUTANT (pop mandatory) ensures1 must be REFUTED", lib_sort + [inv_bad(L), z3.Or(L == 0, optional(s(L-1)))], post)
