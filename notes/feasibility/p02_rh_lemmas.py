"""Feasibility probe: the repaired RH overlap test proved by lemma splitting (pi := 1, LIRA).
L1 (interval normalisation): a <= x <= b, b-a < tau  =>  n(x) in hull as computed by the code's `points` list.
MAIN: with L1 for base and target, lo <= n(t)-n(b) <= hi and rh = n(t)-n(b) + k*tau, k in {-1,0,1} => test keeps the pair."""
import z3, time
R, I = z3.Real, z3.Int
pi = z3.RealVal(1); tau = 2*pi
def norm(s, name, a):
    k = I('k_'+name); r = R('n_'+name)
    s.add(r == a - z3.ToReal(k)*tau, r >= -pi, r <= pi)
    return r
def check(name, s):
    s.set("timeout", 60000)
    t = time.time(); r = s.check(); dt = time.time()-t
    print(f"{name}: {'PROVED' if r==z3.unsat else 'REFUTED' if r==z3.sat else r}  {dt:.2f}s")
    if r == z3.sat: print("   ", s.model())
# ---- L1
s = z3.Solver()
a, b, x = R('a'), R('b'), R('x')
s.add(a <= x, x <= b, b - a < tau)
na, nb, nx = norm(s,'a',a), norm(s,'b',b), norm(s,'x',x)
# clear of the seam: exclude the measure-zero ties where n() is two-valued (x ≡ pi mod tau)
s.add(nx > -pi, nx < pi, na > -pi, na < pi, nb > -pi, nb < pi)
concl = z3.If(nb >= na, z3.And(na <= nx, nx <= nb), z3.Or(nx >= na, nx <= nb))
s.add(z3.Not(concl))
check("L1 interval-normalisation", s)
# ---- MAIN (uses only: hull facts from L1, lo/hi bounds of the 16 differences, rh congruent to nt-nb)
s = z3.Solver()
lower, upper, tLower, tUpper, nbh, nth, lo, hi, lb, ub, rh = [R(n) for n in "lower upper tLower tUpper nbh nth lo hi lb ub rh".split()]
for v in (lower, upper, tLower, tUpper, nbh, nth, rh): s.add(v >= -pi, v <= pi)
s.add(lb >= -pi, ub <= pi, lb <= ub)
s.add(z3.If(upper >= lower, z3.And(lower <= nbh, nbh <= upper), z3.Or(nbh >= lower, nbh <= upper)))
s.add(z3.If(tUpper >= tLower, z3.And(tLower <= nth, nth <= tUpper), z3.Or(nth >= tLower, nth <= tUpper)))
pts = [lower, upper, z3.If(upper < lower, pi, lower), z3.If(upper < lower, -pi, lower)]
tpts = [tLower, tUpper, z3.If(tUpper < tLower, pi, tLower), z3.If(tUpper < tLower, -pi, tLower)]
for tp in tpts:
    for p in pts:
        s.add(lo <= tp - p, hi >= tp - p)
k = I('k'); s.add(rh == nth - nbh + z3.ToReal(k)*tau)
s.add(rh >= lb, rh <= ub)
keeps = z3.Or([z3.And(hi + j*tau >= lb, lo + j*tau <= ub) for j in (-1,0,1)])
s.add(z3.Not(keeps))
check("MAIN repaired overlap test keeps feasible pair", s)
# sanity / vacuity: the same MAIN with the *current* test must be refuted
s2 = z3.Solver(); s2.add(s.assertions()[:-1]); s2.add(z3.Not(z3.And(hi >= lb, lo <= ub)))
check("MAIN current overlap test (must be REFUTED)", s2)
