"""Feasibility probe: C06 Constructible._resolveSpecifiers.dfs -- the recursive DFS that builds `order`.
Modular proof with a recursive contract (the callee contract is assumed at the recursive call, proved for the body).
Nodes are integers; dep(t,u) = "u is the provider t must be evaluated after" (dependency, or modified property's specifier).
state: 0 unvisited, 1 in progress, 2 finished;  pos[t] = index of t in `order` (meaningful iff finished)."""
import z3, time
I = z3.IntSort(); A = z3.ArraySort(I, I)
dep = z3.Function('dep', I, I, z3.BoolSort())
t, u = z3.Ints('t u')
def Inv(st, pos, ln):
    return z3.And(ln >= 0,
        z3.ForAll([t], z3.And(st[t] >= 0, st[t] <= 2)),
        z3.ForAll([t], (st[t] == 2) == z3.And(0 <= pos[t], pos[t] < ln)) if False else
        z3.ForAll([t], z3.Implies(st[t] == 2, z3.And(0 <= pos[t], pos[t] < ln))),
        z3.ForAll([t, u], z3.Implies(z3.And(st[t] == 2, dep(t, u)), z3.And(st[u] == 2, pos[u] < pos[t]))),
        z3.ForAll([t, u], z3.Implies(z3.And(st[t] == 2, st[u] == 2, t != u), pos[t] != pos[u])))
def Post(st0, pos0, ln0, st1, pos1, ln1, s):        # contract of dfs(s) on normal return
    return z3.And(Inv(st1, pos1, ln1), st1[s] == 2, ln1 >= ln0,
        z3.ForAll([t], z3.Implies(st0[t] == 2, z3.And(st1[t] == 2, pos1[t] == pos0[t]))),
        z3.ForAll([t], z3.Implies(z3.And(st0[t] == 1, t != s), st1[t] == 1)),
        z3.ForAll([t], z3.Implies(z3.And(st0[t] == 0, st1[t] != 0), z3.And(st1[t] == 2, pos1[t] >= ln0))),
        z3.ForAll([t], z3.Implies(st0[t] == 0, z3.Or(st1[t] == 0, st1[t] == 2))))
def prove(name, hyps, goal):
    sol = z3.Solver(); sol.set("timeout", 60000); sol.add(*hyps); sol.add(z3.Not(goal))
    t0 = time.time(); r = sol.check()
    print(f"{name}: {'PROVED' if r==z3.unsat else 'REFUTED' if r==z3.sat else r} {time.time()-t0:.2f}s")
s = z3.Int('s'); m = z3.Int('m'); d = z3.Function('d', I, I)        # d(0..m-1): the providers spec s recurses on
deps_def = z3.ForAll([u], dep(s, u) == z3.Exists([t], z3.And(0 <= t, t < m, d(t) == u)))
st0, pos0 = z3.Consts('st0 pos0', A); ln0 = z3.Int('ln0')          # state at entry of dfs(s)
entry = [Inv(st0, pos0, ln0), st0[s] == 0, m >= 0, deps_def, z3.Not(dep(s, s))]
stA = z3.Store(st0, s, 1)                                           # spec._dfs_state = 1
# loop invariant after j recursive calls
def LI(j, st, pos, ln):
    return z3.And(0 <= j, j <= m, Inv(st, pos, ln), st[s] == 1, ln >= ln0,
        z3.ForAll([t], z3.Implies(z3.And(0 <= t, t < j), st[d(t)] == 2)),
        z3.ForAll([t], z3.Implies(st0[t] == 2, z3.And(st[t] == 2, pos[t] == pos0[t]))),
        z3.ForAll([t], z3.Implies(z3.And(st0[t] == 1), st[t] == 1)),
        z3.ForAll([t], z3.Implies(z3.And(st0[t] == 0, t != s), z3.Or(st[t] == 0, z3.And(st[t] == 2, pos[t] >= ln0)))))
prove("dfs#invariant[1].entry", entry, LI(0, stA, pos0, ln0))
j = z3.Int('j'); st1, pos1, st2, pos2 = z3.Consts('st1 pos1 st2 pos2', A); ln1, ln2 = z3.Ints('ln1 ln2')
# one iteration: child = d(j); the call raises if st1[child]==1 (cycle) -- not this path; else contract Post
prove("dfs#invariant[1].preserved (recursive call by contract)",
      entry + [LI(j, st1, pos1, ln1), j < m, st1[d(j)] != 1, Post(st1, pos1, ln1, st2, pos2, ln2, d(j))],
      LI(j + 1, st2, pos2, ln2))
# after the loop: order.append(spec); spec._dfs_state = 2
stF = z3.Store(st1, s, 2); posF = z3.Store(pos1, s, ln1)
prove("dfs#ensures (topological order, frame)", entry + [LI(m, st1, pos1, ln1)], Post(st0, pos0, ln0, stF, posF, ln1 + 1, s))
# mutant: appends to `order` BEFORE recursing on the dependencies  => post must fail
posM = z3.Store(pos0, s, ln0)
prove("MUTANT (append before recursion) invariant entry must be REFUTED/unprovable",
      entry + [m > 0], z3.Implies(z3.And(LI(m, st1, posM, ln1 )), Post(st0, pos0, ln0, z3.Store(st1, s, 2), posM, ln1, s)))
