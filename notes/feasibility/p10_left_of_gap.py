"""Feasibility probe: C07 `left of X by D` (X an Object) -- gap between the bounding boxes along X's local x axis.
scipy Rotation is abstract: apply / inverse-apply are uninterpreted maps R^3 -> R^3 with the group axiom
inv(r).apply(r.apply(v)) == v  (trusted library contract).  Everything else is linear real arithmetic."""
import z3, time
Rl = z3.RealSort()
ap = [z3.Function(f'apply_{c}', Rl, Rl, Rl, Rl) for c in 'xyz']       # r.apply(v) components (r fixed = X.orientation)
ia = [z3.Function(f'invapply_{c}', Rl, Rl, Rl, Rl) for c in 'xyz']    # r.inv().apply(v)
x, y, z = z3.Reals('x y z')
A = lambda v: tuple(f(*v) for f in ap); IA = lambda v: tuple(f(*v) for f in ia)
lib = [z3.ForAll([x, y, z], z3.And([IA(A((x, y, z)))[c] == (x, y, z)[c] for c in range(3)]))]
P = z3.Reals('Px Py Pz')                       # X.position
W, w2, D, ct, dy, dz = z3.Reals('W w2 D ct dy dz')   # X.width, new width, by-distance, new contactTolerance
hasD = z3.Bool('hasD')
tol = z3.If(hasD, z3.RealVal(0), ct / 2)       # makeContactOffset(dist, ct)
dx = z3.If(hasD, D, z3.RealVal(0))             # dist None -> dx = 0
# LeftSpec's makeOffset lambda, exactly as in veneer.py:  Vector(-self.width/2 - dx - dims[0]/2 - tol, dy, dz)
off = (-w2 / 2 - dx - W / 2 - tol, dy, dz)
# OrientedPoint.relativePosition -> Vector.offsetLocally:  position + r.apply(offset)
ro = A(off); newpos = tuple(P[c] + ro[c] for c in range(3))
# property: in X's frame the new box's right face is `gap` left of X's left face
local = IA(tuple(newpos[c] - P[c] for c in range(3)))
gap = (-W / 2) - (local[0] + w2 / 2)
want = z3.If(hasD, D, ct / 2)
def q(name, goal, extra=()):
    s = z3.Solver(); s.set("timeout", 20000); s.add(*lib); s.add(*extra); s.add(z3.Not(goal))
    t = time.time(); r = s.check(); print(f"{name}: {'PROVED' if r==z3.unsat else 'REFUTED' if r==z3.sat else r} {time.time()-t:.3f}s")
q("veneer.LeftSpec#gap-equals-D-or-half-contact-tolerance", gap == want)
q("veneer.LeftSpec#lateral-offsets-preserved", z3.And(local[1] == dy, local[2] == dz))
# mutant: forgets the reference object's half width
off_m = (-w2 / 2 - dx - tol, dy, dz); lm = IA(tuple(A(off_m)[c] for c in range(3)))
q("MUTANT (drops dims[0]/2) must be REFUTED", (-W / 2) - (lm[0] + w2 / 2) == want)
