"""Feasibility probe (hand-written VC, throwaway): C08 relativeHeadingRange + feasibleRHPolygon overlap test.
normalizeAngle is replaced by its CONTRACT: result = a - k*tau for an integer k, -pi <= result <= pi.
Obligation: if some disturbances give a normalized relative heading strictly inside [lb, ub] (clear of the
+-pi seam by delta), the code's overlap test must hold (pruning must keep the cell pair).
Expected: current code REFUTED (wrap-around); candidate repair (test modulo tau, k in -1,0,1) PROVED."""
import z3, time, sys
R = z3.Real; I = z3.Int
def build(fixed):
    pi = R('pi'); tau = 2*pi
    s = z3.Solver()
    s.add(pi == 1)  # angle unit = half-turn; sound by homogeneity: these functions use no numeric literal other than pi, tau
    def norm(name, a):
        k = I('k_'+name); r = R('n_'+name)
        s.add(r == a - z3.ToReal(k)*tau, r >= -pi, r <= pi)
        return r
    bh, oL, oR, th, tL, tR, lb, ub = [R(n) for n in "bh oL oR th tL tR lb ub".split()]
    s.add(oL <= oR, tL <= tR, oR - oL < tau, tR - tL < tau, ub - lb < tau, lb >= -pi, ub <= pi, lb <= ub)
    lower = norm('lower', bh + oL); upper = norm('upper', bh + oR)
    tLower = norm('tLower', th + tL); tUpper = norm('tUpper', th + tR)
    def mn(xs):
        m = xs[0]
        for x in xs[1:]: m = z3.If(x < m, x, m)
        return m
    def mx(xs):
        m = xs[0]
        for x in xs[1:]: m = z3.If(x > m, x, m)
        return m
    pts = [lower, upper, z3.If(upper < lower, pi, lower), z3.If(upper < lower, -pi, lower)]
    tpts = [tLower, tUpper, z3.If(tUpper < tLower, pi, tLower), z3.If(tUpper < tLower, -pi, tLower)]
    rhs = [tp - p for tp in tpts for p in pts]
    lo, hi = R('lo'), R('hi')
    s.add(lo == mn(rhs), hi == mx(rhs))
    if fixed:
        keeps = z3.Or([z3.And(hi + k*tau >= lb, lo + k*tau <= ub) for k in (-1, 0, 1)])
    else:
        keeps = z3.And(hi >= lb, lo <= ub)
    d, e, delta = R('d'), R('e'), R('delta')
    s.add(delta == z3.RealVal("0.003"))
    s.add(d >= oL, d <= oR, e >= tL, e <= tR)
    rh = norm('rh', (th + e) - (bh + d))
    s.add(rh >= lb + delta, rh <= ub - delta, rh > -pi + delta, rh < pi - delta)
    # also keep the inputs themselves clear of the seam so the witness is a "real" wrap, not a +-pi tie
    s.add(z3.Not(keeps))
    return s, (pi, bh, oL, oR, th, tL, tR, lb, ub, d, e, rh, lo, hi)
for fixed in (False, True):
    s, vs = build(fixed)
    s.set("timeout", 60000)
    t = time.time(); r = s.check(); dt = time.time() - t
    tag = "repaired test" if fixed else "current code "
    print(f"{tag}: pruning.feasibleRHPolygon#overapprox ->", ("REFUTED" if r == z3.sat else "PROVED" if r == z3.unsat else str(r)), f"{dt:.2f}s")
    if r == z3.sat:
        m = s.model()
        print("   ", {str(v): round(float(m.eval(v, model_completion=True).as_fraction()), 4) for v in vs})
