"""Feasibility probe: winding-difference lemma in difference form (no absolute winding numbers)."""
import z3, time
dx, dn = z3.Reals("dx dn"); w = z3.Int("w")
s = z3.Solver(); s.set("timeout", 10000)
s.add(dx >= 0, dx < 2, dn > -2, dn < 2, dx == dn + 2*z3.ToReal(w), z3.Not(z3.Or(w == 0, w == 1)))
t=time.time(); print("winding-difference lemma:", s.check(), round(time.time()-t,3))
