"""Feasibility probe: C06 _resolveSpecifiers phase 1, one property p (the dict is keyed by property, so
per-property reasoning is exact).  State after processing specs < i:  isset, best, owner, raised.
Postcondition taken from the property: SpecifierError  <=>  two specifiers give p the same priority.
Expected: inductive step REFUTED for the current code with a model that is a concrete input list."""
import z3, time
I = z3.IntSort(); B = z3.BoolSort()
has = z3.Function('has', I, B); prio = z3.Function('prio', I, I)
n, i = z3.Ints('n i'); j, k = z3.Ints('j k')
isset = z3.Bool('isset'); best, owner = z3.Ints('best owner')
def inv(i, isset, best, owner):   # no exception raised so far
    return z3.And(0 <= i, i <= n,
        isset == z3.Exists([j], z3.And(0 <= j, j < i, has(j))),
        z3.Implies(isset, z3.And(0 <= owner, owner < i, has(owner), best == prio(owner),
                                 z3.ForAll([j], z3.Implies(z3.And(0 <= j, j < i, has(j)), prio(j) >= best)))),
        # spec part: not raised so far  =>  no tie among processed
        z3.ForAll([j, k], z3.Implies(z3.And(0 <= j, j < k, k < i, has(j), has(k)), prio(j) != prio(k))))
# one iteration of the real loop body for spec i, property p
raises = z3.And(has(i), isset, prio(i) == best)
isset2 = z3.Or(isset, has(i))
takes = z3.And(has(i), z3.Or(z3.Not(isset), prio(i) < best))
best2 = z3.If(takes, prio(i), best); owner2 = z3.If(takes, i, owner)
def q(name, hyps, goal, expect):
    s = z3.Solver(); s.set("timeout", 20000); s.add(*hyps); s.add(z3.Not(goal))
    t = time.time(); r = s.check(); dt = time.time()-t
    v = 'PROVED' if r==z3.unsat else 'REFUTED' if r==z3.sat else str(r)
    print(f"{name}: {v} {dt:.3f}s (expected {expect})")
    return s if r == z3.sat else None
hy = [inv(i, isset, best, owner), i < n]
q("phase1#invariant.preserved (no raise path)", hy + [z3.Not(raises)], inv(i+1, isset2, best2, owner2), "REFUTED on current tree")
s = q("phase1#raises-only-on-tie", hy + [raises], z3.Exists([j], z3.And(0 <= j, j < i, has(j), prio(j) == prio(i))), "PROVED")
s = q("phase1#invariant.preserved", hy + [z3.Not(raises)], inv(i+1, isset2, best2, owner2), "-")
if s is not None:
    m = s.model(); nn = m.eval(i).as_long()
    print("   counterexample input (priorities of specifiers 0..i giving p):",
          [(m.eval(prio(z3.IntVal(t))).as_long() if z3.is_true(m.eval(has(z3.IntVal(t)), model_completion=True)) else None) for t in range(nn+1)])
# candidate repair: remember every priority seen (set `seen`); raise if prio(i) in seen
seen = z3.Function('seen', I, B)
inv_fix = lambda i, isset, best, owner, seen: z3.And(inv(i, isset, best, owner),
        z3.ForAll([k], seen(k) == z3.Exists([j], z3.And(0 <= j, j < i, has(j), prio(j) == k))))
raises_f = z3.And(has(i), seen(prio(i)))
seen2 = z3.Function('seen2', I, B)
upd = z3.ForAll([k], seen2(k) == z3.Or(seen(k), z3.And(has(i), k == prio(i))))
q("REPAIR phase1#invariant.preserved", [inv_fix(i, isset, best, owner, seen), i < n, z3.Not(raises_f), upd],
  inv_fix(i+1, isset2, best2, owner2, seen2), "PROVED")
q("REPAIR phase1#raises-iff-tie", [inv_fix(i, isset, best, owner, seen), i < n],
  raises_f == z3.Exists([j], z3.And(0 <= j, j < i, has(j), has(i), prio(j) == prio(i))), "PROVED")
