"""Feasibility probe: L1 on several back ends / formulations."""
import z3, time, subprocess, tempfile, os
R, I = z3.Real, z3.Int
pi = z3.RealVal(1); tau = 2*pi
def build(bounded):
    s = z3.Solver()
    a, b, x = R('a'), R('b'), R('x')
    s.add(a <= x, x <= b, b - a < tau)
    out = []
    for nm, v in (('a',a),('b',b),('x',x)):
        k = I('k_'+nm); r = R('n_'+nm)
        s.add(r == v - z3.ToReal(k)*tau, r > -pi, r < pi)
        out.append((k, r))
    (ka,na),(kb,nb),(kx,nx) = out
    if bounded:   # hint: differences of winding numbers are 0 or 1 (derivable, stated to help the solver)
        s.add(z3.Or(kx - ka == 0, kx - ka == 1), z3.Or(kb - kx == 0, kb - kx == 1), z3.Or(kb - ka == 0, kb - ka == 1))
    concl = z3.If(nb >= na, z3.And(na <= nx, nx <= nb), z3.Or(nx >= na, nx <= nb))
    s.add(z3.Not(concl))
    return s
def run_z3(s, **opts):
    for k,v in opts.items(): s.set(k, v)
    s.set("timeout", 30000)
    t=time.time(); r=s.check(); return r, time.time()-t
for bounded in (False, True):
    s = build(bounded)
    print("z3 default   bounded=%s:"%bounded, *run_z3(s))
    s = build(bounded)
    smt = "(set-logic QF_LIRA)\n" + s.to_smt2()
    with tempfile.NamedTemporaryFile("w", suffix=".smt2", delete=False) as f: f.write(smt); p=f.name
    t=time.time()
    try:
        o = subprocess.run(["/usr/bin/cvc5", "--tlimit=30000", p], capture_output=True, text=True).stdout.strip()
    finally: os.unlink(p)
    print("cvc5         bounded=%s:"%bounded, o, round(time.time()-t,2))
    t=time.time()
    with tempfile.NamedTemporaryFile("w", suffix=".smt2", delete=False) as f: f.write(s.to_smt2()); p=f.name
    try:
        o = subprocess.run(["/usr/bin/z3", "-T:30", p], capture_output=True, text=True).stdout.strip()
    finally: os.unlink(p)
    print("z3 4.8.12    bounded=%s:"%bounded, o, round(time.time()-t,2))
