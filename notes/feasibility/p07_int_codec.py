"""Feasibility probe: C18 writeInt/readInt over z3 sequences of bytes.
int.to_bytes / int.from_bytes are library contracts (tb/fb): |tb(v,n)| = n, fb(tb(v,n)) = v when v fits;
fb is total on ANY byte string (that is what makes truncation silent).  bit_length via pow2 monotone."""
import z3, time
I = z3.IntSort(); S = z3.SeqSort(I)
tb = z3.Function('tb', I, I, S)          # to_bytes(value, length, little, signed)
fb = z3.Function('fb', S, I)             # from_bytes(bytes, little, signed)
pow2 = z3.Function('pow2', I, I); bl = z3.Function('bit_length', I, I)
v, n, a, b = z3.Ints('v n a b'); q = z3.Const('q', S); rest = z3.Const('rest', S)
fits = lambda v, n: z3.And(-pow2(8*n-1) <= v, v < pow2(8*n-1))
lib = [
  z3.ForAll([v, n], z3.Implies(z3.And(n >= 1, fits(v, n)), z3.And(z3.Length(tb(v, n)) == n, fb(tb(v, n)) == v))),
  z3.ForAll([a, b], z3.Implies(z3.And(0 <= a, a <= b), pow2(a) <= pow2(b))),
  pow2(7) == 128, pow2(15) == 32768, pow2(31) == 2147483648, pow2(0) == 1,
  z3.ForAll([v], z3.And(bl(v) >= 0, z3.If(v >= 0, v, -v) < pow2(bl(v)))),      # |v| < 2**bit_length(v)
]
def unit(x): return z3.Unit(x)
def big_len(v): return z3.If((bl(v)+1+7)/8 >= 1, (bl(v)+1+7)/8, 1)        # max(1, ceil((bl+1)/8)), integer division
def enc(v):
    L = big_len(v)
    return z3.If(z3.And(0 <= v, v <= 252), unit(v),
           z3.If(z3.And(-32768 <= v, v <= 32767), z3.Concat(unit(z3.IntVal(253)), tb(v, 2)),
           z3.If(z3.And(-2147483648 <= v, v <= 2147483647), z3.Concat(unit(z3.IntVal(254)), tb(v, 4)),
                 z3.Concat(unit(z3.IntVal(255)), unit(L), tb(v, L)))))
def read(data):
    """symbolic execution of readInt on stream contents `data`; returns (raised, value, consumed)"""
    ln = z3.Length(data)
    first = data[0]
    take = lambda off, k: z3.SubSeq(data, off, k)      # stream.read(k): returns what is available (SubSeq clamps)
    L = data[1]
    raised = z3.Or(ln < 1, z3.And(first == 255, ln < 2))        # IndexError on read(1)[0] of empty
    value = z3.If(first <= 252, first, z3.If(first == 253, fb(take(1, 2)), z3.If(first == 254, fb(take(1, 4)), fb(take(2, L)))))
    consumed = z3.If(first <= 252, 1, z3.If(first == 253, 1 + z3.Length(take(1,2)), z3.If(first == 254, 1 + z3.Length(take(1,4)), 2 + z3.Length(take(2, L)))))
    return raised, value, consumed
def q_(name, hyps, goal, expect):
    s = z3.Solver(); s.set("timeout", 60000); s.add(*lib); s.add(*hyps); s.add(z3.Not(goal))
    t = time.time(); r = s.check(); dt = time.time() - t
    print(f"{name}: {'PROVED' if r==z3.unsat else 'REFUTED' if r==z3.sat else r} {dt:.2f}s (expected {expect})")
    return s if r == z3.sat else None
# write side: big branch length fits (so to_bytes does not raise OverflowError) when length < 256
q_("writeInt#big-branch-fits", [z3.Or(v < -2147483648, v > 2147483647)], fits(v, big_len(v)), "PROVED")
# round trip for the three small classes and the big class
raised, value, consumed = read(z3.Concat(enc(v), rest))
q_("lemma int_roundtrip (v<=252)", [0 <= v, v <= 252], z3.And(z3.Not(raised), value == v, consumed == z3.Length(enc(v))), "PROVED")
q_("lemma int_roundtrip (16-bit)", [-32768 <= v, v <= 32767, z3.Or(v < 0, v > 252)], z3.And(z3.Not(raised), value == v, consumed == 3), "PROVED")
q_("lemma int_roundtrip (32-bit)", [-2147483648 <= v, v <= 2147483647, z3.Or(v < -32768, v > 32767)], z3.And(z3.Not(raised), value == v, consumed == 5), "PROVED")
q_("lemma int_roundtrip (big)", [z3.Or(v < -2147483648, v > 2147483647), big_len(v) < 256], z3.And(z3.Not(raised), value == v, consumed == 2 + big_len(v)), "PROVED")
# refusal of truncated data: q is a strict prefix of enc(v)  =>  readInt(q) raises
raised, value, consumed = read(q)
s = q_("readInt#raises-on-truncation", [z3.PrefixOf(q, enc(v)), z3.Length(q) < z3.Length(enc(v)), -32768 <= v, v <= 32767], raised, "REFUTED on current tree")
if s is not None:
    m = s.model(); print("   v =", m.eval(v), " truncated bytes q =", m.eval(q))
