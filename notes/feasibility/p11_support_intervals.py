"""Feasibility probe: C05 OperatorDistribution.supportInterval soundness (NRA) for every arithmetic arm,
and the monotonicity precondition at the three decoration sites of monotonicDistributionFunction."""
import z3, time
l1, r1, l2, r2, x, y = z3.Reals("l1 r1 l2 r2 x y")
mn = lambda *v: (lambda m: [m := z3.If(w < m, w, m) for w in v[1:]] and m or m)(v[0])
def mn(*v):
    m = v[0]
    for w in v[1:]: m = z3.If(w < m, w, m)
    return m
def mx(*v):
    m = v[0]
    for w in v[1:]: m = z3.If(w > m, w, m)
    return m
dom = [l1 <= x, x <= r1, l2 <= y, y <= r2]
def q(name, hyps, goal, expect="PROVED"):
    s = z3.Solver(); s.set("timeout", 30000); s.add(*hyps); s.add(z3.Not(goal))
    t = time.time(); r = s.check(); dt = time.time() - t
    print(f"{name}: {'PROVED' if r==z3.unsat else 'REFUTED' if r==z3.sat else r} {dt:.3f}s (expected {expect})")
    if r == z3.sat and expect != "PROVED": print("   ", s.model())
inside = lambda v, l, r: z3.And(l <= v, v <= r)
q("supportInterval[__add__]", dom, inside(x + y, l1 + l2, r1 + r2))
q("supportInterval[__sub__]", dom, inside(x - y, l1 - r2, r1 - l2))
q("supportInterval[__rsub__]", dom, inside(y - x, l2 - r1, r2 - l1))
p = (l1*l2, l1*r2, r1*l2, r1*r2)
q("supportInterval[__mul__]", dom, inside(x * y, mn(*p), mx(*p)))
# __truediv__: only when l2 > 0
lo = z3.If(l1 >= 0, l1 / r2, l1 / l2); hi = z3.If(r1 >= 0, r1 / l2, r1 / r2)
q("supportInterval[__truediv__]", dom + [l2 > 0], inside(x / y, lo, hi))
lo = z3.If(l2 >= 0, l2 / r1, l2 / l1); hi = z3.If(r2 >= 0, r2 / l1, r2 / r1)
q("supportInterval[__rtruediv__]", dom + [l1 > 0], inside(y / x, lo, hi))
q("supportInterval[__neg__]", dom, inside(-x, -r1, -l1))
ab = z3.If(x >= 0, x, -x)
alo = z3.If(r1 < 0, -r1, z3.If(l1 < 0, 0, l1)); ahi = z3.If(r1 < 0, -l1, z3.If(l1 < 0, mx(-l1, r1), r1))
q("supportInterval[__abs__]", dom, inside(ab, alo, ahi))
# simplification identities
q("makeOperatorHandler[x+0], [x-0], [x*1], [x/1]", [], z3.And(x + 0 == x, x - 0 == x, x * 1 == x, x / 1 == x))
fl = z3.ToReal(z3.ToInt(x / 1))
q("makeOperatorHandler[x//1 -> x]", [], fl == x, expect="REFUTED on current tree")
# monotonicity precondition at decoration sites (two arguments suffice to refute / illustrate)
a, b, c, d = z3.Reals("a b c d"); ha, hb = z3.Reals("ha hb")
hyp = [ha >= 0, ha*ha == a*a + c*c, hb >= 0, hb*hb == b*b + d*d, a <= b, c <= d]
q("monotonicDistributionFunction.pre @ geometry.hypot", hyp, ha <= hb, expect="REFUTED on current tree")
q("monotonicDistributionFunction.pre @ geometry.max", [a <= b, c <= d], mx(a, c) <= mx(b, d))
q("monotonicDistributionFunction.pre @ geometry.min", [a <= b, c <= d], mn(a, c) <= mn(b, d))
# candidate repair for hypot: support from absolute-value intervals
def absint(l, r): return (z3.If(r < 0, -r, z3.If(l < 0, 0, l)), z3.If(r < 0, -l, z3.If(l < 0, mx(-l, r), r)))
(al, ah), (bl, bh) = absint(l1, r1), absint(l2, r2)
h, hl, hh = z3.Reals("h hl hh")
q("REPAIR hypot support via |.| intervals", dom + [h >= 0, h*h == x*x + y*y, hl >= 0, hl*hl == al*al + bl*bl, hh >= 0, hh*hh == ah*ah + bh*bh], inside(h, hl, hh))
