"""Feasibility probe: C18 integer codec with byte streams as (Array Int Int, length).
p07 showed z3's sequence solver returning `unknown` / ignoring timeouts, so streams are arrays + length.
Fixed widths (2, 4 and the truncated widths 0..3) get DEFINITIONAL two's-complement semantics (quantifier free);
the variable-width class uses an abstract predicate laid(D, off, v, n) asserted by the writer."""
import z3, time
I = z3.IntSort(); A = z3.ArraySort(I, I); B = z3.BoolSort()
pow2 = z3.Function('pow2', I, I); bl = z3.Function('bit_length', I, I)
laid = z3.Function('laid', A, I, I, I, B)      # D[off:off+n] == v.to_bytes(n,'little',signed=True)
fbN = z3.Function('fbN', A, I, I, I)           # from_bytes of a variable-length slice
v, n, a, b, off = z3.Ints('v n a b off'); D = z3.Const('D', A)
fits = lambda v, n: z3.And(-pow2(8*n-1) <= v, v < pow2(8*n-1))
lib = [
  z3.ForAll([D, off, v, n], z3.Implies(z3.And(laid(D, off, v, n), fits(v, n)), fbN(D, off, n) == v)),
  z3.ForAll([a, b], z3.Implies(z3.And(0 <= a, a <= b), pow2(a) <= pow2(b))),
  z3.ForAll([v], z3.And(bl(v) >= 0, z3.If(v >= 0, v, -v) < pow2(bl(v)))),
]
def tb_fixed(W, p, v, k):        # W[p..p+k) = v.to_bytes(k, little, signed)   (k constant)
    u = v % (256**k)
    return z3.And([W[p+t] == (u / (256**t)) % 256 for t in range(k)])
def fb_fixed(R, p, k):           # from_bytes of k bytes (k constant, possibly 0)
    if k == 0: return z3.IntVal(0)
    u = z3.Sum([R[p+t] * (256**t) for t in range(k)])
    return z3.If(R[p+k-1] >= 128, u - 256**k, u)
def fb_upto(R, p, want, got):    # read(want) returned `got` <= want bytes; want is a constant here
    e = fb_fixed(R, p, want)
    for k in range(want-1, -1, -1): e = z3.If(got == k, fb_fixed(R, p, k), e)
    return e
def big_len(v): return z3.If((bl(v)+8)/8 >= 1, (bl(v)+8)/8, 1)
def written(W, p, v):
    L = big_len(v)
    small = z3.And(0 <= v, v <= 252); s16 = z3.And(-32768 <= v, v <= 32767); s32 = z3.And(-2147483648 <= v, v <= 2147483647)
    cons = z3.If(small, W[p] == v, z3.If(s16, z3.And(W[p] == 253, tb_fixed(W, p+1, v, 2)),
           z3.If(s32, z3.And(W[p] == 254, tb_fixed(W, p+1, v, 4)), z3.And(W[p] == 255, W[p+1] == L, laid(W, p+2, v, L)))))
    nbytes = z3.If(small, 1, z3.If(s16, 3, z3.If(s32, 5, 2 + L)))
    return cons, nbytes
def read(R, ln, p):
    avail = lambda o: z3.If(ln - o < 0, 0, ln - o); mn = lambda x, y: z3.If(x < y, x, y)
    first = R[p]; L = R[p+1]
    raised = z3.Or(avail(p) < 1, z3.And(first == 255, avail(p+1) < 1))
    g2, g4, gL = mn(2, avail(p+1)), mn(4, avail(p+1)), mn(L, avail(p+2))
    value = z3.If(first <= 252, first, z3.If(first == 253, fb_upto(R, p+1, 2, g2), z3.If(first == 254, fb_upto(R, p+1, 4, g4), fbN(R, p+2, gL))))
    consumed = z3.If(first <= 252, 1, z3.If(first == 253, 1+g2, z3.If(first == 254, 1+g4, 2+gL)))
    return raised, value, consumed
def q_(name, hyps, goal, expect, ground=False):
    s = z3.Solver(); s.set("timeout", 30000)
    if not ground: s.add(*lib)
    s.add(*hyps); s.add(z3.Not(goal))
    t = time.time(); r = s.check(); dt = time.time() - t
    print(f"{name}: {'PROVED' if r==z3.unsat else 'REFUTED' if r==z3.sat else r} {dt:.2f}s (expected {expect})")
    return s if r == z3.sat else None
W = z3.Const('W', A); p, ln = z3.Ints('p ln')
bytes_ok = z3.ForAll([a], z3.And(0 <= W[a], W[a] <= 255))
cons, nbytes = written(W, p, v)
raised, value, consumed = read(W, ln, p)
base = [p >= 0, cons, ln >= p + nbytes]
q_("writeInt#big-branch-fits", [z3.Or(v < -2147483648, v > 2147483647)], fits(v, big_len(v)), "PROVED")
for nm, rng in (("small", [0 <= v, v <= 252]), ("16-bit", [-32768 <= v, v <= 32767, z3.Or(v < 0, v > 252)]),
                ("32-bit", [-2147483648 <= v, v <= 2147483647, z3.Or(v < -32768, v > 32767)]),
                ("big", [z3.Or(v < -2147483648, v > 2147483647), big_len(v) < 256])):
    q_(f"lemma int_roundtrip ({nm})", base + rng, z3.And(z3.Not(raised), value == v, consumed == nbytes), "PROVED")
for nm, rng in (("16-bit", [-32768 <= v, v <= 32767, z3.Or(v < 0, v > 252)]), ("32-bit", [-2147483648 <= v, v <= 2147483647, z3.Or(v < -32768, v > 32767)])):
    s = q_(f"readInt#raises-on-truncation ({nm} class)", [p == 0, cons, ln >= p, ln < p + nbytes] + rng, raised, "REFUTED on current tree", ground=True)
    if s is not None:
        m = s.model(); l = m.eval(ln).as_long()
        print("   v =", m.eval(v), " truncated stream =", [m.eval(W[t], model_completion=True).as_long() for t in range(l)], " decoded silently as", m.eval(value))
