"""Feasibility probe: C11, rv_ltl.monitor.UntilMonitor._evaluate_at(i) against the four-valued spec
(strong until, first truthy rhs position).  Children are abstract B4-valued functions of the position.
B4: FALSE=1, PRESUMABLY_FALSE=2, PRESUMABLY_TRUE=3, TRUE=4; & = min, truthy = >= 3."""
import z3, time
I = z3.IntSort()
L = z3.Function('L', I, I); Rr = z3.Function('R', I, I)       # lhs._evaluate_at, rhs._evaluate_at
M = z3.Function('M', I, I, I)                                    # M(a,b) = min_{a<=t<b} L(t), M(a,a)=4
i, k, n, a, b, t = z3.Ints('i k n a b t')
mn = lambda x, y: z3.If(x < y, x, y)
ax = [z3.ForAll([t], z3.And(1 <= L(t), L(t) <= 4, 1 <= Rr(t), Rr(t) <= 4)),
      z3.ForAll([a], M(a, a) == 4),
      z3.ForAll([a, b], z3.Implies(a <= b, M(a, b+1) == mn(M(a, b), L(b)))),
      # derived fact (itself an obligation, proved by induction elsewhere): extending the range can only lower the min
      z3.ForAll([a, b, t], z3.Implies(z3.And(a <= b, b <= t), M(a, t) <= M(a, b)))]
def q(name, hyps, goal, expect):
    s = z3.Solver(); s.set("timeout", 30000); s.add(*ax); s.add(*hyps); s.add(z3.Not(goal))
    t0 = time.time(); r = s.check(); dt = time.time() - t0
    print(f"{name}: {'PROVED' if r==z3.unsat else 'REFUTED' if r==z3.sat else r} {dt:.2f}s (expected {expect})")
    return s if r == z3.sat else None
# inner loop `for j in range(i, hi): result = result & L(j)` cut by invariant result == min(R(k), M(i, j))
j, res, hi = z3.Ints('j res hi')
inv = lambda j, res: z3.And(i <= j, res == mn(Rr(k), M(i, j)))
q("Until#inner.invariant.entry", [0 <= i, i <= k], inv(i, Rr(k)), "PROVED")
q("Until#inner.invariant.preserved", [0 <= i, i <= k, inv(j, res), j < hi], inv(j+1, mn(res, L(j))), "PROVED")
# at exit j == max(i, hi); the return value must equal the spec min(R(k), M(i,k)) at the first truthy k
first_truthy = [0 <= i, i <= k, k <= n-1, Rr(k) >= 3, z3.ForAll([t], z3.Implies(z3.And(i <= t, t < k), Rr(t) < 3))]
exit_j = lambda hi: z3.If(hi > i, hi, i)
spec = mn(Rr(k), M(i, k))
code_hi = mn(i + k, n - 1)            # range(i, min(i + k, self._last_index)), _last_index = n-1
fix_hi = k                            # range(i, k)
q("Until#returns-spec  (top level, i == 0)", first_truthy + [i == 0, res == mn(Rr(k), M(i, exit_j(code_hi)))], res == spec, "PROVED")
s = q("Until#returns-spec  (nested, i > 0)", first_truthy + [i > 0, res == mn(Rr(k), M(i, exit_j(code_hi)))], res == spec, "REFUTED on installed rv_ltl")
if s is not None:
    m = s.model(); nn = m.eval(n).as_long()
    print("   i =", m.eval(i), "k =", m.eval(k), "n =", nn, " L =", [m.eval(L(z3.IntVal(x)), model_completion=True) for x in range(nn)],
          " R =", [m.eval(Rr(z3.IntVal(x)), model_completion=True) for x in range(nn)], " code:", m.eval(res), " spec:", m.eval(spec))
q("Until#returns-spec  (range(i,k) variant)", first_truthy + [res == mn(Rr(k), M(i, exit_j(fix_hi)))], res == spec, "PROVED")
# ---- refutation pass: quantified axioms replaced by their instances on positions 0..N-1 (candidate model; replay judges)
N = 5
inst = []
for x in range(N+1):
    inst += [1 <= L(x), L(x) <= 4, 1 <= Rr(x), Rr(x) <= 4]
    for y in range(x, N+1):
        inst.append(M(x, y) == (z3.IntVal(4) if x == y else mn(M(x, y-1), L(y-1))))
s = z3.Solver(); s.set("timeout", 30000)
s.add(*inst); s.add(0 <= i, i <= k, k <= n-1, n <= N, Rr(k) >= 3, i > 0)
s.add(z3.And([z3.Implies(z3.And(i <= x, x < k), Rr(x) < 3) for x in range(N)]))
s.add(res == mn(Rr(k), M(i, exit_j(code_hi))), res != spec)
t0 = time.time(); r = s.check()
print(f"Until#returns-spec (nested) ground refutation pass, N={N}: {'candidate found' if r==z3.sat else r} {time.time()-t0:.2f}s")
if r == z3.sat:
    m = s.model(); nn = m.eval(n).as_long()
    print("   i =", m.eval(i), "k =", m.eval(k), "n =", nn, " L =", [m.eval(L(x), model_completion=True) for x in range(nn)],
          " R =", [m.eval(Rr(x), model_completion=True) for x in range(nn)], " code:", m.eval(res), " spec:", m.eval(spec))
