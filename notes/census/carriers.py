"""Census of the carrier functions named in DESIGN.md (design-time analysis, not framework code).
Resolves each qualname in the CURRENT /repo tree, reports line span, size, and which Python constructs it uses,
so that the PyCore subset in DESIGN §2.2 is sized against what the carriers actually contain."""
import ast, sys, collections, json, pathlib
SRC = pathlib.Path("/repo/src")
RVLTL = pathlib.Path("/venv/lib/python3.12/site-packages")
C = collections.OrderedDict()
C["C01"] = """scenic.core.distributions:Samplable.sampleAll Samplable.sample Samplable.__init__ DiscreteRange.__init__ DiscreteRange.sampleGiven DiscreteRange.clone
 Options.__init__ Options.makeSelector Options.clone MultiplexerDistribution.__init__ MultiplexerDistribution.sampleGiven UniformDistribution.__init__ UniformDistribution.sampleGiven Uniform Range.sampleGiven Range.clone Normal.clone TruncatedNormal.clone
scenic.core.scenarios:Scenario._generateInner Scenario.generateBatch Scenario._makeSceneFromSample
scenic.core.requirements:PendingRequirement.__init__ PendingRequirement.compile PendingRequirement.compile.closure getNameBindings
scenic.syntax.veneer:resample require"""
C["C02"] = """scenic.core.sample_checking:SampleChecker.checkRequirements SampleChecker.setRequirements BasicChecker.setRequirements BasicChecker.checkRequirementsInner WeightedAcceptanceChecker.setRequirements WeightedAcceptanceChecker.checkRequirementsInner WeightedAcceptanceChecker.sortedRequirements WeightedAcceptanceChecker.updateMetrics WeightedAcceptanceChecker.getRequirementCost
scenic.core.scenarios:Scenario.generateDefaultRequirements Scenario.containerOfObject Scenario.setSampleChecker Scenario.validate
scenic.core.requirements:SamplingRequirement.falsifiedBy IntersectionRequirement.falsifiedByInner ContainmentRequirement.falsifiedByInner VisibilityRequirement.__init__ VisibilityRequirement.falsifiedByInner NonVisibilityRequirement.falsifiedByInner CompiledRequirement.falsifiedByInner BlanketCollisionRequirement.falsifiedByInner"""
C["C03"] = """scenic.core.regions:IntersectionRegion.genericSampler UnionRegion.genericSampler DifferenceRegion.genericSampler PointSetRegion.uniformPointInner PointSetRegion.intersect PointSetRegion.intersect.sampler
 CircularRegion.__init__ SectorRegion.__init__ RectangularRegion.__init__ MeshRegion.circumcircle RectangularRegion.uniformPointInner CircularRegion.uniformPointInner SectorRegion.uniformPointInner PolygonalRegion.uniformPointInner PolygonalRegion._samplingData
 GridRegion.pointToGrid GridRegion.gridToPoint GridRegion.containsPoint VoxelRegion.uniformPointInner PathRegion.uniformPointInner PolylineRegion.uniformPointInner MeshVolumeRegion.uniformPointInner MeshSurfaceRegion.uniformPointInner PointInRegionDistribution.sampleGiven"""
C["C04"] = """scenic.core.regions:MeshVolumeRegion.intersects MeshVolumeRegion.containsObject MeshVolumeRegion._circumradius MeshVolumeRegion._interiorPoint MeshVolumeRegion._interiorPointRadii MeshVolumeRegion._bodyCount MeshVolumeRegion.minimumDistanceTo MeshVolumeRegion.containsPoint MeshVolumeRegion.distanceTo PolygonalFootprintRegion.containsObject PolygonalFootprintRegion.approxBoundFootprint DifferenceRegion.containsObject IntersectionRegion.containsObject MeshSurfaceRegion.intersects GridRegion.containsObject
scenic.core.object_types:Object.intersects Object.minimumDistanceTo Object._isPlanarBox Object._boundingPolygon Object.occupiedSpace Object._hasStaticBounds"""
C["C05"] = """scenic.core.distributions:OperatorDistribution.__init__ OperatorDistribution.sampleGiven OperatorDistribution.evaluateInner OperatorDistribution.supportInterval FunctionDistribution.__init__ FunctionDistribution.sampleGiven FunctionDistribution.evaluateInner FunctionDistribution.supportInterval
 MethodDistribution.sampleGiven MethodDistribution.evaluateInner AttributeDistribution.sampleGiven AttributeDistribution.supportInterval AttributeDistribution.evaluateInner TupleDistribution.sampleGiven SliceDistribution.sampleGiven StarredDistribution.sampleGiven toDistribution makeOperatorHandler distributionFunction distributionFunction.helper distributionMethod distributionMethod.helper monotonicDistributionFunction monotonicDistributionFunction.support
 supportInterval supmin supmax unionOfSupports addSupports DiscreteRange.supportInterval Range.supportInterval MultiplexerDistribution.supportInterval TruncatedNormal.supportInterval
scenic.core.lazy_eval:LazilyEvaluable.__init__ LazilyEvaluable.evaluateIn DelayedArgument.__call__ DelayedArgument.__getattr__ makeDelayedOperatorHandler makeDelayedFunctionCall toLazyValue valueInContext requiredProperties
scenic.core.vectors:makeVectorOperatorHandler vectorOperator vectorOperator.helper scalarOperator scalarOperator.helper vectorDistributionMethod.helper VectorOperatorDistribution.sampleGiven VectorMethodDistribution.sampleGiven
scenic.core.type_support:TypecheckedDistribution.sampleGiven coerce canCoerceType coerceToAny toTypes
scenic.core.geometry:normalizeAngle findMinMax hypot max min
scenic.core.object_types:Constructible._specify"""
C["C06"] = """scenic.core.object_types:Constructible._resolveSpecifiers Constructible._resolveSpecifiers.dfs Constructible.__init_subclass__ Constructible._withSpecifiers Constructible._withProperties OrientedPoint2D._prepareSpecifiers OrientedPoint2D.__init_subclass__
scenic.core.specifiers:Specifier.__init__ Specifier.getValuesFor ModifyingSpecifier.__init__ PropertyDefault.__init__ PropertyDefault.resolveFor PropertyDefault.forValue
scenic.syntax.veneer:With At In ContainedIn On OffsetBy OffsetAlongSpec Beyond VisibleFrom NotVisibleFrom directionalSpecHelper Following Facing FacingToward FacingDirectlyToward FacingAwayFrom FacingDirectlyAwayFrom ApparentlyFacing alwaysProvidesOrientation new"""
C["C07"] = """scenic.syntax.veneer:LeftSpec RightSpec Ahead Behind Above Below directionalSpecHelper On.helper Facing.helper FacingToward.helper FacingDirectlyToward.helper FacingAwayFrom.helper FacingDirectlyAwayFrom.helper ApparentlyFacing.helper RelativeTo OffsetAlong RelativeHeading ApparentHeading RelativePosition DistanceFrom DistancePast AngleTo AngleFrom AltitudeTo AltitudeFrom Follow
scenic.core.vectors:Vector.offsetLocally Vector.offsetRotated Vector.rotatedBy Vector.offsetRadially Vector.applyRotation Vector.sphericalCoordinates Vector.azimuthTo Vector.altitudeTo Vector.angleWith Vector.distanceTo Vector.dot Vector.cross Vector.normalized Vector.__add__ Vector.__sub__ Vector.__rsub__ Vector.__mul__ Vector.__truediv__ Orientation.__mul__ Orientation.__add__ Orientation.__radd__ Orientation.inverse Orientation.localAnglesFor Orientation.globalToLocalAngles Orientation._coerce Orientation.__eq__ VectorField.followFrom
scenic.core.object_types:OrientedPoint.relativePosition OrientedPoint.relativize OrientedPoint.distancePast Object.corners Object.left Object.front Object.top
scenic.core.geometry:apparentHeadingAtPoint viewAngleToPoint headingOfSegment rotateVector"""
C["C08"] = """scenic.syntax.relations:inferRelationsFrom inferRelativeHeadingRelations inferDistanceRelations RequirementMatcher.matchUnaryFunction RequirementMatcher.matchBounds RequirementMatcher.matchBoundsInner RequirementMatcher.matchAbsBounds RequirementMatcher.matchConstant
scenic.core.pruning:prune pruneContainment pruneRelativeHeading pruneVisibility pruneVisibility.bufferHelper maxDistanceBetween visibilityBound feasibleRHPolygon relativeHeadingRange percentagePruned checkConditionedCycle matchInRegion matchPolygonalField currentPropValue
scenic.core.regions:MeshVolumeRegion._erodeOverapproximate MeshVolumeRegion._bufferOverapproximate VoxelRegion.dilation
scenic.core.distributions:Samplable.conditionTo"""
C["C09"] = """scenic.syntax.compiler:ScenicToPythonTransformer.visit_Name ScenicToPythonTransformer.visit_Call ScenicToPythonTransformer.visit_ClassDef ScenicToPythonTransformer.transformPropertyDef ScenicToPythonTransformer.generic_visit ScenicToPythonTransformer.visit compileScenicAST"""
C["C10"] = """scenic.syntax.parser:parse_string Parser.parse Parser.get_expr_name Parser.get_invalid_target Parser.raise_indentation_error Parser.check_fstring_conversion
scenic.syntax.compiler:Transformer.makeSyntaxError ScenicToPythonTransformer.generic_visit
scenic.syntax.translator:_scenarioFromStream compileStream topLevelNamespace purgeModulesUnsafeToCache"""
C["C11"] = """scenic.core.propositions:PropositionMonitor.__init__ PropositionMonitor.update PropositionNode.flatten PropositionNode.atomics PropositionNode.check_constrains_sampling Atomic.__init__ Always.__init__ Eventually.__init__ Next.__init__ Not.__init__ And.__init__ Or.__init__ Until.__init__ Implies.__init__ And.evaluate Or.evaluate Not.evaluate
scenic.core.requirements:CompiledRequirement.falsifiedByInner MonitorRequirement.value DynamicMonitorRequirement.value BoundRequirement.value DynamicRequirement.__init__
scenic.core.dynamics.scenarios:DynamicScenario._step DynamicScenario._stop DynamicScenario._addDynamicRequirement
scenic.syntax.compiler:PropositionTransformer.transform PropositionTransformer.visit_BoolOp PropositionTransformer.visit_UnaryOp PropositionTransformer.visit_Always PropositionTransformer.visit_Eventually PropositionTransformer.visit_Next PropositionTransformer.visit_UntilOp PropositionTransformer.visit_ImpliesOp PropositionTransformer._create_atomic_proposition_factory ScenicToPythonTransformer.createRequirementLike
@rv_ltl.monitor:Monitor.update AtomicMonitor._evaluate_at NotMonitor._evaluate_at AndMonitor._evaluate_at OrMonitor._evaluate_at NextMonitor._evaluate_at UntilMonitor._evaluate_at EventuallyMonitor.__init__ AlwaysMonitor.__init__ ImpliesMonitor.__init__"""
C["C12"] = """scenic.core.simulators:Simulation.__init__ Simulation._run Simulation.recordCurrentState Simulation.updateObjects Simulation.setup Simulation._createObject Simulator.simulate Simulator._runSingleSimulation
scenic.core.dynamics.scenarios:DynamicScenario._step DynamicScenario._stop DynamicScenario._start DynamicScenario._invokeInner DynamicScenario._runMonitors DynamicScenario._checkSimulationTerminationConditions DynamicScenario._evaluateRecordedExprsAt
scenic.core.dynamics.behaviors:Behavior._step Behavior._start Behavior._stop Behavior._invokeInner Behavior._assignTo
scenic.core.dynamics.invocables:Invocable._invokeSubBehavior
scenic.syntax.veneer:terminate_after
scenic.syntax.compiler:ScenicToPythonTransformer.generateInvocation ScenicToPythonTransformer.makeDoLike ScenicToPythonTransformer.visit_WaitFor ScenicToPythonTransformer.visit_DoFor ScenicToPythonTransformer.visit_DoUntil ScenicToPythonTransformer.visit_Terminate ScenicToPythonTransformer.visit_TerminateSimulation"""
C["C13"] = """scenic.core.dynamics.invocables:runTryInterrupt InterruptBlock.step InterruptBlock.isEnabled InterruptBlock.isRunning Invocable._checkAllPreconditions Invocable._isEnabledForAgent Invocable._start Invocable._stop
scenic.syntax.compiler:ScenicToPythonTransformer.visit_TryInterrupt ScenicToPythonTransformer.visit_Break ScenicToPythonTransformer.visit_Continue ScenicToPythonTransformer.visit_Return ScenicToPythonTransformer.visit_Abort ScenicToPythonTransformer.makeGuardCheckers ScenicToPythonTransformer.makeBehaviorLikeDef
scenic.core.dynamics.scenarios:DynamicScenario._prepare
scenic.syntax.veneer:executeInGuard"""
C["C14"] = """scenic.syntax.veneer:activate deactivate beginSimulation endSimulation instantiateSimulator executeInRequirement executeInScenario executeInBehavior executeInGuard startScenario endScenario override
scenic.core.simulators:Simulation.__init__
scenic.core.object_types:enableDynamicProxyFor disableDynamicProxyFor Object.__getattribute__ Object.__setattr__ Object.__delattr__ Constructible._override Constructible._revert Constructible._copyWith
scenic.core.dynamics.scenarios:DynamicScenario._override DynamicScenario._stop"""
C["C15"] = """scenic.core.scenarios:Scenario.__init__
scenic.core.requirements:PendingRequirement.compile
scenic.core.dynamics.scenarios:DynamicScenario._compileRequirements DynamicScenario._registerCompiledRequirement DynamicScenario._toScenario
scenic.core.lazy_eval:LazilyEvaluable.__init__
scenic.core.utils:findMeshInteriorPoint DefaultIdentityDict.__getitem__ DefaultIdentityDict.__setitem__ DefaultIdentityDict.__contains__
scenic.core.serialization:deterministicHash"""
C["C16"] = """scenic.core.regions:Region.intersects Region.intersect Region.union Region.difference Region.containsRegion AllRegion.intersect EmptyRegion.intersect IntersectionRegion.containsPoint UnionRegion.containsPoint DifferenceRegion.containsPoint IntersectionRegion.sampleGiven convertToFootprint regionFromShapelyObject orientationFor toPolygon
 PolygonalRegion.intersect PolygonalRegion.union PolygonalRegion.difference PolygonalRegion.unionAll PolygonalRegion.intersects PolygonalRegion.distanceTo PolygonalRegion.containsPoint PolygonalRegion._trueContainsPoint PolygonalRegion.AABB PolygonalRegion.containsRegionInner
 CircularRegion.containsPoint CircularRegion.distanceTo CircularRegion.intersects CircularRegion.AABB SectorRegion.containsPoint RectangularRegion.AABB MeshRegion.projectVector MeshRegion.AABB MeshSurfaceRegion.containsPoint MeshSurfaceRegion.distanceTo
 PolygonalFootprintRegion.intersect PolygonalFootprintRegion.containsPoint PolygonalFootprintRegion.distanceTo PolygonalFootprintRegion.containsRegionInner PathRegion.distanceTo PathRegion._segmentDistanceHelper PolylineRegion.intersect PolylineRegion.intersects PolylineRegion.difference PolylineRegion.containsPoint PolylineRegion.distanceTo PolylineRegion.containsRegionInner PointSetRegion.containsPoint PointSetRegion.distanceTo PointSetRegion.AABB
scenic.core.geometry:findMinMax pointIsInCone viewAngleToPoint"""
C["C17"] = """scenic.core.visibility:canSee
scenic.core.object_types:Point.canSee OrientedPoint.canSee Object.canSee Object.visibleRegion OrientedPoint.visibleRegion Point.visibleRegion Point2D._canSee2D Point2D.canSee
scenic.core.requirements:VisibilityRequirement.__init__ VisibilityRequirement.falsifiedByInner NonVisibilityRequirement.falsifiedByInner
scenic.syntax.veneer:CanSee CanSee.canSeeHelper"""
C["C18"] = """scenic.core.serialization:writeInt readInt writeBool readBool writeBytes readBytes writeStr readStr writeFloat readFloat Serializer.writeValue Serializer.readValue Serializer.writeScene Serializer.readScene Serializer.writeSample Serializer.readSample Serializer.writeSamplable Serializer.readSamplable Serializer.writeReplayHeader Serializer.readReplayHeader deterministicHash
scenic.core.distributions:Samplable.serializeValue Samplable.deserializeValue Distribution.serializeValue Distribution.deserializeValue MultiplexerDistribution.serializeValue MultiplexerDistribution.deserializeValue Distribution.__new__
scenic.core.vectors:Vector.encodeTo Vector.decodeFrom Orientation.encodeTo Orientation.decodeFrom
scenic.core.simulators:Simulation.initializeReplay Simulation.replayCanContinue Simulation.detectReplayEnd Simulation.recordSampledValue Simulation.replaySampledValue Simulation.valuesHaveDiverged Simulation.updateObjects
scenic.core.scenarios:Scenario.sceneToBytes Scenario.sceneFromBytes Scenario.simulationToBytes Scenario.simulationFromBytes"""
C["C19"] = """scenic.core.dynamics.invocables:Invocable._invokeSubBehavior Invocable._invokeSubBehavior.pickEnabledInvocable Invocable._isEnabledForAgent
scenic.core.distributions:Options.__init__ DiscreteRange.sampleGiven Distribution.__new__
scenic.syntax.compiler:ScenicToPythonTransformer.visit_DoChoose ScenicToPythonTransformer.visit_DoShuffle ScenicToPythonTransformer.makeDoLike"""
C["C20"] = """scenic.domains.driving.roads:Network.fromFile Network.fromPickle Network.dumpPickle Network.findPointIn Network._findPointInAll Network.elementAt Network.roadAt Network.laneAt Network.laneSectionAt Network.laneGroupAt Network.nominalDirectionsAt Network.__setstate__ Network._defaultRoadDirection
scenic.core.serialization:deterministicHash"""

def find(tree, path):
    node = tree
    for part in path.split("."):
        body = getattr(node, "body", [])
        nxt = None
        for ch in ast.walk(node) if not isinstance(node, ast.Module) else body:
            if ch is node: continue
            if isinstance(ch, (ast.FunctionDef, ast.AsyncFunctionDef, ast.ClassDef)) and ch.name == part:
                nxt = ch; break
        if nxt is None:
            # properties assigned as name = decorator(...)? or lambdas: give up
            return None
        node = nxt
    return node
CONSTRUCTS = {
 "yield": (ast.Yield, ast.YieldFrom), "try": (ast.Try,), "with": (ast.With,), "while": (ast.While,), "for": (ast.For,),
 "comprehension": (ast.ListComp, ast.DictComp, ast.SetComp, ast.GeneratorExp), "lambda": (ast.Lambda,),
 "nested_def": (ast.FunctionDef,), "walrus": (ast.NamedExpr,), "global": (ast.Global, ast.Nonlocal),
 "starred": (ast.Starred,), "raise": (ast.Raise,), "assert": (ast.Assert,), "import": (ast.Import, ast.ImportFrom),
 "fstring": (ast.JoinedStr,), "del": (ast.Delete,), "classdef": (ast.ClassDef,), "ifexp": (ast.IfExp,), "subscript_slice": (ast.Slice,),
}
trees = {}
def tree_for(mod):
    if mod not in trees:
        base = RVLTL if mod.startswith("@") else SRC
        p = base / (mod.lstrip("@").replace(".", "/") + ".py")
        trees[mod] = (ast.parse(p.read_text()), p)
    return trees[mod]
rows = []; missing = []; seen = {}
for prop, spec in C.items():
    for line in spec.splitlines():
        line = line.strip()
        if not line: continue
        if ":" in line.split()[0]:
            mod, first = line.split()[0].split(":", 1); names = [first] + line.split()[1:]
            cur_mod = mod
        else:
            names = line.split()
        for qn in names:
            t, p = tree_for(cur_mod)
            n = find(t, qn)
            if n is None: missing.append((prop, cur_mod, qn)); continue
            loc = n.end_lineno - n.lineno + 1
            uses = sorted(k for k, tys in CONSTRUCTS.items() if any(isinstance(x, tys) and x is not n for x in ast.walk(n)))
            calls = sum(isinstance(x, ast.Call) for x in ast.walk(n))
            rows.append(dict(prop=prop, mod=cur_mod, qn=qn, line=n.lineno, end=n.end_lineno, loc=loc, uses=uses, calls=calls))
            seen.setdefault((cur_mod, qn), []).append(prop)
out = []
byprop = collections.defaultdict(list)
for r in rows: byprop[r["prop"]].append(r)
tot_fn = len({(r["mod"], r["qn"]) for r in rows}); tot_loc = sum({(r["mod"], r["qn"]): r["loc"] for r in rows}.values())
out.append(f"carriers resolved: {len(rows)} entries, {tot_fn} distinct functions, {tot_loc} source lines; unresolved: {len(missing)}")
for m in missing: out.append(f"  UNRESOLVED {m}")
cons = collections.Counter(u for r in {(r['mod'], r['qn']): r for r in rows}.values() for u in r["uses"])
out.append("construct usage over distinct carriers: " + ", ".join(f"{k}={v}" for k, v in cons.most_common()))
for prop, rs in byprop.items():
    out.append(f"\n{prop}: {len(rs)} carriers, {sum(r['loc'] for r in rs)} lines, largest: " + ", ".join(f"{r['qn']}({r['loc']})" for r in sorted(rs, key=lambda r: -r['loc'])[:4]))
    for r in rs:
        out.append(f"  {r['mod'].lstrip('@')}:{r['qn']}  L{r['line']}-{r['end']} ({r['loc']} loc, {r['calls']} calls) {' '.join(r['uses'])}")
print("\n".join(out))
