import math, traceback, io, random, sys
import scenic
from scenic.core.simulators import DummySimulator
def t(name, f):
    try:
        print(name, "->", f())
    except Exception as e:
        print(name, "EXC", type(e).__name__, e); traceback.print_exc()
src = """
behavior B():
    while True:
        take 1
scenario Sub():
    setup:
        override ego with foo 1
        override ego with bar 2
        terminate after 2 steps
scenario Main():
    setup:
        ego = new Object with foo 0, with bar 0, with behavior B
        record ego.foo as foo
        record ego.bar as bar
    compose:
        do Sub()
        wait
        wait
"""
sc = scenic.scenarioFromString(src, scenario="Main")
scene,_ = sc.generate()
sim = DummySimulator().simulate(scene, maxSteps=6)
print("foo", sim.result.records["foo"])
print("bar", sim.result.records["bar"])
# relations NotEq
src2 = """
ego = new Object at (0,0)
c = new Object in RectangularRegion((0,0), 0, 40, 40), with requireVisible False
require (distance to c) != 5
"""
sc2 = scenic.scenarioFromString(src2)
print("relations:", [(type(r).__name__, r.lower, r.upper) for r in sc2.egoObject._relations])
