from scenic.syntax.parser import parse_string
from scenic.syntax.compiler import compileScenicAST
from scenic.core.errors import ScenicParseError, ScenicSyntaxError
tests = ["new Object = 5\n", "(distance to x) = 3\n", "x can see y = 4\n", "for (new Object) in y: pass\n", "del (new Object)\n",
 "visible x = 3\n", "(x relative to y) = 3\n", "(front of x) += 1\n", "with (new Object) as (new Object): pass\n", "[new Object for (x offset by y) in z]\n",
 "(a until b) = 3\n", "(always x) = 2\n", "f(new Object = 3)\n", "(x at y) := 3\n","x = (y := new Object at 3)\n", "require (always x) = 3\n", "del (a implies b)\n", "(a implies b) = 1\n"]
for t in tests:
    try:
        tree = parse_string(t, "exec")
        compileScenicAST(tree)
        print(repr(t), "OK")
    except ScenicParseError as e:
        print(repr(t), "ScenicParseError:", e.msg if hasattr(e,'msg') else e)
    except Exception as e:
        print(repr(t), "!!!", type(e).__name__, e)
