import math, traceback, io
def t(name, f):
    try:
        print(name, "->", f())
    except Exception as e:
        print(name, "EXC", type(e).__name__, e)
# rv_ltl nested until
import rv_ltl
a=rv_ltl.Atomic(identifier="a"); b=rv_ltl.Atomic(identifier="b")
f = rv_ltl.Next(rv_ltl.Until(a,b))
m = f.create_monitor()
for (av,bv) in [(True,False),(False,True),(False,False)]:
    m.update({"a":av,"b":bv})
print("next(a U b) on a=TFF b=FTF:", m.evaluate(), "(expected TRUE: b holds at step1)")
f = rv_ltl.Until(a,b); m=f.create_monitor()
for (av,bv) in [(True,False),(False,False),(False,True)]:
    m.update({"a":av,"b":bv})
print("a U b on a=TFF b=FFT:", m.evaluate(), "(expected FALSE)")
f = rv_ltl.Until(a,b); m=f.create_monitor()
for (av,bv) in [(True,False),(True,False),(False,True)]:
    m.update({"a":av,"b":bv})
print("a U b on a=TTF b=FFT:", m.evaluate(), "(expected TRUE)")
# regions
from scenic.core.regions import *
from scenic.core.vectors import Vector
A = PolygonalRegion([(0,0),(4,0),(4,4),(0,4)], z=3)
B = PolygonalRegion([(2,2),(6,2),(6,6),(2,6)], z=3)
I = A.intersect(B); print("intersect z:", I.z, "contains (3,3,3)?", I.containsPoint(Vector(3,3,3)), "sample", I.uniformPointInner())
D = A.difference(B); print("difference z:", D.z, D.uniformPointInner())
U = A.union(B); print("union z:", U.z)
C = CircularRegion(Vector(0,0,5), 1)
print("circle z=5 distanceTo (3,0,0):", C.distanceTo(Vector(3,0,0)), "expected", math.hypot(2,5))
S = SectorRegion(Vector(0,0,0), 10, 0, math.pi)
print("sector circumcircle", S.circumcircle)
ps = PointSetRegion("ps", [(x,y,0) for x in range(-10,11,2) for y in range(0,11,2)])
inter = ps.intersect(S)
t("pointset∩sector sample", lambda: inter.uniformPointInner())
P = PolygonalRegion([(0,0),(4,0),(4,4),(0,4)])
t("pointset∩polygon sample", lambda: ps.intersect(P).uniformPointInner())
# projectVector
box = BoxRegion(dimensions=(10,10,10), position=Vector(0,0,0))
surf = box.getSurfaceRegion()
t("project (0,0,4) dir z on box surface", lambda: surf.projectVector(Vector(0,0,4), Vector(0,0,1)))
t("project (0,0,-4) dir z on box surface", lambda: surf.projectVector(Vector(0,0,-4), Vector(0,0,1)))
t("project (0,0,-4) dir -z on box surface", lambda: surf.projectVector(Vector(0,0,-4), Vector(0,0,-1)))
