import math, traceback, io, random
import scenic
from scenic.core.serialization import *
def t(name, f):
    try:
        print(name, "->", f())
    except Exception as e:
        print(name, "EXC", type(e).__name__, e)
def compile(src, **kw):
    return scenic.scenarioFromString(src, **kw)
t("order1", lambda: compile("ego = new Object\nx = new Object visible, not visible, at (5,5)\n"))
t("order2", lambda: compile("ego = new Object\nx = new Object visible, at (5,5), not visible\n"))
t("order3", lambda: compile("ego = new Object\nx = new Object at (5,5), visible, not visible\n"))
# readInt truncated
s = io.BytesIO(); writeInt(1000, s); data = s.getvalue(); print("enc 1000:", data)
t("readInt trunc", lambda: readInt(io.BytesIO(data[:-1])))
s = io.BytesIO(); writeInt(10**10, s); data = s.getvalue()
t("readInt big trunc", lambda: readInt(io.BytesIO(data[:-1])))
s = io.BytesIO(); writeStr("hello", s); data = s.getvalue()
t("readStr trunc", lambda: readStr(io.BytesIO(data[:-2])))
for v in [0,252,253,-1,32767,32768,-32768,-32769,2**31-1,2**31,-2**31,-2**31-1,2**63,-2**63, 2**2031-1]:
    s = io.BytesIO(); writeInt(v, s); assert readInt(io.BytesIO(s.getvalue()))==v, v
print("roundtrip ok")
# scene round trip with corrupted multiplexer index
sc = compile("ego = new Object with foo Uniform('a','b','c')\n")
scene,_ = sc.generate()
b = sc.sceneToBytes(scene); print("bytes", b)
for i in range(10, len(b)):
    for val in (0xff, 0x7f, 200):
        bb = bytearray(b); bb[i] = val
        try:
            sc.sceneFromBytes(bytes(bb))
        except SerializationError: pass
        except Exception as e:
            print("corrupt byte", i, val, "->", type(e).__name__, e); break
for n in range(len(b)):
    try:
        sc.sceneFromBytes(b[:n]); print("trunc", n, "accepted")
    except SerializationError: pass
    except Exception as e:
        print("trunc", n, "->", type(e).__name__, e)
