import scenic
from scenic.core.simulators import DummySimulator
def run(src, maxSteps=10, timestep=None, **kw):
    sc = scenic.scenarioFromString(src, **kw)
    scene,_ = sc.generate()
    sim = DummySimulator().simulate(scene, maxSteps=maxSteps, timestep=timestep)
    if sim is None: return "REJECTED"
    ego = scene.objects[0]
    acts = [a[ego][0] if a[ego] else None for a in sim.result.actions]
    return dict(t=sim.currentTime, traj=len(sim.result.trajectory), acts=acts, term=sim.result.terminationType.name)
print("1 terminate after 3 steps:", run("""
behavior B():
    i = 0
    while True:
        take i
        i += 1
ego = new Object with behavior B
terminate after 3 steps
"""))
print("2 do for 3 steps then take 9:", run("""
behavior Sub():
    while True:
        take 1
behavior B():
    do Sub() for 3 steps
    take 9
    take 10
ego = new Object with behavior B
""", maxSteps=6))
print("3 wait for 2 steps:", run("""
behavior B():
    wait for 2 steps
    take 9
ego = new Object with behavior B
""", maxSteps=4))
print("4 seconds with timestep 0.5 (terminate after 1.5 seconds):", run("""
behavior B():
    while True:
        take 1
ego = new Object with behavior B
terminate after 1.5 seconds
""", timestep=0.5))
print("5 do for 1.1 seconds timestep 0.1 (float 1.1/0.1):", run("""
behavior Sub():
    while True:
        take 1
behavior B():
    do Sub() for 1.1 seconds
    take 9
ego = new Object with behavior B
""", maxSteps=14, timestep=0.1))
print("6 interrupt priority (both enabled -> later clause wins):", run("""
behavior B():
    try:
        while True:
            take 0
    interrupt when simulation().currentTime >= 1:
        take 1
    interrupt when simulation().currentTime >= 1:
        take 2
ego = new Object with behavior B
""", maxSteps=4))
print("7 nested: outer preempts inner:", run("""
behavior B():
    try:
        try:
            while True:
                take 0
        interrupt when simulation().currentTime >= 1:
            take 1
            take 1
            take 1
    interrupt when simulation().currentTime == 2:
        take 2
ego = new Object with behavior B
""", maxSteps=6))
print("8 do until:", run("""
behavior Sub():
    while True:
        take 1
behavior B():
    do Sub() until simulation().currentTime >= 2
    take 9
ego = new Object with behavior B
""", maxSteps=4))
print("9 terminate when:", run("""
behavior B():
    while True:
        take 1
ego = new Object with behavior B
terminate when simulation().currentTime >= 2
"""))
