"""Recon: compare built-in specifiers' (properties, priorities, dependencies) with docs/reference/specifiers.rst."""
import re, math
import scenic
from scenic.core.vectors import Vector, VectorField
from scenic.core.regions import PolygonalRegion, everywhere
import scenic.syntax.veneer as v
from scenic.syntax.translator import CompileOptions
# ---- parse the reference
txt = open('/repo/docs/reference/specifiers.rst').read()
sections = re.split(r'\n([^\n]+)\n-{5,}\n', txt)
doc = {}
for i in range(1, len(sections), 2):
    title = sections[i].strip(); body = sections[i+1]
    spec = {}
    m = re.search(r'\*\*Specifies\*\*:\s*\n(.*?)\n\n\*\*Dependencies\*\*:\s*([^\n]*)', body, re.S)
    if not m: continue
    for line in m.group(1).splitlines():
        mm = re.search(r':prop:`(\w+)` with priority (\d)', line)
        if mm: spec[mm.group(1)] = int(mm.group(2))
        elif 'given property' in line: spec['<given>'] = 1
    deps = set(re.findall(r':prop:`(\w+)`', m.group(2)))
    doc[title] = (spec, deps)
# ---- build the real specifiers
v.activate(CompileOptions())
try:
    ego = v.new(v.Object, [v.At(Vector(0, 0, 0))]); v.ego(ego)
    other = v.new(v.Object, [v.At(Vector(10, 0, 0))])
    op = v.new(v.OrientedPoint, [v.At(Vector(5, 5, 0))])
    field = VectorField("f", lambda pos: 0.3)
    region_o = PolygonalRegion([(0,0),(4,0),(4,4),(0,4)], orientation=field)
    region_n = PolygonalRegion([(0,0),(4,0),(4,4),(0,4)])
    vec = Vector(1, 2, 0)
    cases = {
      "with *property* *value*": v.With("foo", 3),
      "at *vector*": v.At(vec),
      "in *region*": v.In(region_o),
      "in *region* [no orientation]": v.In(region_n),
      "contained in *region*": v.ContainedIn(region_o),
      "on (*region* | *Object* | *vector*)": v.On(region_o),
      "on [no orientation]": v.On(region_n),
      "offset by *vector*": v.OffsetBy(vec),
      "offset along *direction* by *vector*": v.OffsetAlongSpec(0.5, vec),
      "beyond *vector* by (*vector* | *scalar*) [from (*vector* | *OrientedPoint*)]": v.Beyond(vec, 3),
      "visible [from (*Point* | *OrientedPoint*)]": v.VisibleFrom(op),
      "not visible [from (*Point* | *OrientedPoint*)]": v.NotVisibleFrom(op),
      "(left | right) of (*vector*) [by *scalar*]": v.LeftSpec(vec, 1),
      "(left | right) of *OrientedPoint* [by *scalar*]": v.RightSpec(op, 1),
      "(left | right) of *Object* [by *scalar*]": v.LeftSpec(other),
      "(ahead of | behind) *vector* [by *scalar*]": v.Ahead(vec),
      "(ahead of | behind) *OrientedPoint* [by *scalar*]": v.Behind(op, 2),
      "(ahead of | behind) *Object* [by *scalar*]": v.Ahead(other, 2),
      "(above | below) *vector* [by *scalar*]": v.Above(vec),
      "(above | below) *OrientedPoint* [by *scalar*]": v.Below(op),
      "(above | below) *Object* [by *scalar*]": v.Above(other),
      "following *vectorField* [from *vector*] for *scalar*": v.Following(field, 3, vec),
      "facing *orientation*": v.Facing(0.5),
      "facing *vectorField*": v.Facing(field),
      "facing (toward | away from) *vector*": v.FacingToward(vec),
      "facing (toward | away from) *vector* [away]": v.FacingAwayFrom(vec),
      "facing directly (toward | away from) *vector*": v.FacingDirectlyToward(vec),
      "facing directly (toward | away from) *vector* [away]": v.FacingDirectlyAwayFrom(vec),
      "apparently facing *heading* [from *vector*]": v.ApparentlyFacing(0.5, vec),
    }
    for title, spec in cases.items():
        key = title.split(" [")[0] if title not in doc else title
        if key not in doc:
            print("?? no doc section for", title); continue
        dspec, ddeps = doc[key]
        cspec = dict(spec.priorities); cdeps = set(spec.requiredProperties)
        cs = {('<given>' if k == 'foo' else k): p for k, p in cspec.items() if not k.startswith('_')}
        ds = dict(dspec)
        if "no orientation" in title: ds.pop("parentOrientation", None)
        ok = (cs == ds) and (cdeps == ddeps)
        print(("OK  " if ok else "DIFF"), title, "| code:", cs, sorted(cdeps), "| doc:", ds, sorted(ddeps), "| name:", spec.name)
finally:
    v.deactivate()
