import sys, random
seed = int(sys.argv[1])
rng = random.Random(seed)
class J:
    def __init__(self): self.x=1
junk = []
for _ in range(rng.randrange(0, 60000)):
    k = rng.randrange(4)
    junk.append(J() if k==0 else bytearray(rng.randrange(8,200)) if k==1 else [None]*rng.randrange(1,20) if k==2 else {})
keep = [j for j in junk if rng.random()<0.5]
del junk
import scenic, numpy
src = """
ego = new Object
a = Range(0,1)
R = BoxRegion(dimensions=(Range(1,2),1,1))
S = BoxRegion(dimensions=(Range(1,2),1,1))
T = BoxRegion(dimensions=(Range(1,2),1,1))
require a < 0.3
require R.containsPoint((0,0,0))
require S.containsPoint((0,0,0))
require T.containsPoint((0,0,0))
"""
random.seed(1); numpy.random.seed(1)
sc = scenic.scenarioFromString(src)
ns = sc.dynamicScenario._dummyNamespace
names = {id(ns[k]): k for k in "aRST"}
order = [names.get(id(d), "?") for d in sc.dependencies]
out=[]
for i in range(4):
    scene,its = sc.generate()
    out.append(its)
print(order, out)
