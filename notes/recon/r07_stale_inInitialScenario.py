import scenic
import scenic.syntax.veneer as veneer
src = """
scenario Main():
    setup:
        if initial scenario:
            ego = new Object with tag 1
        else:
            ego = new Object with tag 2
"""
print("before", veneer.inInitialScenario)
s1 = scenic.scenarioFromString(src, scenario="Main")
print("first compile: tag", s1.egoObject.tag, "| inInitialScenario now", veneer.inInitialScenario)
s2 = scenic.scenarioFromString(src, scenario="Main")
print("second compile: tag", s2.egoObject.tag)
