from scenic.core.regions import *
from scenic.core.vectors import Vector
def t(name, f):
    try: print(name, "->", f())
    except Exception as e: print(name, "EXC", type(e).__name__, e)
P = PolygonalRegion([(0,0),(4,0),(4,4),(0,4)])
Q = PolygonalRegion([(1,1),(2,1),(2,2),(1,2)])
t("footprint.containsRegion(polygon)", lambda: P.footprint.containsRegion(Q))
L = PolylineRegion([(0,0),(4,4)])
t("polyline.containsRegion(polyline)", lambda: L.containsRegion(PolylineRegion([(1,1),(2,2)])))
Pz = PolygonalRegion([(0,0),(4,0),(4,4),(0,4)], z=5)
t("polyline(z=0).intersects(polygon z=5)", lambda: L.intersects(Pz))
t("polygon z=5 .intersects(polyline z=0)", lambda: Pz.intersects(L))
t("polyline.difference(polygon z=5)", lambda: L.difference(Pz))
t("polygon(z=5).containsPoint((1,1,0))", lambda: Pz.containsPoint(Vector(1,1,0)))
t("polygon(z=5).distanceTo((1,1,0))", lambda: Pz.distanceTo(Vector(1,1,0)))
