import scenic, random, collections
from scenic.core.simulators import DummySimulator
src = """
behavior A():
    take 1
behavior B():
    take 2
behavior C():
    take 3
behavior Main():
    do shuffle {A(): 1, B(): 2, C(): 3}
    take 9
ego = new Object with behavior Main
"""
sc = scenic.scenarioFromString(src)
cnt = collections.Counter()
random.seed(0)
for i in range(600):
    scene,_ = sc.generate()
    sim = DummySimulator().simulate(scene, maxSteps=5)
    acts = tuple(a[scene.objects[0]][0] if a[scene.objects[0]] else None for a in sim.result.actions)
    cnt[acts]+=1
for k,v in sorted(cnt.items()): print(k, v)
src2 = src.replace("do shuffle {A(): 1, B(): 2, C(): 3}", "do choose {A(): 1, B(): 2, C(): 3}")
sc = scenic.scenarioFromString(src2)
cnt = collections.Counter()
for i in range(600):
    scene,_ = sc.generate()
    sim = DummySimulator().simulate(scene, maxSteps=3)
    acts = tuple(a[scene.objects[0]][0] if a[scene.objects[0]] else None for a in sim.result.actions)
    cnt[acts]+=1
for k,v in sorted(cnt.items()): print(k, v)
