import scenic, random, gc
from scenic.core.simulators import DummySimulator
src = """
import gc
behavior B():
    while True:
        gc.collect()
        x = Uniform(1, 2, 3, 4, 5, 6)
        take x
ego = new Object with behavior B
"""
sc = scenic.scenarioFromString(src)
random.seed(3)
scene,_ = sc.generate()
N = 40
sim = DummySimulator().simulate(scene, maxSteps=N)
acts = [a[scene.objects[0]] for a in sim.result.actions]
rep = sim.getReplay()
print("steps:", len(acts), "replay bytes:", len(rep), "(expected", 6 + N, "if every index is written)")
random.seed(99)
try:
    sim2 = DummySimulator().simulate(scene, maxSteps=N, replay=rep)
    acts2 = [a[scene.objects[0]] for a in sim2.result.actions]
    print("same actions:", acts == acts2)
    print(acts[:14]); print(acts2[:14])
except Exception as e:
    print("replay EXC", type(e).__name__, e)
