import math, traceback
from scenic.core.vectors import Vector
from scenic.core.distributions import *
def t(name, f):
    try:
        print(name, "->", f())
    except Exception as e:
        print(name, "EXC", type(e).__name__, e)
t("cross", lambda: Vector(1,0,0).cross(Vector(0,1,0)))
from scenic.core.geometry import hypot, normalizeAngle
t("hypot support", lambda: supportInterval(hypot(Range(-5,1), 0)))
t("abs normal support", lambda: supportInterval(abs(Normal(0,1))))
t("neg normal support", lambda: supportInterval(-Normal(0,1)))
t("abs range", lambda: supportInterval(abs(Range(-3,2))))
# kwoperands evaluateInner
from scenic.core.lazy_eval import DelayedArgument, LazilyEvaluable
r = Range(0,1)
od = OperatorDistribution("__call__", r, (), {"k": DelayedArgument({"width"}, lambda ctx: ctx.width, _internal=True)})
ctx = LazilyEvaluable.makeContext(width=3)
t("kwoperands evalInner", lambda: od.evaluateInner(ctx))
# valuesHaveDiverged
from scenic.core.simulators import Simulation
class S: divergenceTolerance = 0.5
t("diverged +", lambda: Simulation.valuesHaveDiverged(S(), None, "p", 1.0, 3.0))
t("diverged -", lambda: Simulation.valuesHaveDiverged(S(), None, "p", 3.0, 1.0))
t("diverged vec", lambda: Simulation.valuesHaveDiverged(S(), None, "p", Vector(0,0,0), Vector(3,0,0)))
# pruning RH range
from scenic.core.pruning import relativeHeadingRange
lo, hi = relativeHeadingRange(-0.9*math.pi, 0, 0, 0.8*math.pi, 0, 0)
print("RH range", lo/math.pi, hi/math.pi, "true RH", normalizeAngle(0.8*math.pi+0.9*math.pi)/math.pi)
