import math
from scenic.core.object_types import OrientedPoint, Object
from scenic.core.vectors import Vector
# viewer at (10,0,0) facing west (yaw=+90deg => heading 90deg ccw from +Y = -X direction), narrow view cone
v = OrientedPoint._with(position=Vector(10,0,0), yaw=math.pi/2, viewAngles=(math.radians(30), math.radians(30)), visibleDistance=50)
tgt_ahead = Vector(0,0,0)      # directly ahead (to the west)
tgt_behind = Vector(20,0,0)    # directly behind
print("ahead:", v.canSee(tgt_ahead), "in visibleRegion:", v.visibleRegion.containsPoint(tgt_ahead))
print("behind:", v.canSee(tgt_behind), "in visibleRegion:", v.visibleRegion.containsPoint(tgt_behind))
t3 = Vector(10,-10,0) # to the south: heading 90deg faces -X so south is to the left 90deg -> not visible
print("south:", v.canSee(t3), v.visibleRegion.containsPoint(t3))
t4 = Vector(5, 0.5, 0)
print("t4:", v.canSee(t4), v.visibleRegion.containsPoint(t4))
