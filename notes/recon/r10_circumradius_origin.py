import numpy, trimesh
from scenic.core.regions import MeshVolumeRegion
from scenic.core.vectors import Vector
# asymmetric mesh: a long thin wedge (tetrahedron-like) via convex hull
pts = numpy.array([[-1,-1,-0.1],[-1,1,-0.1],[-1,-1,0.1],[-1,1,0.1],[1,0,0]],dtype=float)
m = trimesh.convex.convex_hull(pts)
A = MeshVolumeRegion(m, position=Vector(0.3,0,0))
print("A circumradius (code):", A._circumradius, " true max|v-P|:", numpy.max(numpy.linalg.norm(A.mesh.vertices - numpy.array([0.3,0,0]),axis=1)))
# small box near A's far corner (-0.7,1,0): put B so that it overlaps A's corner region
from scenic.core.regions import BoxRegion
bm = trimesh.creation.box((0.1,0.1,0.1))
# B centered so that its position is such that center_distance > rA + rB but it overlaps A's corner
# A corner vertex at (-0.7, 1, 0.1)... put B at (-0.68, 0.97, 0)
B = MeshVolumeRegion(bm, position=Vector(-0.68,0.97,0))
print("B circumradius (code):", B._circumradius)
cd = numpy.linalg.norm(numpy.array([0.3,0,0])-numpy.array([-0.68,0.97,0]))
print("center dist", cd, "sum radii", A._circumradius+B._circumradius)
print("intersects (code):", A.intersects(B))
inter = trimesh.boolean.intersection([A.mesh,B.mesh])
print("true intersection volume:", inter.volume if not inter.is_empty else 0)
