from scenic.syntax.parser import parse_string
from scenic.syntax.compiler import compileScenicAST
import ast
tests = ["require (always x) implies y", "require (eventually x) as foo", "require x implies (always y)", "require (x until y) implies z",
 "require always (x implies y)", "require (always x) and (eventually y)", "require (always x) or y", "require not (always x)",
 "require (x until y) until z", "require x until (y until z)", "require always x until y", "require next next x", "require always (x and next y)",
 "require (always x)", "require ((always x))", "require (always x) if y else z", "require x implies y implies z", "require always x implies y",
 "require (x implies y) implies z", "require (always x) # comment", "require eventually (x until y)"]
for t in tests:
    try:
        tree = parse_string(t+"\n", "exec")
        py, reqs = compileScenicAST(tree)
        print("OK  ", t, " =>", ast.unparse(py)[:110].replace("\n"," "))
    except Exception as e:
        print("ERR ", t, "=>", type(e).__name__, getattr(e,'msg',e))
