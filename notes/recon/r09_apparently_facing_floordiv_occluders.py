import scenic, math, random
def t(name, f):
    try:
        print(name, "->", f())
    except Exception as e:
        print(name, "EXC", type(e).__name__, e)
sc = scenic.scenarioFromString("""
ego = new Object at (0,0)
a = new Object at (0,10), with parentOrientation (90 deg, 0, 0), apparently facing 0 from (0,0)
b = new Object at (0,20), with parentOrientation (90 deg, 0, 0), facing toward (0,30)
c = new Object at (0,30), apparently facing 0 from (0,0)
""")
s,_ = sc.generate()
for o in s.objects[1:]:
    print("heading(deg)", round(math.degrees(o.heading),3), "yaw", round(math.degrees(o.yaw),3))
# floordiv simplification
from scenic.core.distributions import Range
x = Range(0.2, 0.8)
y = x // 1
print("x//1 is x:", y is x, " sample:", y.sample(), "python:", 0.5//1)
# occluders iterator reuse
sc2 = scenic.scenarioFromString("""
ego = new Object at (0,0,0)
p = new OrientedPoint at (0,-20,0)
wall = new Object at (0,-5,0), with width 40, with length 1, with height 40
a = new Object at (0,5,0), visible from p
b = new Object at (5,8,0), visible from p
""")
reqs = [r for r in sc2.defaultRequirements if type(r).__name__=="VisibilityRequirement"]
for r in reqs: print("vis req target", r.target, "n potential occluders", len(r.potential_occluders))
