"""BOUNDED stand-in for the object branch of scenic.core.visibility.canSee (property C17).

The ray-casting branch (numpy masks, fancy indexing, trimesh ray queries) is outside the reach of the pyvc engine, so
the clauses of C17 that concern *objects* are checked here as run-time contracts on the REAL `Object.canSee`, over a
finite catalogue.  This is a bounded check: it is labelled `bounded` in the evidence and never counted as proved.

Catalogue (the bound): viewers = 3 poses (origin/axis-aligned; translated + yawed; translated + yaw/pitch/roll with a
camera offset) x 4 view settings (20x20 deg, 90x60 deg, 200x120 deg, full sphere).  Targets are boxes placed in the
*viewer's own frame* (so every pose sees the same relative configurations): centre at polar (r, azimuth, altitude) with
r in {0.5, 0.95, 1.3, 2} x visibleDistance, azimuth in {0, 0.8 h/2, 1.3 h/2, 90 deg, 180 deg}, altitude in {0, 1.3 v/2};
box shapes cube 1x1x1, beam 0.5x20.6x1, plate 6x6x0.5; local yaw 0 or 50 deg (quick tier: a fixed subset, see plan()).

Oracle (written from the property statement, independent of the code): the view volume is the set of points p with
|q| <= D, |atan2(-q.x, q.y)| <= h/2 and |atan2(q.z, hypot(q.x, q.y))| <= v/2 where q = R^-1 (p - camera),
camera = position + R * cameraOffset, R = Rz(yaw) Rx(pitch) Ry(roll).  The surface of each box is sampled on a grid of
spacing s; "wholly outside" is decided with a margin that covers the grid spacing, so that the clauses cannot fire on a
tree where the property holds:
  outside_view_volume_is_not_visible   no surface sample within the volume grown by the margin  =>  canSee is False
  substantial_part_in_view_is_visible  >= 30% of the samples within the volume shrunk by the margin, viewer outside the box,
                                       nothing occluding  =>  canSee is True
  occluders_only_remove_visibility     canSee with a wall  =>  canSee without it
  fully_blocked_is_not_visible         (compact target, altitude 0) a wall covering every line of sight => canSee is False
"""
import math
import os

import numpy as np


def rot(yaw, pitch, roll):
    cz, sz = math.cos(yaw), math.sin(yaw)
    cx, sx = math.cos(pitch), math.sin(pitch)
    cy, sy = math.cos(roll), math.sin(roll)
    Rz = np.array([[cz, -sz, 0], [sz, cz, 0], [0, 0, 1]])
    Rx = np.array([[1, 0, 0], [0, cx, -sx], [0, sx, cx]])
    Ry = np.array([[cy, 0, sy], [0, 1, 0], [-sy, 0, cy]])
    return Rz @ Rx @ Ry


VIEWERS = [
    ("origin", (0.0, 0.0, 0.0), (0.0, 0.0, 0.0), (0.0, 0.0, 0.0)),
    ("translated+yaw", (30.0, -20.0, 5.0), (2.0, 0.0, 0.0), (0.0, 0.0, 0.0)),
    ("translated+ypr+offset", (-15.0, 40.0, 3.0), (-2.4, 0.5, -0.7), (0.5, 1.0, 0.8)),
]
SETTINGS = [
    ("20x20deg", (math.radians(20), math.radians(20)), 10.0),
    ("90x60deg", (math.radians(90), math.radians(60)), 15.0),
    ("200x120deg", (math.radians(200), math.radians(120)), 8.0),
    ("full-sphere", (2 * math.pi, math.pi), 10.0),
]
SHAPES = [("cube", (1.0, 1.0, 1.0)), ("beam", (0.5, 20.6, 1.0)), ("plate", (6.0, 6.0, 0.5))]


def plan(tier, seed=0):
    jobs = []
    for vi, v in enumerate(VIEWERS):
        for si, (sname, (h, vv), D) in enumerate(SETTINGS):
            for ri, rf in enumerate((0.5, 0.95, 1.3, 2.0)):
                for ai, az in enumerate((0.0, 0.8 * h / 2, 1.3 * h / 2, math.pi / 2, math.pi)):
                    for li, alt in enumerate((0.0, 1.3 * vv / 2)):
                        if alt > math.pi / 2 - 0.05:
                            alt = math.pi / 2 - 0.05
                        for shi, (shname, dims) in enumerate(SHAPES):
                            for yi, lyaw in enumerate((0.0, math.radians(50))):
                                idx = (vi, si, ri, ai, li, shi, yi)
                                if tier != "thorough" and (sum(idx) + seed) % 5 != 0:
                                    continue  # quick tier: every fifth configuration (shifted by the seed)
                                jobs.append(dict(viewer=v, setting=(sname, (h, vv), D), r=rf * D, az=az, alt=alt, shape=(shname, dims), lyaw=lyaw))
    return jobs


def box_samples(dims, spacing):
    w, l, hh = dims
    pts = []
    half = (w / 2, l / 2, hh / 2)
    for axis in range(3):
        others = [a for a in range(3) if a != axis]
        grids = []
        for a in others:
            n = max(2, int(math.ceil(2 * half[a] / spacing)) + 1)
            grids.append(np.linspace(-half[a], half[a], n))
        A, B = np.meshgrid(*grids, indexing="ij")
        for sign in (-1, 1):
            P = np.zeros(A.shape + (3,))
            P[..., axis] = sign * half[axis]
            P[..., others[0]] = A
            P[..., others[1]] = B
            pts.append(P.reshape(-1, 3))
    return np.vstack(pts)


def in_volume(q, D, h, v, dD, dang):
    """q: points in the camera frame; volume grown (dD, dang > 0) or shrunk (< 0)."""
    dist = np.linalg.norm(q, axis=1)
    az = np.arctan2(-q[:, 0], q[:, 1])
    alt = np.arctan2(q[:, 2], np.hypot(q[:, 0], q[:, 1]))
    ang = dang if np.isscalar(dang) else dang
    ok = dist <= D + dD
    if h < 2 * math.pi - 1e-9:
        ok &= np.abs(az) <= h / 2 + ang
    if v < math.pi - 1e-9:
        ok &= np.abs(alt) <= v / 2 + ang
    return ok


def run_job(job):
    """Runs the real code on one configuration; returns {clause: None | text}."""
    from scenic.core.object_types import Object
    from scenic.core.vectors import Orientation, Vector

    vname, vpos, vypr, voff = job["viewer"]
    sname, (h, v), D = job["setting"]
    shname, dims = job["shape"]
    Rv = rot(*vypr)
    cam = np.array(vpos) + Rv @ np.array(voff)
    r, az, alt, lyaw = job["r"], job["az"], job["alt"], job["lyaw"]
    # centre of the target in the camera frame: azimuth measured anticlockwise from the y axis
    c_local = r * np.array([-math.sin(az) * math.cos(alt), math.cos(az) * math.cos(alt), math.sin(alt)])
    c_world = cam + Rv @ c_local
    Rt = Rv @ rot(lyaw, 0, 0)
    vo = Orientation.fromEuler(*vypr)
    viewer = Object._with(position=Vector(*vpos), parentOrientation=vo, cameraOffset=Vector(*voff), viewAngles=(h, v), visibleDistance=D, width=0.2, length=0.2, height=0.2)
    target = Object._with(position=Vector(*c_world), parentOrientation=vo * Orientation.fromEuler(lyaw, 0, 0), width=dims[0], length=dims[1], height=dims[2])
    # sanity of the harness itself: the box I sample is the box Scenic builds
    mine = np.array([c_world + Rt @ (np.array(s) * np.array(dims) / 2) for s in [(a, b, c) for a in (-1, 1) for b in (-1, 1) for c in (-1, 1)]])
    theirs = np.array([np.array(k) for k in target.corners])
    if len(theirs) != 8 or max(min(np.linalg.norm(m - t) for t in theirs) for m in mine) > 1e-5:
        raise RuntimeError(f"harness: sampled box differs from the Scenic object's corners ({job})")
    spacing = 0.125
    S_local_t = box_samples(dims, spacing)
    q = (S_local_t @ rot(lyaw, 0, 0).T) + c_local  # samples in the camera frame
    dmin = max(float(np.min(np.linalg.norm(q, axis=1))), 1e-6)
    margin_d = 2 * spacing
    margin_a = math.radians(2) + min(math.pi / 2, 2 * spacing / dmin)
    grown = in_volume(q, D, h, v, margin_d, margin_a)
    shrunk = in_volume(q, D, h, v, -margin_d - 0.05 * D, -margin_a)
    # is the camera inside the target box?
    cam_in_t = np.all(np.abs(rot(lyaw, 0, 0).T @ (-c_local)) <= np.array(dims) / 2 + 1e-9)
    res = {}
    desc = (
        f"viewer {vname} at {vpos} ypr {vypr} cameraOffset {voff}, view {sname} distance {D}; target {shname} {dims} centred at "
        f"r={r:.2f} az={math.degrees(az):.1f}deg alt={math.degrees(alt):.1f}deg in the viewer's frame (world {tuple(round(float(x), 3) for x in c_world)}), local yaw {math.degrees(lyaw):.0f}deg"
    )
    see = bool(viewer.canSee(target))
    if not cam_in_t:
        if not grown.any():
            res["outside_view_volume_is_not_visible"] = None if not see else f"reported VISIBLE although no part of the target is within the view volume (even grown by {margin_d} m / {math.degrees(margin_a):.1f} deg): {desc}"
        frac = float(shrunk.mean())
        if frac >= 0.3:
            res["substantial_part_in_view_is_visible"] = None if see else f"reported NOT visible although {frac:.0%} of the target's surface is well inside the view volume and nothing occludes: {desc}"
    # occluders: a wall half-way between the camera and the target centre, perpendicular to the line of sight (altitude 0 only)
    if job["alt"] == 0.0 and r >= 3.0 and not cam_in_t:
        w_local = c_local / 2
        wall = Object._with(position=Vector(*(cam + Rv @ w_local)), parentOrientation=vo * Orientation.fromEuler(az, 0, 0), width=max(4.0, 1.5 * max(dims)), length=0.2, height=max(4.0, 1.5 * max(dims)))
        see_w = bool(viewer.canSee(target, occludingObjects=(wall,)))
        res["occluders_only_remove_visibility"] = None if (not see_w or see) else f"visible WITH an occluding wall but not without it: {desc}"
        if shname == "cube":
            res["fully_blocked_is_not_visible"] = None if not see_w else f"reported VISIBLE although a wall {max(4.0, 1.5 * max(dims))} m wide and high half-way to the target blocks every line of sight: {desc}"
    return res


CLAUSES = ["outside_view_volume_is_not_visible", "substantial_part_in_view_is_visible", "occluders_only_remove_visibility", "fully_blocked_is_not_visible"]


def run_all(tier, seed):
    import warnings

    warnings.filterwarnings("ignore")
    jobs = plan(tier, seed)
    out = {c: [0, None, None] for c in CLAUSES}
    for job in jobs:
        r = run_job(job)
        for c, text in r.items():
            out[c][0] += 1
            if text and out[c][1] is None:
                out[c][1], out[c][2] = text, job
    return jobs, out


def replay(inputs, clause):
    job = inputs.get("configuration")
    if not job:
        return None
    job = dict(job)
    job["viewer"] = tuple(tuple(x) if isinstance(x, list) else x for x in job["viewer"])
    job["setting"] = (job["setting"][0], tuple(job["setting"][1]), job["setting"][2])
    job["shape"] = (job["shape"][0], tuple(job["shape"][1]))
    r = run_job(job)
    for c, text in r.items():
        if text and c in clause:
            return text
    return None


def register(reg):
    from pyvc import contracts as C

    tier = os.environ.get("VERIF_TIER", "quick")
    seed = int(os.environ.get("VERIF_SEED", "0"))

    def post(I, env, outcome):
        jobs, out = run_all(tier, seed)
        for c in CLAUSES:
            n, bad, job = out[c]
            if bad:
                I.eng.input_syms.append(("configuration", C.Const(None), job))
            I.eng.check(f"standin.view_volume_catalogue#{c}", bad is None, detail=bad or f"{n} configurations", kind="bounded")
            if bad:
                del I.eng.input_syms[-1:]
        I.eng.check("standin.view_volume_catalogue#catalogue_nonempty", len(jobs) > 0 and all(out[c][0] > 0 for c in CLAUSES), detail=f"{len(jobs)} configurations ({tier} tier, seed {seed}); per clause: " + ", ".join(f"{c}={out[c][0]}" for c in CLAUSES), kind="bounded")

    reg.add(
        C.Contract(
            "scenic.syntax.veneer:isActive",
            params={},
            post=post,
            bounded=True,
            replay=replay,
            note="BOUNDED stand-in (never counted as proved): C17's clauses for object targets as run-time contracts on the real Object.canSee over the catalogue of standins/view_volume.py "
            "(3 viewer poses x 4 view settings x boxes placed in the viewer's frame; brute-force surface sampling as oracle)",
            properties=("C17",),
        ),
        key="scenic.syntax.veneer:isActive[view-volume-catalogue]",
    )


if __name__ == "__main__":
    import sys, time

    t = time.time()
    jobs, out = run_all(sys.argv[1] if len(sys.argv) > 1 else "quick", 0)
    print(len(jobs), "configurations", round(time.time() - t, 1), "s")
    for c in CLAUSES:
        print(c, out[c][0], out[c][1])
