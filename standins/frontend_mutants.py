"""BOUNDED stand-in for the unreachable half of C10 (never counted as proved).

What it runs: the REAL front end -- `scenic.syntax.translator._scenarioFromStream` (topLevelNamespace, veneer
activation, compileStream: parse_string + compileScenicAST + compileTranslatedTree, the `finally` blocks) -- on
token-level mutants (delete / insert / replace / swap / re-indent / truncate, seeded by VERIF_SEED) of

  * the .scenic programs under <repo>/examples, and
  * the Scenic examples quoted in <repo>/docs/reference (`.. code-block:: scenic` blocks, literal `::` blocks and complete-statement
    `:scenic:` inline examples; the latter must also be ACCEPTED unmutated).

The execution phase of the translated program (`executeCodeIn`, `storeScenarioStateIn`, `constructScenarioFrom`) is
replaced by no-ops: running mutated programs is outside the property (parsing and compiling).

Oracle per mutant: compilation succeeds or the exception is a ScenicSyntaxError with 1 <= lineno <= number of lines
(text.split('\\n')); `veneer.isActive()` is false and `veneer.activity == 0` afterwards; it returns within 20 s.

Bound: quick tier = 20 example files (VERIF_SEED-chosen among the smaller two thirds) x (unmutated + 3 mutants) + every docs
example x (unmutated + 1 mutant); thorough tier = every file x 12 mutants + docs x 6.

Obligations: one per corpus group (examples/<dir>, docs/reference/<file>) and oracle clause, so that the names do not depend
on the seed."""
import io
import json
import os
import random
import re
import subprocess
import sys
import tokenize

TIMEOUT = 20
STATEMENT_WORDS = {"require", "record", "terminate", "param", "model", "mutate", "override", "do", "take", "wait", "abort", "simulator", "ego", "workspace"}


# ------------------------------------------------------------------------------------------------ corpus
def repo_root():
    return os.environ.get("PYVC_REPO", "/repo")


def example_files(root):
    out = []
    for d, _, fs in os.walk(os.path.join(root, "examples")):
        for f in fs:
            if f.endswith(".scenic"):
                p = os.path.join(d, f)
                if os.path.getsize(p) > 0:
                    out.append(os.path.relpath(p, root))
    return sorted(out)


def docs_examples(root):
    """(origin, text, must_be_accepted) for the examples quoted in docs/reference."""
    out = []
    base = os.path.join(root, "docs", "reference")
    for fn in sorted(os.listdir(base)) if os.path.isdir(base) else []:
        if not fn.endswith(".rst"):
            continue
        rel = f"docs/reference/{fn}"
        text = open(os.path.join(base, fn), encoding="utf-8").read()
        seen = set()
        for m in re.finditer(r":scenic:`([^`]+)`", text):
            ex = " ".join(m.group(1).split())
            if ex in seen:
                continue
            seen.add(ex)
            first = re.split(r"[\s\[\(]", ex)[0]
            if first in STATEMENT_WORDS and len(ex.split()) > 1 and not re.search(r"[{}<>*]|\.\.\.", ex):
                out.append((rel, ex + "\n", True))
        lines = text.split("\n")
        i = 0
        while i < len(lines):
            if re.match(r"^\s*\.\. code-block:: scenic\s*$", lines[i]) or (lines[i].rstrip().endswith("::") and not lines[i].lstrip().startswith("..")):  # also literal blocks ("For example::")
                ind = len(lines[i]) - len(lines[i].lstrip())
                j = i + 1
                block = []
                while j < len(lines) and (not lines[j].strip() or len(lines[j]) - len(lines[j].lstrip()) > ind):
                    block.append(lines[j])
                    j += 1
                body = [b for b in block if not re.match(r"^\s*:[a-z-]+:", b)]
                nonempty = [b for b in body if b.strip()]
                if nonempty:
                    k = min(len(b) - len(b.lstrip()) for b in nonempty)
                    out.append((rel, "\n".join(b[k:] for b in body).strip("\n") + "\n", False))
                i = j
            else:
                i += 1
    return out


#: fixed inputs (always run): the failing inputs of confirmed findings, so that they are reproduced independently of the seed
REGRESSIONS = [
    ("scenic-expression-as-assignment-target", "new Object = 5\n", False),
    ("temporal-group-before-implies", "require (always A) implies B\n", True),
    ("temporal-operator-inside-conditional", "require x if always y else z\n", False),
    ("error-span-over-blank-line-in-brackets", "f(-\n\nb = 2\n", False),
    ("block-opener-at-eof-without-newline", "def f():", False),
]


# ------------------------------------------------------------------------------------------------ mutation
def tokens_of(text):
    try:
        return [t for t in tokenize.generate_tokens(io.StringIO(text).readline) if t.type not in (tokenize.ENDMARKER,)]
    except (tokenize.TokenError, IndentationError, SyntaxError):
        return None


def offsets(text):
    starts = [0]
    for line in text.split("\n"):
        starts.append(starts[-1] + len(line) + 1)
    return starts


def mutate(text, rng):
    """One token-level mutant of `text`: (description, new text)."""
    toks = tokens_of(text)
    real = [t for t in (toks or []) if t.string.strip() and t.type not in (tokenize.COMMENT, tokenize.NL, tokenize.NEWLINE, tokenize.INDENT, tokenize.DEDENT)]
    if not real:
        cut = rng.randrange(len(text) + 1)
        return f"truncate@{cut}", text[:cut]
    st = offsets(text)
    pos = lambda t: (st[t.start[0] - 1] + t.start[1], st[t.end[0] - 1] + t.end[1])
    op = rng.choice(["delete", "insert", "replace", "swap", "truncate", "reindent", "delete", "replace"])
    t = rng.choice(real)
    a, b = pos(t)
    pool = [x.string for x in real] + ["(", ")", ":", ",", "=", "new", "require", "always", "until", "implies", "at", "with", "in", "not", "visible", "if", "else", "for", "do", "try", "interrupt", "when", "\n", "    "]
    if op == "delete":
        return f"delete {t.string!r}@{t.start[0]}:{t.start[1]}", text[:a] + text[b:]
    if op == "insert":
        w = rng.choice(pool)
        return f"insert {w!r}@{t.start[0]}:{t.start[1]}", text[:a] + w + " " + text[a:]
    if op == "replace":
        w = rng.choice(pool)
        return f"replace {t.string!r}->{w!r}@{t.start[0]}:{t.start[1]}", text[:a] + w + text[b:]
    if op == "swap":
        i = real.index(t)
        if i + 1 < len(real):
            u = real[i + 1]
            c, d = pos(u)
            if b <= c:
                return f"swap {t.string!r}<->{u.string!r}@{t.start[0]}:{t.start[1]}", text[:a] + u.string + text[b:c] + t.string + text[d:]
        return f"delete {t.string!r}@{t.start[0]}:{t.start[1]}", text[:a] + text[b:]
    if op == "truncate":
        return f"truncate@{t.start[0]}:{t.start[1]}", text[:a]
    ln = t.start[0] - 1
    lines = text.split("\n")
    k = rng.choice([1, 2, 4, -1, -2, -4])
    lines[ln] = (" " * k + lines[ln]) if k > 0 else lines[ln][min(-k, len(lines[ln]) - len(lines[ln].lstrip())) :]
    return f"reindent {k:+d}@{t.start[0]}", "\n".join(lines)


# ------------------------------------------------------------------------------------------------ oracle (worker side)
def run_front_end(text, filename="<mutant>"):
    """The real front end on `text`; returns a verdict record."""
    import signal

    import scenic.syntax.translator as tr
    import scenic.syntax.veneer as veneer
    from scenic.core.errors import ScenicSyntaxError

    class Hang(BaseException):
        pass

    def on_alarm(*a):
        raise Hang()

    nlines = len(text.split("\n"))
    rec = dict(outcome="ok", exc=None, lineno=None, nlines=nlines, msg=None)
    old = signal.signal(signal.SIGALRM, on_alarm)
    signal.alarm(TIMEOUT)
    try:
        tr._scenarioFromStream(io.BytesIO(text.encode("utf-8", "surrogatepass")), tr.CompileOptions(), filename)
    except Hang:
        rec.update(outcome="timeout", msg=f"no result within {TIMEOUT}s")
    except ScenicSyntaxError as e:
        ln = getattr(e, "lineno", None)
        rec.update(outcome="syntax", exc=type(e).__name__, lineno=ln, msg=str(getattr(e, "msg", e))[:120])
        if not (isinstance(ln, int) and 1 <= ln <= nlines):
            rec["outcome"] = "bad-line"
    except RecursionError as e:
        rec.update(outcome="internal", exc="RecursionError", msg=str(e)[:120])
    except BaseException as e:  # anything else is an internal exception
        import traceback

        fr = traceback.extract_tb(e.__traceback__)[-1]
        rec.update(outcome="internal", exc=type(e).__name__, msg=f"{str(e)[:100]} at {os.path.basename(fr.filename)}:{fr.lineno}")
    finally:
        signal.alarm(0)
        signal.signal(signal.SIGALRM, old)
    if veneer.isActive() or veneer.activity != 0:
        rec.update(outcome="veneer-active", msg=f"veneer.activity = {veneer.activity} afterwards ({rec['outcome']}, {rec['exc']})")
        veneer.activity = 0
        del veneer.scenarioStack[:]
    return rec


def install_execution_stubs():
    import scenic.syntax.translator as tr

    tr.executeCodeIn = lambda code, namespace: None
    tr.storeScenarioStateIn = lambda *a, **k: None
    tr.constructScenarioFrom = lambda *a, **k: None


def worker_main():
    install_execution_stubs()
    for line in sys.stdin:
        job = json.loads(line)
        rec = run_front_end(job["text"])
        rec["id"] = job["id"]
        sys.stdout.write(json.dumps(rec) + "\n")
        sys.stdout.flush()


# ------------------------------------------------------------------------------------------------ driver
def plan(tier, seed):
    root = repo_root()
    rng = random.Random(seed)
    files = example_files(root)
    if tier == "quick":
        sized = sorted(files, key=lambda f: os.path.getsize(os.path.join(root, f)))
        small = sized[: max(1, len(sized) * 2 // 3)]
        chosen = sorted(rng.sample(small, min(20, len(small))))
        per_file, per_doc = 3, 1
    else:
        chosen, per_file, per_doc = files, 12, 6
    jobs = []  # (group, origin, kind, description, text, must_accept)
    for f in chosen:
        text = open(os.path.join(root, f), encoding="utf-8").read()
        group = "/".join(f.split("/")[:2])
        jobs.append((group, f, "unmutated", "unmutated", text, True))
        for _ in range(per_file):
            d, m = mutate(text, rng)
            jobs.append((group, f, "mutant", d, m, False))
    for name, text, must in REGRESSIONS:
        jobs.append(("regressions", f"regression:{name}", "unmutated", "unmutated", text, must))
    for origin, text, must in docs_examples(root):
        jobs.append((origin, origin, "unmutated", "unmutated", text, must))
        for _ in range(per_doc):
            d, m = mutate(text, rng)
            jobs.append((origin, origin, "mutant", d, m, False))
    return jobs


def run_jobs(jobs, nproc=4):
    """Run the jobs in `nproc` worker subprocesses (each imports the real scenic once)."""
    env = dict(os.environ)
    env.pop("PYTHONDONTWRITEBYTECODE", None)
    env["PYTHONPYCACHEPREFIX"] = "/tmp/pyvc_pycache"  # byte code of the checkout is cached outside the tree
    here = os.path.dirname(os.path.abspath(__file__))
    procs = []
    shares = [[] for _ in range(nproc)]
    for i, j in enumerate(jobs):
        shares[i % nproc].append((i, j))
    for share in shares:
        p = subprocess.Popen([sys.executable, os.path.join(here, "frontend_mutants.py"), "--worker"], stdin=subprocess.PIPE, stdout=subprocess.PIPE, stderr=subprocess.DEVNULL, env=env, text=True)
        procs.append((p, share))
    results = {}
    import threading

    def feed(p, share):
        try:
            for i, j in share:
                p.stdin.write(json.dumps(dict(id=i, text=j[4])) + "\n")
            p.stdin.close()
        except BrokenPipeError:
            pass

    threads = [threading.Thread(target=feed, args=ps, daemon=True) for ps in procs]
    for t in threads:
        t.start()
    for p, share in procs:
        for line in p.stdout:
            try:
                r = json.loads(line)
                results[r["id"]] = r
            except ValueError:
                continue
        p.wait()
        for i, j in share:
            if i not in results:
                results[i] = dict(id=i, outcome="crash", exc=None, lineno=None, nlines=None, msg=f"front-end process died (exit {p.returncode})")
    return results


EOF_BLOCK = "error_line_inside_the_input[block opener at end of input]"
CLAUSES = {
    "no_internal_exception": ("internal", "crash"),
    "error_line_inside_the_input": ("bad-line",),
    # one input class is reported under a clause of its own (it is a recorded known finding: an input that ends right
    # after a block opener, possibly followed by blank lines, gets "expected an indented block" on line n + 1), so that it
    # cannot hide, or be confused with, any other error line outside the input
    EOF_BLOCK: ("bad-line",),
    "veneer_inactive_afterwards": ("veneer-active",),
    "returns_within_timeout": ("timeout",),
    "shown_examples_are_accepted": (),
}


def judge(job, rec, clause=None):
    """None if the oracle (or the given clause of it) holds, else a description."""
    group, origin, kind, desc, text, must = job
    bad_outcomes = ("internal", "timeout", "bad-line", "veneer-active", "crash") if clause is None else CLAUSES[clause]
    eof_block = rec["outcome"] == "bad-line" and str(rec.get("msg") or "").startswith("expected an indented block") and rec.get("lineno") == (rec.get("nlines") or 0) + 1
    if clause == "error_line_inside_the_input" and eof_block:
        return None
    if clause == EOF_BLOCK and not eof_block:
        return None
    if rec["outcome"] in bad_outcomes:
        what = {"internal": f"internal exception {rec['exc']}: {rec['msg']}", "timeout": rec["msg"], "bad-line": f"{rec['exc']} ({rec['msg']}) reports line {rec['lineno']} outside 1..{rec['nlines']}", "veneer-active": rec["msg"], "crash": rec["msg"]}[rec["outcome"]]
        return f"{origin} [{desc}]: {what}"
    if clause in (None, "shown_examples_are_accepted") and must and rec["outcome"] == "syntax":
        return f"{origin} [{desc}]: an example shown as valid is rejected: {rec['msg']} (line {rec['lineno']})"
    return None


def fast_imports():
    """Cache byte code outside the repository tree (the harness disables byte-code writing; compiling the generated parser
    on every import costs seconds)."""
    sys.dont_write_bytecode = False
    sys.pycache_prefix = "/tmp/pyvc_pycache"


def replay(inputs, clause):
    text = inputs.get("text")
    if text is None:
        return None
    fast_imports()
    install_execution_stubs()
    rec = run_front_end(text)
    job = ("", inputs.get("origin", "?"), "", inputs.get("mutation", "?"), text, bool(inputs.get("must_accept")))
    cl = next((c for c in sorted(CLAUSES, key=len, reverse=True) if clause.endswith(c)), None)
    return judge(job, rec, cl)


def register(reg):
    from pyvc import contracts as C

    tier = os.environ.get("VERIF_TIER", "quick")
    seed = int(os.environ.get("VERIF_SEED", "0"))

    def post(I, env, outcome):
        jobs = plan(tier, seed)
        results = run_jobs(jobs)
        groups = {}
        for i, job in enumerate(jobs):
            g = groups.setdefault(job[0], dict(n=0, bad={c: [] for c in CLAUSES}))
            g["n"] += 1
            for c in CLAUSES:
                bad = judge(job, results[i], c)
                if bad:
                    g["bad"][c].append((bad, job))
        total = 0
        for name in sorted(groups):
            g = groups[name]
            total += g["n"]
            for c in CLAUSES:
                if c == "shown_examples_are_accepted" and not any(j[0] == name and j[5] for j in jobs):
                    continue
                bads = g["bad"][c]
                if bads:
                    bad, job = bads[0]
                    I.eng.input_syms.append(("text", C.Const(None), job[4]))
                    I.eng.input_syms.append(("origin", C.Const(None), job[1]))
                    I.eng.input_syms.append(("mutation", C.Const(None), job[3]))
                    I.eng.input_syms.append(("must_accept", C.Const(None), job[5]))
                I.eng.check(f"standin.frontend_mutants#{name}.{c}", not bads, detail=(f"{len(bads)} of {g['n']} inputs fail; first: {bads[0][0]}" if bads else f"{g['n']} inputs"), kind="bounded")
                if bads:
                    del I.eng.input_syms[-4:]
        I.eng.check(f"standin.frontend_mutants#corpus_nonempty", total > 0, detail=f"{total} inputs ({tier} tier, seed {seed})", kind="bounded")

    reg.add(
        C.Contract(
            "scenic.syntax.veneer:isActive",
            params={},
            post=post,
            bounded=True,
            replay=replay,
            note="bounded: token-level mutants of examples/*.scenic and of the docs/reference examples through the real translator front end (execution phase stubbed); see module docstring for the bound",
            properties=("C10",),
        ),
        key="scenic.syntax.veneer:isActive[frontend-mutants]",
    )


if __name__ == "__main__":
    if "--worker" in sys.argv:
        worker_main()
