"""BOUNDED stand-in for the unreachable half of C09 (never counted as proved).

What it runs: the REAL `scenic.syntax.parser.parse_string` + `scenic.syntax.compiler.compileScenicAST` on a recorded corpus
of plain-Python files and compares the result with `ast.parse` of the same text, node by node, MODULO the documented
rewrites (accessor calls for ego/workspace/globalParameters, str/int/float renamed in call position, star arguments wrapped,
a class without bases deriving from Object and gaining one `_scenic_properties` table).  Compared per node: class, every field,
`lineno` and `end_lineno` (columns are not part of the property).

Corpus: CPython's standard library (/root/.pyenv/versions/3.12*/lib/python3.12, falling back to the running interpreter's)
and /venv's site-packages; a file is used when CPython parses it and it is *plain Python for Scenic*, i.e. it
  * uses none of Scenic's hard keywords (at by do new of on require to until) as a name,
  * does not assign to / delete a Scenic built-in name (str int float globalParameters ego workspace) -- the reference says
    these "can be used but not overwritten",
  * has no annotated statement directly in a class body (`x: T` there is a Scenic property definition by the class grammar),
  * does not use the binary operator `@` (in Scenic `X @ Y` builds a vector: a documented difference).
Bound: quick tier = 100 files of at most 4 kB chosen by VERIF_SEED (70 stdlib + 30 site-packages) -- the generated Python-in-Python
parser handles only a few kB per second; thorough tier = 1000 files of at most 16 kB chosen by VERIF_SEED (700 + 300); with
VERIF_CORPUS=all every file (many hours; run once during development, its findings are the `regressions` group).  A fixed list of 5 small regression snippets (the failing
inputs of confirmed findings) is always run as group "regressions".
The file list and byte count of the run are written to evidence/C09_corpus.json."""
import ast
import io
import json
import keyword
import os
import random
import subprocess
import sys
import tokenize

TRACKED = ("ego", "workspace", "globalParameters")
RENAME = {"_toStrScenic": "str", "_toIntScenic": "int", "_toFloatScenic": "float"}
SCENIC_HARD = {"at", "by", "do", "new", "of", "on", "require", "to", "until"}
BUILTIN_NAMES = {"str", "int", "float", "globalParameters", "ego", "workspace"}
TIMEOUT = 60


# ------------------------------------------------------------------------------------------------ comparison
def first_difference(s, p, path="module", callpos=False):
    """None if the Scenic-compiled tree `s` equals CPython's tree `p` modulo the documented rewrites, else a description."""
    if isinstance(p, list):
        if not isinstance(s, list):
            return f"{path}: {type(s).__name__} instead of a list"
        if len(s) != len(p):
            return f"{path}: {len(s)} elements, CPython has {len(p)}"
        for i, (a, b) in enumerate(zip(s, p)):
            d = first_difference(a, b, f"{path}[{i}]")
            if d:
                return d
        return None
    if not isinstance(p, ast.AST):
        if isinstance(s, ast.AST) or type(s) is not type(p) or s != p:
            if isinstance(p, float) and isinstance(s, float) and (p != p and s != s):
                return None
            return f"{path}: {s!r} instead of {p!r}"
        return None
    where = f"{path} (line {getattr(p, 'lineno', '?')})"
    # documented rewrite 1: tracked names become accessor calls
    if isinstance(p, ast.Name) and p.id in TRACKED and isinstance(p.ctx, ast.Load):
        if isinstance(s, ast.Call) and isinstance(s.func, ast.Name) and s.func.id == p.id and not s.args and not s.keywords:
            return _lines(s, p, where)
        return f"{where}: name {p.id} is not compiled to an accessor call"
    # documented rewrite 3: star arguments
    if isinstance(p, ast.Call) and isinstance(s, ast.Call) and any(isinstance(a, ast.Starred) for a in p.args) and isinstance(s.func, ast.Name) and s.func.id == "callWithStarArgs":
        if len(s.args) != len(p.args) + 1:
            return f"{where}: callWithStarArgs has {len(s.args)} arguments for {len(p.args)} original ones"
        d = first_difference(s.args[0], p.func, f"{path}.func", callpos=True) or _lines(s, p, where)
        if d:
            return d
        for i, (a, b) in enumerate(zip(s.args[1:], p.args)):
            if isinstance(b, ast.Starred):
                inner = a.value if isinstance(a, ast.Starred) else None
                if not (isinstance(inner, ast.Call) and isinstance(inner.func, ast.Name) and inner.func.id == "wrapStarredValue" and len(inner.args) == 2):
                    return f"{path}.args[{i}] (line {b.lineno}): star argument is not wrapped by wrapStarredValue"
                if not (isinstance(inner.args[1], ast.Constant) and inner.args[1].value == b.value.lineno):
                    return f"{path}.args[{i}] (line {b.lineno}): wrapStarredValue is given line {getattr(inner.args[1], 'value', None)}"
                d = first_difference(inner.args[0], b.value, f"{path}.args[{i}].value") or _lines(a, b, f"{path}.args[{i}] (wrapped star argument, line {b.lineno})")
            else:
                d = first_difference(a, b, f"{path}.args[{i}]")
            if d:
                return d
        return first_difference(s.keywords, p.keywords, f"{path}.keywords")
    # documented rewrite 2: str/int/float in call position
    if callpos and isinstance(p, ast.Name) and isinstance(s, ast.Name) and s.id in RENAME and RENAME[s.id] == p.id:
        return _lines(s, p, where)
    if type(s) is not type(p):
        return f"{where}: {type(s).__name__} instead of {type(p).__name__}"
    for f in p._fields:
        a, b = getattr(s, f, None), getattr(p, f, None)
        if isinstance(p, ast.ClassDef) and f == "bases" and not b:
            if not (isinstance(a, list) and len(a) == 1 and isinstance(a[0], ast.Name) and a[0].id == "Object"):
                return f"{where}: class without bases does not derive from Object"
            continue
        if isinstance(p, ast.ClassDef) and f == "body":
            tables = [x for x in a if isinstance(x, ast.Assign) and len(x.targets) == 1 and isinstance(x.targets[0], ast.Name) and x.targets[0].id == "_scenic_properties" and isinstance(x.value, ast.Dict) and not x.value.keys]
            if len(tables) != 1:
                return f"{where}: class body has {len(tables)} empty property tables"
            a = [x for x in a if x is not tables[0]]
        d = first_difference(a, b, f"{path}.{f}", callpos=isinstance(p, ast.Call) and f == "func")
        if d:
            return d
    return _lines(s, p, where)


def _lines(s, p, where):
    for k in ("lineno", "end_lineno"):
        if hasattr(p, k) and getattr(s, k, None) != getattr(p, k):
            return f"{where}: {type(p).__name__}.{k} is {getattr(s, k, None)}, CPython has {getattr(p, k)}"
    return None


# ------------------------------------------------------------------------------------------------ corpus
def roots():
    out = []
    import glob

    std = sorted(glob.glob("/root/.pyenv/versions/3.12*/lib/python3.12"))
    out.append(("stdlib", std[0] if std else os.path.dirname(os.__file__)))
    sp = "/venv/lib/python3.12/site-packages"
    if os.path.isdir(sp):
        out.append(("site-packages", sp))
    return out


def python_files(base, group):
    for d, dirs, fs in os.walk(base):
        dirs[:] = sorted(x for x in dirs if x not in ("__pycache__",) and not (group == "stdlib" and d == base and x == "site-packages"))
        for f in sorted(fs):
            if f.endswith(".py"):
                yield os.path.join(d, f)


def plain_for_scenic(text):
    """None if the file is plain Python for Scenic, else the reason it is left out."""
    try:
        tree = ast.parse(text)
    except (SyntaxError, ValueError, RecursionError):
        return "not accepted by CPython"
    try:
        for t in tokenize.generate_tokens(io.StringIO(text).readline):
            if t.type == tokenize.NAME and t.string in SCENIC_HARD:
                return "uses a Scenic keyword as a name"
    except (tokenize.TokenError, IndentationError, SyntaxError):
        return "not tokenizable"
    for n in ast.walk(tree):
        if isinstance(n, ast.Name) and n.id in BUILTIN_NAMES and not isinstance(n.ctx, ast.Load):
            return "overwrites a Scenic built-in name"
        if isinstance(n, ast.ClassDef) and any(isinstance(b, ast.AnnAssign) for b in n.body):
            return "annotated statement in a class body (Scenic property syntax)"
        if isinstance(n, (ast.BinOp, ast.AugAssign)) and isinstance(n.op, ast.MatMult):
            return "uses the @ operator (Scenic's vector operator: documented difference)"
    return None


REGRESSIONS = {
    "fstring_conversion": 'y = f"{x!r} {x!s:>4}"\n',
    "fstring_escaped_braces_around_a_field": "y = f'{{{x}}}'\nz = f'{{{{{x}}}}} {y}'\n",
    "fstring_self_documenting": 'y = f"{a=} {a=:x}"\n',
    "fstring_escapes": "y = f'a\\nb{x}\\'c'\n",
    "star_argument_on_its_own_line": "f(a,\n  *b)\n",
    "chained_conditional": "x = 1 if a else 2 if b else 3\ny = (a if b else lambda: 0)\n",
    "subscript_assignment_in_class_body": "class C:\n    table = {}\n    table['key'] = (1,\n        2)\n    table['n'] += 1\n",
    "identifier_normalisation": "def f():\n    \u00b5 = 2\n    return \u03bc\n",
    "fstring_debug_with_spaces": 'y = f"{a = !s}{ b+1 =:>{w}}"\n',
    "fstring_escapes_in_format_spec": "y = f'{x:\\t>10}\\x41{{z}}'\n",
    "names_and_calls": "x = str(int(float(y)), *z)\nclass A:\n    pass\nprint(str, ego, workspace.r, globalParameters.p)\n",
}


def regression_files():
    d = "/tmp/pyvc_corpus_regressions"
    os.makedirs(d, exist_ok=True)
    out = []
    for name, text in sorted(REGRESSIONS.items()):
        p = os.path.join(d, name + ".py")
        with open(p, "w", encoding="utf-8") as f:
            f.write(text)
        out.append(("regressions", p, len(text.encode("utf-8"))))
    return out


def plan(tier, seed):
    rng = random.Random(seed)
    chosen, excluded = regression_files(), {}
    for group, base in roots():
        files = list(python_files(base, group))
        if tier == "quick":
            small = [f for f in files if os.path.getsize(f) <= 4096 and os.path.getsize(f) > 0]
            rng.shuffle(small)
            want = 70 if group == "stdlib" else 30
            cand = small
        else:
            # thorough: a seeded sample ten times the size of the quick one, files of up to 16 kB (the whole standard
            # library takes the Python-in-Python parser many hours; `VERIF_CORPUS=all` selects every file)
            if os.environ.get("VERIF_CORPUS") == "all":
                want, cand = None, files
            else:
                medium = [f for f in files if 0 < os.path.getsize(f) <= 16384]
                rng.shuffle(medium)
                want, cand = (700 if group == "stdlib" else 300), medium
        got = 0
        for f in cand:
            if want is not None and got >= want:
                break
            try:
                text = open(f, encoding="utf-8").read()
            except (UnicodeDecodeError, OSError):
                excluded["not utf-8"] = excluded.get("not utf-8", 0) + 1
                continue
            why = plain_for_scenic(text)
            if why:
                excluded[why] = excluded.get(why, 0) + 1
                continue
            chosen.append((group, f, len(text.encode("utf-8"))))
            got += 1
    return chosen, excluded


# ------------------------------------------------------------------------------------------------ worker
def check_file(path):
    import signal

    from scenic.core.errors import ScenicSyntaxError
    from scenic.syntax.compiler import compileScenicAST
    from scenic.syntax.parser import parse_string

    class Hang(BaseException):
        pass

    def on_alarm(*a):
        raise Hang()

    text = open(path, encoding="utf-8").read()
    old = signal.signal(signal.SIGALRM, on_alarm)
    signal.alarm(TIMEOUT + 30 * (len(text) // 1024))  # the Python-in-Python parser needs seconds per kB on a loaded machine
    try:
        tree, _ = compileScenicAST(parse_string(text, "exec", filename=path), filename=path)
    except Hang:
        return dict(outcome="timeout", msg=f"no result within {TIMEOUT + 30 * (len(text) // 1024)}s")
    except ScenicSyntaxError as e:
        return dict(outcome="rejected", msg=f"{getattr(e, 'msg', e)} (line {getattr(e, 'lineno', '?')})")
    except RecursionError:
        return dict(outcome="internal", msg="RecursionError")
    except BaseException as e:
        return dict(outcome="internal", msg=f"{type(e).__name__}: {str(e)[:100]}")
    finally:
        signal.alarm(0)
        signal.signal(signal.SIGALRM, old)
    try:
        d = first_difference(tree, ast.parse(text))
    except RecursionError:
        d = None
    if d:
        return dict(outcome="different", msg=d)
    return dict(outcome="same", msg=None)


def worker_main():
    sys.setrecursionlimit(10000)
    for line in sys.stdin:
        job = json.loads(line)
        rec = check_file(job["path"])
        rec["id"] = job["id"]
        sys.stdout.write(json.dumps(rec) + "\n")
        sys.stdout.flush()


def run_jobs(paths, nproc=6):
    import threading

    env = dict(os.environ)
    env.pop("PYTHONDONTWRITEBYTECODE", None)
    env["PYTHONPYCACHEPREFIX"] = "/tmp/pyvc_pycache"
    shares = [[] for _ in range(nproc)]
    order = sorted(range(len(paths)), key=lambda i: -os.path.getsize(paths[i]))
    for k, i in enumerate(order):
        shares[k % nproc].append(i)
    procs = []
    for share in shares:
        p = subprocess.Popen([sys.executable, os.path.abspath(__file__), "--worker"], stdin=subprocess.PIPE, stdout=subprocess.PIPE, stderr=subprocess.DEVNULL, env=env, text=True)
        procs.append((p, share))

    def feed(p, share):
        try:
            for i in share:
                p.stdin.write(json.dumps(dict(id=i, path=paths[i])) + "\n")
            p.stdin.close()
        except BrokenPipeError:
            pass

    for p, share in procs:
        threading.Thread(target=feed, args=(p, share), daemon=True).start()
    results = {}
    for p, share in procs:
        for line in p.stdout:
            try:
                r = json.loads(line)
                results[r["id"]] = r
            except ValueError:
                continue
        p.wait()
        for i in share:
            results.setdefault(i, dict(outcome="internal", msg=f"front-end process died (exit {p.returncode})"))
    return results


CLAUSES = {"accepted": ("rejected",), "same_tree_modulo_documented_rewrites": ("different",), "no_internal_exception_or_hang": ("internal", "timeout")}


def replay(inputs, clause):
    path = inputs.get("file")
    if path and path.startswith("/tmp/pyvc_corpus_regressions"):
        regression_files()
    if not path or not os.path.exists(path):
        return None
    from standins.frontend_mutants import fast_imports

    fast_imports()
    sys.setrecursionlimit(10000)
    rec = check_file(path)
    c = clause.split(".")[-1]
    if rec["outcome"] in CLAUSES.get(c, ()):
        return f"{path}: {rec['outcome']}: {rec['msg']}"
    return None


def register(reg):
    from pyvc import contracts as C

    tier = os.environ.get("VERIF_TIER", "quick")
    seed = int(os.environ.get("VERIF_SEED", "0"))

    def post(I, env, outcome):
        chosen, excluded = plan(tier, seed)
        paths = [f for _, f, _ in chosen]
        results = run_jobs(paths)
        root = os.path.dirname(os.path.dirname(os.path.abspath(__file__)))
        try:
            os.makedirs(os.path.join(root, "evidence"), exist_ok=True)
            evdir = os.environ.get("PYVC_EVIDENCE_DIR") or os.path.join(root, "evidence")  # seeded-change / side runs write elsewhere
            os.makedirs(evdir, exist_ok=True)
            with open(os.path.join(evdir, "C09_corpus.json"), "w") as f:
                json.dump(dict(tier=tier, seed=seed, files=len(chosen), total_bytes=sum(b for _, _, b in chosen), excluded=excluded, outcomes={k: sum(1 for r in results.values() if r["outcome"] == k) for k in ("same", "different", "rejected", "internal", "timeout")}, file_list=[[g, f, b] for g, f, b in chosen]), f, indent=0)
        except OSError:
            pass
        for group in sorted({g for g, _, _ in chosen}):
            idx = [i for i, (g, _, _) in enumerate(chosen) if g == group]
            nbytes = sum(chosen[i][2] for i in idx)
            for c, bad_outcomes in CLAUSES.items():
                bad = [i for i in idx if results[i]["outcome"] in bad_outcomes]
                if bad:
                    I.eng.input_syms.append(("file", C.Const(None), paths[bad[0]]))
                I.eng.check(f"standin.python_corpus#{group}.{c}", not bad, detail=(f"{len(bad)} of {len(idx)} files ({nbytes} bytes); first: {paths[bad[0]]}: {results[bad[0]]['msg']}" if bad else f"{len(idx)} files, {nbytes} bytes"), kind="bounded")
                if bad:
                    del I.eng.input_syms[-1:]
        I.eng.check("standin.python_corpus#corpus_nonempty", len(chosen) > 0, detail=f"{len(chosen)} files, {sum(b for _, _, b in chosen)} bytes ({tier} tier, seed {seed}); excluded: {excluded}", kind="bounded")

    reg.add(
        C.Contract(
            "scenic.syntax.veneer:isActive",
            params={},
            post=post,
            bounded=True,
            replay=replay,
            note="bounded: real parse_string + compileScenicAST versus ast.parse on a recorded corpus of plain-Python files (see standins/python_corpus.py; file list in evidence/C09_corpus.json)",
            properties=("C09",),
        ),
        key="scenic.syntax.veneer:isActive[python-corpus]",
    )


if __name__ == "__main__":
    if "--worker" in sys.argv:
        worker_main()
