"""BOUNDED stand-in for the unreachable half of C20 (never counted as proved).

The clauses of the property are evaluated as run-time contracts on the REAL `Network` objects that the REAL
`Network.fromFile` builds from the OpenDRIVE maps available offline under <repo>/assets/maps (empty files -- emptied by the
harness -- are skipped; maps are copied to a scratch directory so that no cache file is written into the repository):

  links        ownership chains (section -> lane -> group -> road), adjacent lane sections, opposite groups, successor /
               predecessor, maneuvers (start / connecting / end lane, intersection membership) are reciprocal
  containment  children lie inside their parents within the network tolerance (lane in group in road, section in lane / road)
  lookups      for N random points of the drivable region: elementAt / roadAt / laneAt / laneSectionAt / laneGroupAt return
               an element within `tolerance` of the point; the drivable area is covered by elementAt; the traffic direction
               at a centre-line point of a lane is tangent to the centre line
  cache        the network loaded from the cache written by fromFile equals the parsed one field by field (element ids,
               classes, polygons, links by id, scalar attributes); the cache is not used for other options / changed map

Bound: quick tier = the 5 smallest maps and LGSVL/cubetown.xodr (the smallest one with intersections) x 60 points; thorough tier = every non-empty map of at most 1 MB x 400 points, and
three option combinations (tolerance, fill_gaps, elide_short_roads)."""
import json
import math
import os
import random
import shutil
import subprocess
import sys
import tempfile

CLAUSES = ("links_are_reciprocal", "children_inside_parents", "lookups_contain_the_point", "cache_equals_parse", "cache_ignored_when_map_or_options_differ")


def repo_root():
    return os.environ.get("PYVC_REPO", "/repo")


def all_maps():
    out = []
    base = os.path.join(repo_root(), "assets", "maps")
    for d, _, fs in os.walk(base):
        for f in sorted(fs):
            p = os.path.join(d, f)
            if f.endswith(".xodr") and os.path.getsize(p) > 0:
                out.append(p)
    return sorted(out, key=os.path.getsize)


def small_maps(n=5):
    return all_maps()[:n]


# ------------------------------------------------------------------------------------------------ checks (worker side)
def _uid(x):
    return getattr(x, "uid", None) if x is not None else None


def check_links(net):
    bad = []

    def need(cond, msg):
        if not cond and len(bad) < 5:
            bad.append(msg)

    for uid, e in net.elements.items():
        need(e.uid == uid, f"element stored under {uid} has uid {e.uid}")
    for road in net.allRoads:
        for g in road.laneGroups:
            need(g.road is road, f"lane group {g.uid} of road {road.uid} points to road {_uid(g.road)}")
        need(set(map(id, road.laneGroups)) == {id(g) for g in (road.forwardLanes, road.backwardLanes) if g is not None}, f"road {road.uid}: laneGroups differ from forward/backward groups")
        for lane in road.lanes:
            need(lane.road is road, f"lane {lane.uid} listed by road {road.uid} points to road {_uid(lane.road)}")
        for sec in road.sections:
            need(sec.road is road, f"road section {sec.uid} of {road.uid} points to road {_uid(sec.road)}")
            for ls in sec.lanes:
                need(ls.road is road, f"lane section {ls.uid} in road section {sec.uid} points to road {_uid(ls.road)}")
    for g in net.laneGroups:
        need(any(g is x for x in g.road.laneGroups), f"lane group {g.uid} not listed by its road {g.road.uid}")
        for lane in g.lanes:
            need(lane.group is g, f"lane {lane.uid} listed by group {g.uid} points to group {_uid(lane.group)}")
        if g._opposite is not None:
            need(g._opposite._opposite is g, f"opposite of the opposite of lane group {g.uid} is {_uid(g._opposite._opposite)}")
            need(g._opposite.road is g.road, f"opposite lane groups {g.uid} / {g._opposite.uid} belong to different roads")
    for lane in net.lanes:
        need(any(lane is x for x in lane.group.lanes), f"lane {lane.uid} not listed by its group {lane.group.uid}")
        need(lane.group.road is lane.road, f"lane {lane.uid}: group's road {lane.group.road.uid} is not the lane's road {lane.road.uid}")
        for ls in lane.sections:
            need(ls.lane is lane and ls.group is lane.group and ls.road is lane.road, f"lane section {ls.uid} of lane {lane.uid} has owner chain {_uid(ls.lane)}/{_uid(ls.group)}/{_uid(ls.road)}")
        for m in lane.maneuvers:
            need(m.startLane is lane, f"maneuver listed by lane {lane.uid} starts at {_uid(m.startLane)}")
            if m.connectingLane is not None:
                need(m.connectingLane._predecessor is lane or m.connectingLane._predecessor is None, f"connecting lane {m.connectingLane.uid} of a maneuver from {lane.uid} has predecessor {_uid(m.connectingLane._predecessor)}")
                need(m.connectingLane._successor is m.endLane or m.connectingLane._successor is None, f"connecting lane {m.connectingLane.uid} to {_uid(m.endLane)} has successor {_uid(m.connectingLane._successor)}")
        for adj in lane.adjacentLanes:
            need(any(lane is x for x in adj.adjacentLanes), f"lane {lane.uid} lists {adj.uid} as adjacent but not conversely")
    for ls in net.laneSections:
        need(any(ls is x for x in ls.lane.sections), f"lane section {ls.uid} not listed by its lane {ls.lane.uid}")
        for side, other in (("_laneToLeft", "_laneToRight"), ("_laneToRight", "_laneToLeft")):
            nb = getattr(ls, side)
            if nb is not None:
                back = getattr(nb, other if nb.isForward == ls.isForward else side)
                need(back is ls, f"lane section {ls.uid}.{side} = {nb.uid}, whose reverse link is {_uid(back)}")
    for kind in (net.allRoads, net.lanes, net.laneGroups):
        for x in kind:
            for end, nb in (("successor", x._successor), ("predecessor", x._predecessor)):
                if nb is None or type(nb) is not type(x):
                    continue
                # OpenDRIVE joins roads at either end (contact points): the neighbour must link back to x at one of ITS ends,
                # unless several elements of the same kind meet there (then no unique link exists)
                back = nb._predecessor is x or nb._successor is x
                others = [y for y in kind if y is not x and (y._successor is nb or y._predecessor is nb)]
                need(back or len(others) > 1 or (nb._predecessor is None or nb._successor is None) and others, f"{x.uid}.{end} = {nb.uid}, but {nb.uid} links to {_uid(nb._predecessor)} / {_uid(nb._successor)}")
    for inter in net.intersections:
        for m in inter.maneuvers:
            need(m.intersection is inter, f"maneuver of intersection {inter.uid} points to intersection {_uid(m.intersection)}")
            need(any(m.startLane is l for l in inter.incomingLanes), f"maneuver start lane {m.startLane.uid} is not an incoming lane of {inter.uid}")
            need(any(m.endLane is l for l in inter.outgoingLanes), f"maneuver end lane {m.endLane.uid} is not an outgoing lane of {inter.uid}")
            need(any(m is x for x in m.startLane.maneuvers), f"maneuver through {inter.uid} from {m.startLane.uid} not listed by its start lane")
            if m.connectingLane is not None:
                need(any(m.connectingLane.road is r for r in net.connectingRoads), f"connecting lane {m.connectingLane.uid} is not on a connecting road")
    return bad


def check_containment(net):
    bad = []
    tol = max(net.tolerance, 1e-6)

    def inside(child, parent, what):
        if len(bad) >= 5:
            return
        try:
            extra = child.polygons.difference(parent.polygons.buffer(tol)).area
        except Exception as e:  # shapely topology problems are reported, not hidden
            bad.append(f"{what}: shapely failed with {type(e).__name__}")
            return
        if extra > 1e-6 + 1e-3 * child.polygons.area:
            bad.append(f"{what}: {extra:.4g} square units outside (tolerance {net.tolerance})")

    for lane in net.lanes:
        inside(lane, lane.group, f"lane {lane.uid} in group {lane.group.uid}")
        for ls in lane.sections:
            inside(ls, lane, f"lane section {ls.uid} in lane {lane.uid}")
    for g in net.laneGroups:
        inside(g, g.road, f"lane group {g.uid} in road {g.road.uid}")
    for road in net.roads:
        for sec in road.sections:
            inside(sec, road, f"road section {sec.uid} in road {road.uid}")
    return bad


def check_lookups(net, rng, npoints):
    import shapely.geometry

    from scenic.core.vectors import Vector

    bad = []
    tol = net.tolerance + 1e-9
    poly = net.drivableRegion.polygons
    minx, miny, maxx, maxy = poly.bounds
    pts = []
    tries = 0
    while len(pts) < npoints and tries < npoints * 200:
        tries += 1
        x, y = rng.uniform(minx, maxx), rng.uniform(miny, maxy)
        if poly.contains(shapely.geometry.Point(x, y)):
            pts.append(Vector(x, y))
    if not pts:
        return ["no sample point found in the drivable region"]

    def near(elem, p, what):
        if elem is None or len(bad) >= 5:
            return
        d = elem.polygons.distance(shapely.geometry.Point(p.x, p.y))
        if d > tol:
            bad.append(f"{what} at ({p.x:.3f}, {p.y:.3f}) returned {elem.uid}, {d:.4g} away (tolerance {net.tolerance})")

    for p in pts:
        e = net.elementAt(p)
        if e is None and len(bad) < 5:
            bad.append(f"point ({p.x:.3f}, {p.y:.3f}) of the drivable region is in no element (elementAt = None)")
        near(e, p, "elementAt")
        road = net.roadAt(p)
        near(road, p, "roadAt")
        lane = net.laneAt(p)
        near(lane, p, "laneAt")
        near(net.laneSectionAt(p), p, "laneSectionAt")
        near(net.laneGroupAt(p), p, "laneGroupAt")
        near(net.intersectionAt(p), p, "intersectionAt")
        if lane is not None and road is not None and lane.road is not road and len(bad) < 5:
            # a point may lie on two overlapping roads only within the tolerance
            if lane.road.polygons.distance(shapely.geometry.Point(p.x, p.y)) > tol:
                bad.append(f"laneAt / roadAt disagree at ({p.x:.3f}, {p.y:.3f}): lane {lane.uid} of road {lane.road.uid} vs road {road.uid}")
        ls = net.laneSectionAt(p)
        if ls is not None and lane is not None and ls.lane is not lane and len(bad) < 5:
            bad.append(f"laneSectionAt returned a section of lane {ls.lane.uid}, laneAt returned {lane.uid}")
    # tangency of the traffic direction on lane centre lines (ordinary roads only)
    for lane in net.lanes:
        if len(bad) >= 5:
            break
        if not any(lane.road is r for r in net.roads):
            continue
        cl = list(lane.centerline.points)
        if len(cl) < 2:
            continue
        k = rng.randrange(len(cl) - 1)
        (x0, y0), (x1, y1) = cl[k][:2], cl[k + 1][:2]
        if math.hypot(x1 - x0, y1 - y0) < 1e-6:
            continue
        p = Vector((x0 + x1) / 2, (y0 + y1) / 2)
        if net.laneAt(p) is not lane:
            continue
        want = math.atan2(y1 - y0, x1 - x0) - math.pi / 2  # Scenic headings: 0 = +y, anticlockwise
        got = net.roadDirection[p].yaw
        diff = abs((got - want + math.pi) % (2 * math.pi) - math.pi)
        if diff > 0.15:
            bad.append(f"roadDirection at the centre line of lane {lane.uid} ({p.x:.3f}, {p.y:.3f}) is {got:.3f}, centre-line tangent is {want:.3f}")
    return bad


def describe(net):
    """Field-by-field description of a network that does not depend on object identities."""
    import enum

    def val(v, depth=0):
        if v is None or isinstance(v, (bool, int, float, str)):
            return v
        if isinstance(v, enum.Enum):
            return f"{type(v).__name__}.{v.name}"
        if hasattr(v, "uid") and hasattr(v, "polygons"):
            return f"<element {v.uid}>"
        if hasattr(v, "wkb"):
            return f"<geom {v.wkb.hex()[:64]}:{len(v.wkb)}:{round(getattr(v, 'area', 0), 9)}:{round(getattr(v, 'length', 0), 9)}>"
        if isinstance(v, (tuple, list)):
            return [val(x, depth + 1) for x in v]
        if isinstance(v, (set, frozenset)):
            return sorted(str(val(x, depth + 1)) for x in v)
        if isinstance(v, dict):
            return {str(k): val(x, depth + 1) for k, x in v.items()}
        if type(v).__name__ == "Maneuver":
            return {k: val(x, depth + 1) for k, x in sorted(vars(v).items()) if not k.startswith("__")}
        if hasattr(v, "polygons") or hasattr(v, "lineString"):
            g = getattr(v, "polygons", None) or getattr(v, "lineString", None)
            return f"<region {type(v).__name__} {val(g)}>"
        if type(v).__name__ in ("weakproxy", "weakcallableproxy", "Network"):
            return "<network>"
        return f"<{type(v).__name__}>"

    out = {"tolerance": net.tolerance, "driveOnLeft": net.driveOnLeft, "elements": {}}
    for name in ("roads", "connectingRoads", "allRoads", "laneGroups", "lanes", "intersections", "crossings", "sidewalks", "shoulders", "roadSections", "laneSections"):
        out[name] = [e.uid for e in getattr(net, name)]
    for uid, e in net.elements.items():
        d = {"class": type(e).__name__}
        for k, v in sorted(vars(e).items()):
            if k in ("network",) or k.startswith("_cached") or k.startswith("__"):
                continue
            try:
                d[k] = val(v)
            except ReferenceError:
                d[k] = "<network>"
        out["elements"][uid] = d
    return out


def first_diff(a, b, path="network"):
    if type(a) is not type(b):
        return f"{path}: {type(a).__name__} vs {type(b).__name__}"
    if isinstance(a, dict):
        for k in sorted(set(a) | set(b)):
            if k not in a or k not in b:
                return f"{path}.{k}: present only in the {'parsed' if k in a else 'cached'} network"
            d = first_diff(a[k], b[k], f"{path}.{k}")
            if d:
                return d
        return None
    if isinstance(a, list):
        if len(a) != len(b):
            return f"{path}: {len(a)} vs {len(b)} entries"
        for i, (x, y) in enumerate(zip(a, b)):
            d = first_diff(x, y, f"{path}[{i}]")
            if d:
                return d
        return None
    if isinstance(a, float):
        return None if (a == b or abs(a - b) <= 1e-12 * max(1, abs(a))) else f"{path}: {a!r} vs {b!r}"
    return None if a == b else f"{path}: {str(a)[:80]} vs {str(b)[:80]}"


def check_map(path, seed, npoints, options):
    import warnings

    warnings.simplefilter("ignore")
    import scenic.domains.driving.roads as R

    res = {c: [] for c in CLAUSES}
    rng = random.Random(seed)
    with tempfile.TemporaryDirectory() as d:
        p = os.path.join(d, os.path.basename(path))
        shutil.copy(path, p)
        try:
            net = R.Network.fromFile(p, useCache=False, writeCache=True, **options)
        except Exception as e:
            return {"error": f"fromFile failed with {type(e).__name__}: {str(e)[:100]}"}
        res["links_are_reciprocal"] = check_links(net)
        res["children_inside_parents"] = check_containment(net)
        res["lookups_contain_the_point"] = check_lookups(net, rng, npoints)
        # cache == parse
        parses = []
        orig = R.Network.fromOpenDrive.__func__

        def spy(cls, pth, **kw):
            parses.append(kw)
            return orig(cls, pth, **kw)

        R.Network.fromOpenDrive = classmethod(spy)
        try:
            cached = R.Network.fromFile(p, useCache=True, writeCache=False, **options)
            if parses:
                res["cache_equals_parse"].append("the cache written by fromFile was not used by the next fromFile with the same map and options")
            else:
                dd = first_diff(describe(net), describe(cached))
                if dd:
                    res["cache_equals_parse"].append(dd)
                extra = check_links(cached)[:2] + check_lookups(cached, random.Random(seed), max(10, npoints // 4))[:2]
                res["cache_equals_parse"] += [f"(network from the cache) {x}" for x in extra]
            del parses[:]
            other = dict(options)
            other["tolerance"] = options.get("tolerance", 0.05) * 2
            R.Network.fromFile(p, useCache=True, writeCache=False, **other)
            if not parses:
                res["cache_ignored_when_map_or_options_differ"].append(f"cache written for options {options} was used for {other}")
            del parses[:]
            with open(p, "ab") as f:
                f.write(b"\n<!-- changed -->\n")
            R.Network.fromFile(p, useCache=True, writeCache=False, **options)
            if not parses:
                res["cache_ignored_when_map_or_options_differ"].append("cache was used although the map file changed")
        except Exception as e:
            res["cache_equals_parse"].append(f"{type(e).__name__}: {str(e)[:100]}")
        finally:
            R.Network.fromOpenDrive = classmethod(orig)
    res["stats"] = dict(elements=len(net.elements), lanes=len(net.lanes), intersections=len(net.intersections))
    return res


def worker_main():
    for line in sys.stdin:
        job = json.loads(line)
        try:
            rec = check_map(job["path"], job["seed"], job["npoints"], job["options"])
        except Exception as e:
            rec = {"error": f"{type(e).__name__}: {str(e)[:200]}"}
        rec["id"] = job["id"]
        sys.stdout.write(json.dumps(rec) + "\n")
        sys.stdout.flush()


# ------------------------------------------------------------------------------------------------ driver
def plan(tier, seed):
    maps = all_maps()
    if tier == "quick":
        quick = maps[:5] + [m for m in maps if os.path.basename(m) == "cubetown.xodr"]  # the smallest map with intersections
        return [(m, {}, 60) for m in quick]
    jobs = []
    for m in maps:
        if os.path.getsize(m) > 1_000_000:
            continue
        for opts in ({}, {"tolerance": 0.1, "fill_gaps": False}, {"elide_short_roads": True}):
            jobs.append((m, opts, 400))
    return jobs


def run_jobs(jobs, seed, nproc=3):
    import threading

    env = dict(os.environ)
    env.pop("PYTHONDONTWRITEBYTECODE", None)
    env["PYTHONPYCACHEPREFIX"] = "/tmp/pyvc_pycache"
    shares = [[] for _ in range(nproc)]
    for i in range(len(jobs)):
        shares[i % nproc].append(i)
    procs = []
    for share in shares:
        if not share:
            continue
        p = subprocess.Popen([sys.executable, os.path.abspath(__file__), "--worker"], stdin=subprocess.PIPE, stdout=subprocess.PIPE, stderr=subprocess.DEVNULL, env=env, text=True)
        procs.append((p, share))

    def feed(p, share):
        try:
            for i in share:
                p.stdin.write(json.dumps(dict(id=i, path=jobs[i][0], options=jobs[i][1], npoints=jobs[i][2], seed=seed)) + "\n")
            p.stdin.close()
        except BrokenPipeError:
            pass

    for p, share in procs:
        threading.Thread(target=feed, args=(p, share), daemon=True).start()
    results = {}
    for p, share in procs:
        for line in p.stdout:
            try:
                r = json.loads(line)
                results[r["id"]] = r
            except ValueError:
                continue
        p.wait()
        for i in share:
            results.setdefault(i, {"error": f"worker died (exit {p.returncode})"})
    return results


def replay(inputs, clause):
    path = inputs.get("map")
    if not path or not os.path.exists(path):
        return None
    from standins.frontend_mutants import fast_imports

    fast_imports()
    opts = inputs.get("options") or {}
    if isinstance(opts, str):
        import ast as _ast

        opts = _ast.literal_eval(opts)
    rec = check_map(path, int(inputs.get("seed", 0)), int(inputs.get("npoints", 60)), opts)
    if "error" in rec:
        return f"{os.path.basename(path)}: {rec['error']}"
    c = clause.split(".")[-1]
    bad = rec.get(c) or []
    return f"{os.path.relpath(path, repo_root())}: {bad[0]}" if bad else None


def register(reg):
    from pyvc import contracts as C

    tier = os.environ.get("VERIF_TIER", "quick")
    seed = int(os.environ.get("VERIF_SEED", "0"))

    def post(I, env, outcome):
        jobs = plan(tier, seed)
        results = run_jobs(jobs, seed)
        root = repo_root()
        names = {}
        for i, (m, opts, npts) in enumerate(jobs):
            names.setdefault(os.path.relpath(m, os.path.join(root, "assets", "maps")), []).append(i)
        for name in sorted(names):
            idx = names[name]
            errs = [results[i]["error"] for i in idx if "error" in results[i]]
            if errs:
                I.eng.input_syms.append(("map", C.Const(None), jobs[idx[0]][0]))
            I.eng.check(f"standin.road_networks#{name}.loads", not errs, detail=errs[0] if errs else None, kind="bounded")
            if errs:
                del I.eng.input_syms[-1:]
                continue
            for c in CLAUSES:
                bad = [(i, results[i][c][0]) for i in idx if results[i].get(c)]
                if bad:
                    i0 = bad[0][0]
                    I.eng.input_syms.append(("map", C.Const(None), jobs[i0][0]))
                    I.eng.input_syms.append(("options", C.Const(None), jobs[i0][1]))
                    I.eng.input_syms.append(("npoints", C.Const(None), jobs[i0][2]))
                    I.eng.input_syms.append(("seed", C.Const(None), seed))
                I.eng.check(f"standin.road_networks#{name}.{c}", not bad, detail=(f"{bad[0][1]} (options {jobs[bad[0][0]][1]})" if bad else f"{results[idx[0]].get('stats')}"), kind="bounded")
                if bad:
                    del I.eng.input_syms[-4:]
        I.eng.check("standin.road_networks#corpus_nonempty", len(jobs) > 0, detail=f"{len(jobs)} map x option combinations ({tier} tier, seed {seed})", kind="bounded")

    reg.add(
        C.Contract(
            "scenic.syntax.veneer:isActive",
            params={},
            post=post,
            bounded=True,
            replay=replay,
            note="bounded: C20's consistency clauses as run-time contracts on the real Network objects of the maps shipped under assets/maps (see standins/road_networks.py for the bound)",
            properties=("C20",),
        ),
        key="scenic.syntax.veneer:isActive[road-networks]",
    )


if __name__ == "__main__":
    if "--worker" in sys.argv:
        worker_main()
