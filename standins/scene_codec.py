"""BOUNDED stand-in for the whole-scene clauses of C18 (never counted as proved).

The codecs and `readScene` are under contract function by function (contracts/serialization.py, sample_codec.py,
vector_codec.py); what no single contract states is the behaviour of the *composition* on whole programs: decoding
re-computes every derived value from the decoded draws (specifier resolution, angle normalisation, mutation).  This
stand-in runs the REAL `Scenario.sceneToBytes` / `sceneFromBytes` on a catalogue of programs:

  round_trip_equal               decode(encode(scene)) has the same value of every listed property of every object
                                 and the same global parameters (programs with random orientations, nested discrete
                                 choices, conditional distributions, tuples, mutation)
  truncated_data_refused         every proper prefix of the encoding raises SerializationError
  corrupted_data_fails_only_with_a_serialization_error
                                 for every byte position, replacing the byte by each of a few values either decodes to
                                 some scene or raises SerializationError: no other exception and no hang (each decode
                                 runs under a watchdog of WATCHDOG seconds)

Bound: the programs of PROGRAMS, SEEDS scenes each, all truncation points, byte values CORRUPT (quick tier; all 255
other values in the thorough tier)."""
import os
import signal

WATCHDOG = 5
PROPS = ("position", "yaw", "pitch", "roll", "width", "length", "height", "foo")

PROGRAMS = {
    "orientations": (
        "ego = new Object at (Range(-5, 5), Range(-5, 5), Range(0, 3)), facing (Range(0, 360) deg, Range(-30, 30) deg, Range(-20, 20) deg),\n"
        "    with width Range(1, 2), with foo Uniform('a', 'b', 'c')\n"
        "other = new Object at (Range(10, 20), Range(10, 20), 1), facing Range(0, 360) deg, with foo Options({Range(1, 2): 1, Range(3, 4): 2})\n"
        "param p = other.position\nparam q = (Range(5, 6) + 3, DiscreteRange(0, 9))\n"
    ),
    "discrete": (
        "ego = new Object at Range(-5, 5) @ Range(-5, 5), with foo Uniform(Uniform(1, 2), Options({3: 1, 4: 3}), Discrete({5: 1, 6: 1}))\n"
        "third = new Object at Range(30, 40) @ Range(-5, 5), with foo DiscreteRange(0, 1000), with height Normal(2, 0.1)\n"
        "param r = TruncatedNormal(0, 1, -2, 2)\n"
    ),
    "mutation": (
        "ego = new Object at Range(-5, 5) @ Range(-5, 5), facing Range(0, 360) deg\n"
        "other = new Object at Range(10, 20) @ Range(10, 20)\n"
        "mutate ego\nmutate other by 2\n"
    ),
}
MODE2D = {"orientations": False, "discrete": True, "mutation": True}
SEEDS = (0, 1)
CORRUPT = (0x00, 0xFF, 0x7F, 0x80, 0x01, 0xF0)


class _Hang(Exception):
    pass


def _alarm(signum, frame):
    raise _Hang()


def describe(scene):
    objs = []
    for o in scene.objects:
        row = []
        for p in PROPS:
            v = getattr(o, p, None)
            row.append(tuple(v) if hasattr(v, "coordinates") else v)
        objs.append(tuple(row))
    params = {k: (tuple(v) if hasattr(v, "coordinates") else v) for k, v in scene.params.items()}
    return objs, params


def close(a, b, tol=1e-9):
    if isinstance(a, (tuple, list)) and isinstance(b, (tuple, list)):
        return len(a) == len(b) and all(close(x, y, tol) for x, y in zip(a, b))
    if isinstance(a, dict) and isinstance(b, dict):
        return a.keys() == b.keys() and all(close(a[k], b[k], tol) for k in a)
    if isinstance(a, float) or isinstance(b, float):
        try:
            return abs(a - b) <= tol * max(1.0, abs(a), abs(b))
        except TypeError:
            return False
    return a == b


def decode(scenario, data):
    """-> ("scene", scene) | ("refused", msg) | ("hang", None) | ("other", exception text)"""
    from scenic.core.serialization import SerializationError

    old = signal.signal(signal.SIGALRM, _alarm)
    signal.alarm(WATCHDOG)
    try:
        return "scene", scenario.sceneFromBytes(data)
    except SerializationError as e:
        return "refused", str(e)
    except _Hang:
        return "hang", None
    except Exception as e:  # noqa
        return "other", f"{type(e).__name__}: {e}"
    finally:
        signal.alarm(0)
        signal.signal(signal.SIGALRM, old)


def run_program(name, tier):
    import random
    import warnings

    import numpy

    import scenic

    warnings.filterwarnings("ignore")
    res = {"round_trip_equal": None, "truncated_data_refused": None, "corrupted_data_fails_only_with_a_serialization_error": None}
    stats = {"scenes": 0, "truncations": 0, "corruptions": 0}
    scenario = scenic.scenarioFromString(PROGRAMS[name], mode2D=MODE2D[name])
    values = range(256) if tier == "thorough" else CORRUPT
    for seed in SEEDS:
        random.seed(seed)
        numpy.random.seed(seed)
        scene, _ = scenario.generate(maxIterations=1000)
        data = scenario.sceneToBytes(scene)
        stats["scenes"] += 1
        kind, out = decode(scenario, data)
        if res["round_trip_equal"] is None:
            if kind != "scene":
                res["round_trip_equal"] = (f"program {name!r}, seed {seed}: decoding the untouched encoding gives {kind}: {out}", dict(program=name, seed=seed))
            elif not close(describe(scene), describe(out)):
                d1, d2 = describe(scene), describe(out)
                res["round_trip_equal"] = (f"program {name!r}, seed {seed}: the decoded scene differs from the encoded one: objects {d1[0]} / params {d1[1]} became {d2[0]} / {d2[1]}", dict(program=name, seed=seed))
        for cut in range(len(data)):
            stats["truncations"] += 1
            kind, out = decode(scenario, data[:cut])
            if kind != "refused" and res["truncated_data_refused"] is None:
                res["truncated_data_refused"] = (f"program {name!r}, seed {seed}: the encoding truncated to {cut} of {len(data)} bytes gives {kind}: {out if kind != 'scene' else 'a scene'}", dict(program=name, seed=seed, cut=cut))
        for pos in range(len(data)):
            for v in values:
                if data[pos] == v:
                    continue
                stats["corruptions"] += 1
                bad = data[:pos] + bytes([v]) + data[pos + 1 :]
                kind, out = decode(scenario, bad)
                if kind in ("hang", "other") and res["corrupted_data_fails_only_with_a_serialization_error"] is None:
                    what = f"does not return within {WATCHDOG} s" if kind == "hang" else f"escapes with {out}"
                    res["corrupted_data_fails_only_with_a_serialization_error"] = (f"program {name!r}, seed {seed}: byte {pos} of {len(data)} changed from {data[pos]:#04x} to {v:#04x}: decoding {what}", dict(program=name, seed=seed, pos=pos, value=v))
    return res, stats


def replay(inputs, clause):
    cfg = inputs.get("case")
    if not cfg:
        return None
    r, _ = run_program(cfg["program"], os.environ.get("VERIF_TIER", "quick"))
    for c, bad in r.items():
        if bad and c in clause:
            return bad[0]
    return None


def register(reg):
    from pyvc import contracts as C

    tier = os.environ.get("VERIF_TIER", "quick")

    def post(I, env, outcome):
        total = {"scenes": 0, "truncations": 0, "corruptions": 0}
        for name in PROGRAMS:
            try:
                res, stats = run_program(name, tier)
            except Exception as e:  # the real code crashed outside the decoder: report it against the round trip
                res, stats = {"round_trip_equal": (f"program {name!r}: {type(e).__name__}: {e}", dict(program=name))}, {}
            for k, v in stats.items():
                total[k] += v
            for c, bad in res.items():
                if bad:
                    I.eng.input_syms.append(("case", C.Const(None), bad[1]))
                I.eng.check(f"standin.scene_codec#{name}.{c}", bad is None, detail=bad[0] if bad else None, kind="bounded")
                if bad:
                    del I.eng.input_syms[-1:]
        I.eng.check("standin.scene_codec#catalogue_nonempty", total["scenes"] > 0 and total["corruptions"] > 0, detail=f"{total} ({tier} tier)", kind="bounded")

    reg.add(
        C.Contract(
            "scenic.syntax.veneer:isActive",
            params={},
            post=post,
            bounded=True,
            replay=replay,
            note="BOUNDED stand-in (never counted as proved): real sceneToBytes / sceneFromBytes on the programs of standins/scene_codec.py: round trip, every truncation point, "
            "single-byte corruptions under a watchdog",
            properties=("C18",),
        ),
        key="scenic.syntax.veneer:isActive[scene-codec]",
    )


if __name__ == "__main__":
    import sys, time

    for name in PROGRAMS:
        t = time.time()
        r, st = run_program(name, sys.argv[1] if len(sys.argv) > 1 else "quick")
        print(name, st, round(time.time() - t, 1), "s")
        for c, bad in r.items():
            print("   ", c, "OK" if bad is None else bad[0][:400])
